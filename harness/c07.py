"""C07 - parallel evaluation is equivalent to serial evaluation under every schedule.

Correspondence with Model/Parallel.v + Model/Job.v (driver Run/C07Run.v) and direct oracle.

The harness controls the REAL worker threads of `Evaluator.evaluate_parallel` (joblib threading backend,
require='sharedmem'): the scripted objective (`Problem.evaluate`) and the store's `sync_individual` block on a
per-task gate; a scheduler thread waits until every live worker is blocked, releases exactly one of them
according to the schedule under test, waits until that thread blocks at its next gate or its job ends, and
records the global order in which the gates were passed.  Everything goes through `Algorithm.evaluate` with
max_processes = 2..4 (8 in the free-running stress runs, 4 or 8 in the free-running numpy-objective runs), with a
real SQLite file store (default thread-safe mode, read back through `ProblemViewDataStore`) or an in-memory
recording store.

Compared per schedule (in Coq, `par_run`):
  (a) the observed gate trace is a merge of the model's task step lists (projected on objective call / sync),
  (b) final designs, problem.failed (multiset), store rows by id, objective calls (multiset) of the real
      parallel run = the model's state after that interleaving; and a REAL serial evaluation
      (max_processes = 1) of the same batch = Model/Job.v `evaluate_serial`; and the model-level instance of
      the theorem (interleaved observation = serial observation).
Direct oracle on the implementation alone: costs = f(stored vector); exactly one successful objective call
per design; every evaluated design persisted with its final data; parallel result = serial result.

Store faults (red-team lesson: no write ever failed here): artap.datastore.sqlite3 is replaced by a proxy whose
connections can REFUSE the write of chosen rows (sqlite3.OperationalError 'database is locked' at the INSERT, a
failing COMMIT, a failing PRAGMA; 1..6 times in a row) and observe refusals by the real SQLite under real lock
contention (a worker held between INSERT and COMMIT; a connection outside the evaluation holding BEGIN EXCLUSIVE; busy
timeout shortened).  The model (Model/Parallel.v XRefused) says a refused attempt changes nothing and the write is
retried until it goes through: exactly one objective call per design, nothing in problem.failed, rows = final data.

Ambient joblib configuration (red-team round 2): Algorithm.evaluate is also run INSIDE the caller's own
`joblib.parallel_backend('threading' | 'loky' | 'multiprocessing')` / `joblib.parallel_config(backend=…, prefer='threads',
require='sharedmem', n_jobs=…)` contexts (11 configurations): the evaluation asks for shared memory, so the workers stay threads on
the caller's designs; gated sessions (compared with the model as every other schedule) and a plain picklable Problem (so that
workers that are processes really run: the caller's designs stay EMPTY, the objective is never called in this process).

Numpy objectives (red-team round 3): seven objectives written with numpy whose arithmetic overflows / is invalid for SOME designs
of a batch (`make_npF`), gated and free-running; inf / nan / huge values are VALUES of the objective in every thread (numpy's
floating-point error state is thread-local); the model's objective table comes from a plain call of the same function.
"""
import contextlib
import io
import itertools
import math
import os
import struct
import sys
import threading
import time

from harness.core import fl, nl, bl, ll, pl

PROP = "C07"
THEOREMS = {"Artap.Props.C07": [
    "C07_steps_commute", "C07_any_interleaving_equals_serial", "C07_serial_steps_is_job_evaluate",
    "C07_parallel_equals_evaluate_serial", "C07_objective_once_per_design", "C07_every_evaluated_design_persisted",
    "C07_costs_belong_to_vector", "C07_refused_store_writes_invisible", "C07_refused_store_writes_once_and_persisted"]}
AXIOMS_OK = []
# second tie to the code (tools/py2coq.py + front-end tools/py2coq_eff.py + coq/theories/GenProofs): on every run the source
# of eight functions is translated and proved equal to the models for all inputs (4 modules, 11 theorems):
#   SignedCostsGen  Individual.calc_signed_costs                      = Model/Job.v signed_costs
#   JobGen          Job.evaluate (whole)                              = Model/Job.v job_evaluate
#   EvalPathGen     Evaluator.evaluate_serial / evaluate_scalar       = Model/Job.v evaluate_serial / evaluate_scalar;
#                   Evaluator.evaluate_parallel (the submission filter, finding F8; joblib's configuration pinned by text)
#                                                                     = Model/Parallel.v par_tasks' submission rule
#   StoreGen        SqliteDataStore.sync_individual / sync_all        = a specification stated in GenProofs/StoreEquiv.v itself
#                   (sync_spec / sync_all_spec: on sqlite3.OperationalError, and on nothing else, the same call again and
#                   nothing in between) + the bridge to Model/Crash.v resync / sync_all_steps; no theorem there mentions
#                   Model/Parallel.v: that this retry rule is what XRefused models is read off the specification
from harness.core import translated_specs
RERUN_TO_CONFIRM = True      # worker threads under gated schedules: a failure counts only if the identical pass fails twice (core._run_confirmed)
TRANSLATED = translated_specs("SignedCostsGen", "JobGen", "EvalPathGen", "StoreGen")
TRUSTED = [
    "Coq 8.16.1 kernel, vm_compute for model evaluation (no native_compute)",
    "hand-written small-step model Model/Parallel.v (steps of Job.evaluate at objective-call / store-sync granularity) over the data "
    "of Model/Job.v, tied to operators.py / job.py / datastore.py by this correspondence run on real joblib threads",
    "NOT modelled, exercised only (controlled schedules + free-running stress runs): CPython byte-code interleavings inside one step, "
    "the GIL atomicity of list.append and of attribute stores, joblib's dispatch, SQLite's locking protocol itself",
    "the store write under lock contention is modelled as retry-until-success (Model/Parallel.v XRefused: a refused attempt is a step "
    "without effect; datastore.py sync_individual calls itself again on sqlite3.OperationalError, unboundedly); tied to the code by "
    "fault injection at sqlite3.connect (proxy installed harness-side around artap.datastore.sqlite3: the INSERT of chosen designs "
    "raises OperationalError('database is locked') 1..6 times in a row, the COMMIT fails and is rolled back, a PRAGMA of conn() fails) "
    "and by REAL lock contention (a worker held between INSERT and COMMIT while the others write; a connection outside the evaluation "
    "holding BEGIN EXCLUSIVE) with the busy timeout shortened from 5 s to 8 ms, which only scales the waiting time",
    "joblib's choice of backend is not modelled: the evaluation is run under 11 ambient joblib configurations (parallel_backend / "
    "parallel_config with thread and process backends, prefer, require, n_jobs) and must give the per-design result of the serial "
    "evaluation in the caller's process under each; parallel_config(prefer='processes') is excluded (joblib rejects it together with "
    "require='sharedmem' with a ValueError before any worker starts: observed and recorded, no schedule ever runs)",
    "the objective, the constraint function and VectorAndNumbers.gen_vector are oracles: scripted by the harness per (design, attempt) "
    "and given to the model as tables; the theorems hold for every oracle that does not look at the global call order",
    "np.round / sign product: binary64 driver of Run/C05Run.v, compared bit for bit; JSON/SQLite round trip of a row is C10's subject",
]
ASSUMPTIONS = [
    "LOCALITY: the outcome of the objective (value or transient failure) and the replacement vector drawn after a failure depend on "
    "the design, its attempt number and its vector, not on the global order of calls (hypothesis `local_env`); an objective that looks "
    "at the global call order, and the real gen_vector (one shared PRNG stream), are outside the property",
    "the batch holds pairwise distinct design objects (any state at entry: only EMPTY designs are submitted, by both modes, since the "
    "fix of finding F8); the same object submitted twice to a parallel batch is a data race by construction",
    "every job completes: no non-transient exception and fewer than five consecutive transient failures per design (on an exception "
    "joblib cancels the remaining jobs, which the serial loop does too, but at a different point); C06 owns the raising cases",
    "the objective returns a fresh list and does not modify the individual; the constraint function does not raise",
    "THE LOCK IS EVENTUALLY RELEASED: whoever holds the database lock commits after finitely many refusals of the other writers (every "
    "execution contains the successful write of every evaluated design); a store that stays locked forever makes sync_individual "
    "recurse until RecursionError, outside the property. An injected COMMIT failure rolls the transaction back (as SQLite does for "
    "SQLITE_FULL / SQLITE_IOERR); a COMMIT that fails while the lock is kept would make the unchanged sync_individual wait for itself",
    "sync_all (called by every algorithm's run() after its evaluations, not by Algorithm.evaluate) has no retry: an OperationalError "
    "reaches its caller; required here only: the rows written by sync_individual are final whether or not sync_all goes through",
    "schedules are interleavings at the granularity of the property: a thread switch inside one step is exercised, not modelled",
]

HEADER = ("From Artap Require Import Run.C07Run.\nFrom Coq Require Import List ZArith Floats.\nImport ListNotations.\n"
          "Open Scope float_scope.\n")

# -1.0 / -2.0 collide under hash(); 0.5 / 0.50000000001 are "equal" for Individual.__eq__ (|a-b| < 1e-10)
VGRID = [-2.0, -1.0, -0.5, 0.0, 0.5, 0.50000000001, 1.0, 1.5, 2.0, 3.0, 0.1, 0.30000000000000004, 1e-9, 2.5, 0.7]
TRANSIENT = {"T": TimeoutError, "R": RuntimeError}
STATES = {"EMPTY": "Empty", "IN_PROGRESS": "InProgress", "EVALUATED": "Evaluated", "FAILED": "Failed",
          "empty": "Empty", "in_progress": "InProgress", "evaluated": "Evaluated", "failed": "Failed"}


# ----------------------------------------------------------------------------- small helpers
def bits(x):
    return struct.pack("<d", float(x))


def same_float(a, b):
    try:
        a, b = float(a), float(b)
    except (TypeError, ValueError):
        return False
    return (math.isnan(a) and math.isnan(b)) or bits(a) == bits(b)


def same_vec(a, b):
    try:
        return len(a) == len(b) and all(same_float(x, y) for x, y in zip(a, b))
    except TypeError:
        return False


def same_signed(a, b):
    if len(a) != len(b):
        return False
    if not a:
        return True
    return same_vec(a[:-1], b[:-1]) and bool(a[-1]) == bool(b[-1])


def is_num(x):
    return (isinstance(x, (int, float)) and not isinstance(x, bool)) or type(x).__name__ in ("float64", "float32", "int64", "int32")


def is_int_object(x):
    """a number the implementation holds as an integer object: numpy's round / multiply take the integer path for it"""
    return (isinstance(x, int) and not isinstance(x, bool)) or type(x).__name__ in ("int64", "int32", "int16", "int8", "uint64", "uint32")


def enc_num(x):
    """Run/C05Run.v `num`: F = float object, I = integer object (np.round is the identity on it)"""
    if not is_num(x):
        return "(F nan)"
    return "(%s %s)" % ("I" if is_int_object(x) else "F", fl(float(x)))


def enc_vec(v):
    try:
        return ll(list(v), enc_num)
    except TypeError:
        return "[F nan; F nan; F nan; F nan; F nan; F nan; F nan; F nan; F nan]"


def enc_snap(s):
    vec, costs, signed, state, feas = s[:5]
    prec = s[5] if len(s) > 5 else 7
    if len(signed) == 0:
        sg = "None"
    else:
        sg = "(Some %s)" % pl(enc_vec(signed[:-1]), bl(bool(signed[-1])))
    return "(mk %s %s %s %s %s %s)" % (enc_vec(vec), enc_vec(costs), sg, STATES.get(state, "Failed"), bl(feas),
                                      nl(prec if isinstance(prec, int) and 0 <= prec < 400 else 399))


def snap_key(s):
    vec, costs, signed, state, feas = s[:5]
    return (tuple(bits(x) for x in vec), tuple(bits(x) if is_num(x) else b"?" for x in costs),
            tuple(bits(x) if is_num(x) and not isinstance(x, bool) else bytes([bool(x)]) for x in signed), state, feas)


def make_F(m, coef):
    """The user's objective as a pure function of the vector (the direct oracle recomputes it)."""
    def F(v):
        v = [float(x) for x in v]
        out = []
        for j in range(m):
            s = coef[j][0]
            for i, x in enumerate(v):
                s += coef[j][1 + i % 3] * x + (x * x) / (3.0 + j)
            out.append(s)
        return out
    return F


NPKINDS = ["exp_scalar", "exp_array", "square_array", "sqrt_log", "inf_minus_inf", "np_costs", "round_huge"]


def make_npF(kind, m):
    """Objectives written with numpy whose arithmetic OVERFLOWS or is INVALID for some designs of the box and is finite for the
    others (red team round 3: numpy's floating-point error state is thread-local, so anything in artap that changes it - or depends
    on it - acts on the dispatching thread only).  The objective's outcome is a function of the vector: whatever IEEE arithmetic
    gives (inf / nan / a huge finite number are VALUES), in every thread.  The reference values for the model and the oracle are
    computed by this same function in a plain call outside artap (main thread of the harness)."""
    import numpy as np

    def F(v):
        v = [float(x) for x in v]
        a = np.array(v, dtype=float)
        x0, xl = np.float64(v[0]), np.float64(v[-1])
        out = []
        for j in range(m):
            if kind == "exp_scalar":            # numpy-scalar arithmetic: exp overflows for x0 >= 1.78 (x0 = 1.5: 1e260, finite)
                c = np.exp(np.float64(400.0 + 50.0 * j) * x0) + np.float64(sum(v))
            elif kind == "exp_array":           # ndarray arithmetic
                c = np.sum(np.exp((300.0 + 100.0 * j) * a)) - j
            elif kind == "square_array":        # (1e160 x)^2: inf unless |x| < 1e-6 or so; 1e-9 -> 1e302 (huge), 0 -> 0
                b = a * 1e160
                c = np.sum(b * b) * 1e-300 + j
            elif kind == "sqrt_log":            # invalid: sqrt of a negative number, log of a negative number (nan); log(0) = -inf
                c = np.sqrt(x0 + 0.25 * j) + np.log(xl + 1.0)
            elif kind == "inf_minus_inf":       # overflow AND invalid: inf - inf
                e = np.exp(400.0 * a)
                c = np.sum(e) - np.max(e) + np.float64(j)
            elif kind == "np_costs":            # as exp_array, the costs stay numpy scalars
                out.append(np.sum(np.exp((300.0 + 100.0 * j) * a)) * np.float64(0.5))
                continue
            else:                               # round_huge: the VALUE is finite (1e302..), np.round(value, 7) overflows in calc_signed_costs
                c = np.float64(1e302) * (1.0 + abs(x0)) if x0 >= 1.0 else x0 + j
            out.append(float(c))
        return out

    def reference(v):
        # the plain reference call: IEEE default (non-stop) arithmetic whatever error state the calling thread was left in
        with np.errstate(all="ignore"):
            return F(v)
    reference.live = F           # what the objective runs inside artap: the error state is whatever artap / the thread has
    return reference


def make_G(k, thr):
    def G(v):
        v = [float(x) for x in v]
        return [v[l % len(v)] - thr[l] for l in range(k)] if v else [0.0] * k
    return G


def funcs(lab, cfg):
    """the objective and the constraint function of a case as pure functions of the vector"""
    if cfg.get("bench"):
        return lab.bench_F(cfg["bench"]), None
    if cfg.get("npkind"):
        return make_npF(cfg["npkind"], len(cfg["crit"])), (make_G(cfg["ncons"], cfg["thr"]) if cfg["ncons"] > 0 else None)
    return make_F(len(cfg["crit"]), cfg["coef"]), (make_G(cfg["ncons"], cfg["thr"]) if cfg["ncons"] > 0 else None)


# ----------------------------------------------------------------------------- thread control
class Ctl:
    """Gates for the worker threads and the scheduler that releases one blocked task at a time.
    policy(ctl) -> task chosen among ctl.blocked; policy None = free running (gates only record)."""

    def __init__(self, k, active, policy, stall=4.0):
        self.cv = threading.Condition()
        self.k, self.active, self.policy, self.stall = k, set(active), policy, stall
        self.free = policy is None
        self.blocked = {}
        self.granted = None
        self.running = None
        self.finished = set()
        self.trace = []
        self.anomalies = []
        self.stalls = 0
        self.done = False
        self.decisions = 0
        self.last_released = None

    def _go_free(self):
        self.free = True
        self.cv.notify_all()

    def _record(self, task, att, kind):
        if kind in ("obj", "sync", "refused"):          # other kinds are extra preemption points, invisible to the model
            self.trace.append((task, att, kind))

    def gate(self, task, kind, att):
        with self.cv:
            if self.free or task is None:
                self._record(task, att, kind)
                return
            if task in self.blocked:
                self.anomalies.append("two threads are inside Job.evaluate for design %r at the same time" % (task,))
                self._go_free()
                self._record(task, att, kind)
                return
            self.blocked[task] = (kind, att)
            if self.running == task:
                self.running = None
            self.cv.notify_all()
            while self.granted != task and not self.free:
                self.cv.wait(0.25)
            self.blocked.pop(task, None)
            if self.granted == task:
                self.granted = None
                self.running = task
            self._record(task, att, kind)
            self.cv.notify_all()

    def job_end(self, task):
        with self.cv:
            self.finished.add(task)
            if self.running == task:
                self.running = None
            self.cv.notify_all()

    def all_done(self):
        with self.cv:
            self.done = True
            self.cv.notify_all()

    def loop(self):
        with self.cv:
            while not self.done and not self.free:
                t0 = time.time()
                while not self.done:
                    want = min(self.k, len(self.active - self.finished))
                    if want > 0 and self.running is None and len(self.blocked) >= want:
                        break
                    self.cv.wait(0.05)
                    if time.time() - t0 > self.stall and (self.blocked or self.running is not None or want > 0):
                        self.stalls += 1
                        self._go_free()
                        return
                if self.done:
                    return
                t = self.policy(self)
                self.decisions += 1
                self.last_released = t
                self.granted = t
                self.cv.notify_all()
                t0 = time.time()
                while not self.done and (self.granted == t or self.running == t):
                    self.cv.wait(0.05)
                    if time.time() - t0 > self.stall:
                        self.stalls += 1
                        self._go_free()
                        return


# ----------------------------------------------------------------------------- schedules (policies)
def pol_fifo(c):          # lowest submission index first: every job runs to its end before the next (serial order)
    return min(c.blocked, key=lambda t: c.pos[t])


def pol_lifo(c):          # last submitted finishes first
    return max(c.blocked, key=lambda t: c.pos[t])


def pol_obj_first(c):     # all objectives before any sync (as far as the worker count allows)
    return min(c.blocked, key=lambda t: (0 if c.blocked[t][0] == "obj" else 1, c.pos[t]))


def pol_obj_first_rev(c):
    return min(c.blocked, key=lambda t: (0 if c.blocked[t][0] == "obj" else 1, -c.pos[t]))


def pol_sync_first(c):    # a finished objective is stored at once; objectives in reverse order
    return min(c.blocked, key=lambda t: (0 if c.blocked[t][0] == "sync" else 1, -c.pos[t]))


def pol_round_robin(c):   # never release the same task twice in a row if another one is blocked
    last = c.last_released
    cand = sorted(c.blocked, key=lambda t: c.pos[t])
    later = [t for t in cand if last is not None and last in c.pos and c.pos[t] > c.pos[last]]
    return (later or cand)[0]


def pol_random(seed):
    import random
    r = random.Random(seed)

    def pol(c):
        return r.choice(sorted(c.blocked, key=lambda t: c.pos[t]))
    pol.__name__ = "random"
    return pol


def pol_target(seq):
    """follow an explicit merge: seq = task ids in the order in which their gates are to be passed"""
    seq = list(seq)

    def pol(c):
        i = len(c.trace)
        if i < len(seq) and seq[i] in c.blocked:
            return seq[i]
        if i < len(seq):
            c.off_target = True              # the wanted task is not blocked at a gate: the merge cannot be realised
        return min(c.blocked, key=lambda t: c.pos[t])
    pol.__name__ = "target"
    return pol


class View:
    """what a policy looks at, restricted to some of the blocked tasks"""

    def __init__(self, c, keys):
        self.blocked = {k: c.blocked[k] for k in keys}
        self.pos, self.trace, self.last_released = c.pos, c.trace, c.last_released


def pol_contend(inner, r):
    """lock contention between the workers themselves: a worker stopped between INSERT and COMMIT owns the database
    lock and is kept there until some other worker has been refused the lock r times in a row; then it commits (the
    lock is eventually released).  Everything else is decided by `inner`."""
    def pol(c):
        holders = [t for t in c.blocked if c.blocked[t][0] == "hold"]
        if not holders:
            return inner(c)
        others = [t for t in c.blocked if t != holders[0]]
        streak = c.session.streak
        if not others or any(streak.get(t, 0) >= r for t in others):
            return holders[0]
        return inner(View(c, others))
    pol.__name__ = inner.__name__.replace("pol_", "") + "+lock%d" % r
    return pol


NAMED = [pol_fifo, pol_lifo, pol_obj_first, pol_obj_first_rev, pol_sync_first, pol_round_robin, pol_round_robin]


# ----------------------------------------------------------------------------- artap side
class Lab:
    def __init__(self, ctx):
        import logging
        from artap.problem import Problem, ProblemViewDataStore
        from artap.individual import Individual
        from artap.algorithm import DummyAlgorithm
        from artap.datastore import SqliteDataStore
        from artap.utils import VectorAndNumbers
        import artap.datastore as datastore_module
        self.datastore_module = datastore_module
        self.ctx, self.logging = ctx, logging
        self.Individual, self.DummyAlgorithm, self.SqliteDataStore = Individual, DummyAlgorithm, SqliteDataStore
        self.ProblemViewDataStore, self.VectorAndNumbers = ProblemViewDataStore, VectorAndNumbers
        self.real_gen_vector = VectorAndNumbers.__dict__["gen_vector"]
        try:
            import numpy as np
            np.seterr(all="ignore")
        except Exception:
            pass

        class Hooks:
            """mixed into every Problem class used here: an attribute of the shared Problem written by a worker in the
            middle of Job.evaluate is a point where the scheduler may switch threads"""

            def __setattr__(self, key, value):
                Problem.__setattr__(self, key, value)
                s = self.__dict__.get("session")
                if s is not None and key != "session":
                    s.preempt()

        class ParProblem(Hooks, Problem):
            def set(self, **kwargs):
                self.name = "c07"
                self.parameters = kwargs["parameters"]
                self.costs = kwargs["costs"]
                self.session = None

            def evaluate(self, individual):
                return self.session.objective(individual)

            def evaluate_inequality_constraints(self, x):
                return self.session.constraints(x, super().evaluate_inequality_constraints(x))
        self.ParProblem, self.Hooks = ParProblem, Hooks
        self.cache = {}
        self.algs = {}
        self.nfile = 0
        self.bench = {}
        self.load_benchmarks()

    def load_benchmarks(self):
        """a few of artap's own benchmark problems: their real evaluate() runs inside the gated objective, on vectors
        whose element reads are preemption points (a thread switch in the middle of the objective)"""
        Hooks = self.Hooks
        try:
            import artap.benchmark_functions as bf
            import artap.benchmark_pareto as bp
        except Exception as e:
            self.bench_error = repr(e)
            return
        specs = [("Rosenbrock", bf, {"dimension": 3}), ("Ackley", bf, {"dimension": 3}), ("Sphere", bf, {"dimension": 2}),
                 ("Booth", bf, {}), ("Rastrigin", bf, {"dimension": 2}), ("BiObjectiveTestProblem", bp, {}),
                 ("PoloniFunction", bp, {}), ("ZDT1", bp, {})]
        for name, mod, kw in specs:
            base = getattr(mod, name, None)
            if base is None:
                continue
            try:
                def evaluate(self, individual, _base=base):
                    return self.session.objective(individual, real=lambda ind: _base.evaluate(self, ind))
                W = type("C07_" + name, (Hooks, base), {"evaluate": evaluate})
                with contextlib.redirect_stderr(io.StringIO()), contextlib.redirect_stdout(io.StringIO()):
                    wrapped = W(**kw)
                    pure = base(**kw)
                wrapped.session = None
                wrapped.logger.setLevel(self.logging.CRITICAL)
                pure.logger.setLevel(self.logging.CRITICAL)
                bounds = [p["bounds"] for p in wrapped.parameters]
                probe = [b[0] + 0.25 * (b[1] - b[0]) for b in bounds]
                [float(c) for c in pure.evaluate(self.Individual(list(probe)))]
                self.bench[name] = (wrapped, pure, bounds)
            except Exception as e:          # a benchmark that cannot be built here is not our subject
                self.bench.setdefault("_unavailable", []).append("%s: %r" % (name, e))

    def bench_F(self, name):
        pure = self.bench[name][1]

        def F(v):
            return [float(c) for c in pure.evaluate(self.Individual([float(x) for x in v]))]
        return F

    def problem_for(self, dim, crit):
        key = (dim, tuple(crit))
        if key not in self.cache:
            params = [{"name": "x%d" % i, "bounds": [-2.0, 3.0]} for i in range(dim)]
            costs = []
            for j, c in enumerate(crit):
                d = {"name": "F%d" % j}
                if c is not None:
                    d["criteria"] = c
                costs.append(d)
            with contextlib.redirect_stderr(io.StringIO()):
                p = self.ParProblem(parameters=params, costs=costs)
            p.logger.setLevel(self.logging.CRITICAL)
            self.cache[key] = p
        return self.cache[key]

    def tidy(self, problem):
        """artap registers an atexit handler per Problem that removes its temporary directory: do it now"""
        import atexit
        try:
            atexit.unregister(problem.cleanup)
            wd = problem.working_dir
            if os.path.isdir(wd) and wd.startswith("/tmp/artap-"):
                import shutil
                shutil.rmtree(wd, ignore_errors=True)
        except Exception:
            pass

    def algorithm_for(self, problem):
        key = id(problem)
        if key not in self.algs:
            alg = self.DummyAlgorithm(problem)
            self.algs[key] = (alg, alg.evaluator.job)
        return self.algs[key]

    def db_path(self):
        self.nfile += 1
        return os.path.join(self.ctx.work, "s_%06d.sqlite" % self.nfile)

    def ambient(self, amb):
        """the caller's own joblib configuration around Algorithm.evaluate: ('backend', name) = joblib.parallel_backend(name),
        ('config', kwargs) = joblib.parallel_config(**kwargs); None when this joblib cannot do it.  NB: joblib installs the
        configuration when the object is CONSTRUCTED (not at __enter__): the result must be entered (and left) at once"""
        import joblib
        if not amb:
            return contextlib.nullcontext()
        kind, arg = amb
        try:
            if kind == "backend":
                return joblib.parallel_backend(arg)
            if kind == "config" and hasattr(joblib, "parallel_config"):
                return joblib.parallel_config(**dict(arg))
        except Exception as e:          # a backend that is not installed here
            self.ambient_unavailable = getattr(self, "ambient_unavailable", []) + ["%r: %r" % (amb, e)]
        return None


class JobProxy:
    """Stands in for evaluator.job: same Job.evaluate, plus a notification when it has returned."""

    def __init__(self, real, session):
        self._real, self._session = real, session

    def evaluate(self, individual):
        try:
            return self._real.evaluate(individual)
        finally:
            self._session.job_end(individual)

    def __getattr__(self, name):
        return getattr(self._real, name)


class HookedList(list):
    """problem.failed during a run: a thread switch is offered before an append and between the evaluation of
    `failed + [x]` and whatever the caller does with the result (both are byte-code boundaries in CPython)"""

    def __init__(self, data, session):
        super().__init__(data)
        self._session = session

    def append(self, x):
        self._session.preempt()
        list.append(self, x)

    def __add__(self, other):
        r = HookedList(list.__add__(self, list(other)), self._session)
        self._session.preempt()
        return r

    def __iadd__(self, other):
        self._session.preempt()
        list.extend(self, other)
        return self


class YieldingVector(list):
    """individual.vector in the benchmark runs: every element read by the objective is a preemption point"""

    def __init__(self, data, session):
        super().__init__(data)
        self._session = session

    def __getitem__(self, i):
        self._session.preempt()
        r = list.__getitem__(self, i)
        return list(r) if isinstance(i, slice) else r

    def __iter__(self):
        for i in range(len(self)):
            self._session.preempt()
            yield list.__getitem__(self, i)

    def copy(self):
        return list(list.__iter__(self))


def plain(v):
    return list(list.__iter__(v)) if isinstance(v, list) else list(v)


IDHOW = ["deepcopy", "copy", "from_dict", "counter", "assigned"]


def build_designs(lab, cfg):
    """The design objects of a case, one NEW object per entry of cfg["vectors"].  Individual.id is not unique per object: with
    cfg["idgroups"] (per design: a group label or None) the designs of one group are different objects, with their own vectors,
    that carry ONE id, made the ways user code makes them (cfg["idhow"], per design): copy.deepcopy / copy.copy of a design whose
    vector is then replaced (the usual way to make a perturbed variant), Individual.from_dict of a record that comes from another
    store, Individual.counter set back before the design is created, the id assigned.  Nothing in the property (and nothing in
    the model: designs are positions of the batch) depends on the id."""
    import copy
    import json
    Ind = lab.Individual
    n = len(cfg["vectors"])
    groups = cfg.get("idgroups") or [None] * n
    how = cfg.get("idhow") or ["deepcopy"] * n
    template, objs = {}, []
    for i, v in enumerate(cfg["vectors"]):
        g = groups[i]
        if g is None or g not in template:
            ind = Ind(list(v))
            if g is not None:
                template[g] = copy.deepcopy(ind)         # pristine: taken before the case's presets are applied
        else:
            tpl = template[g]
            if how[i] == "deepcopy":
                ind = copy.deepcopy(tpl)
                ind.vector = list(v)
            elif how[i] == "copy":                       # shallow clone, every mutable field replaced by one of its own
                ind = copy.copy(tpl)
                ind.vector, ind.costs, ind.costs_signed = list(v), [], []
                ind.features, ind.custom, ind.parents, ind.children = dict(tpl.features), {}, [], []
            elif how[i] == "from_dict":                  # a record of another store whose ids overlap with ours
                d = Ind(list(v)).to_dict()
                d["id"] = tpl.id
                ind = Ind.from_dict(json.loads(json.dumps(d)))
                ind.state = ind.State.EMPTY              # from_dict leaves the state as text
            elif how[i] == "counter":                    # Individual.counter set back (a second optimisation in one process)
                saved = Ind.counter
                Ind.counter = tpl.id
                ind = Ind(list(v))
                Ind.counter = max(saved, Ind.counter)
            else:
                ind = Ind(list(v))
                ind.id = tpl.id
        objs.append(ind)
    return objs


def shared_id_text(cfg):
    """how the designs of a case that share an id were made (for the failing input)"""
    groups, how = cfg.get("idgroups"), cfg.get("idhow")
    if not groups:
        return None
    out, first = {}, {}
    for i, g in enumerate(groups):
        if g is None:
            continue
        if g not in first:
            first[g] = i
            out[str(i)] = "Individual(vector)"
        else:
            out[str(i)] = {"deepcopy": "copy.deepcopy(design %d), vector replaced", "copy": "copy.copy(design %d), vector / costs / features replaced",
                           "from_dict": "Individual.from_dict(record with the id of design %d), state EMPTY",
                           "counter": "Individual(vector) after Individual.counter was set back to the id of design %d",
                           "assigned": "Individual(vector), id := id of design %d"}[how[i]] % first[g]
    return out


UPSERT = "INSERT INTO individuals"
LOCKED = "database is locked"


class FaultCursor:
    """cursor of a connection opened by artap.datastore during a run: the upsert of an individual can be REFUSED
    (sqlite3.OperationalError 'database is locked' raised before anything is written, as SQLite does when another
    connection holds the lock for longer than the busy timeout) according to the session's fault plan; a refusal by
    the real SQLite (real lock contention) is counted and offered to the scheduler as a preemption point"""

    def __init__(self, real, conn):
        self._real, self._conn = real, conn

    def execute(self, sql, *args):
        conn = self._conn
        s = conn._session
        if not sql.startswith(UPSERT):
            if sql.startswith("PRAGMA") and s.plan_next("P"):
                raise conn._sqlite.OperationalError(LOCKED)        # artap's conn() catches sqlite3.Error around its PRAGMAs
            return self._real.execute(sql, *args)
        plan = s.plan_next("EC")
        if plan == "E":
            s.note_refusal(injected=True)
            raise conn._sqlite.OperationalError(LOCKED)
        try:
            r = self._real.execute(sql, *args)
        except conn._sqlite.OperationalError:
            s.note_refusal(injected=False)
            raise
        conn._dirty = True
        conn._fail_commit = conn._fail_commit or plan == "C"
        return r

    def __getattr__(self, name):
        return getattr(self._real, name)


class FaultConn:
    """connection proxy: `commit` of a connection that has written a row is (a) the point where a worker can be held
    while it owns the database lock (between INSERT and COMMIT) and (b) a second place where the write can fail: the
    transaction is rolled back (as SQLite does for SQLITE_FULL / SQLITE_IOERR) and OperationalError is raised"""

    def __init__(self, real, session, sqlite):
        self._real, self._session, self._sqlite = real, session, sqlite
        self._dirty = False
        self._fail_commit = False

    def cursor(self):
        return FaultCursor(self._real.cursor(), self)

    def commit(self):
        if not self._dirty:
            return self._real.commit()
        self._dirty = False
        if self._fail_commit:
            self._fail_commit = False
            self._real.rollback()
            self._session.note_refusal(injected=True)
            raise self._sqlite.OperationalError(LOCKED)
        self._session.hold()
        r = self._real.commit()
        self._session.note_written()
        return r

    def __getattr__(self, name):
        return getattr(self._real, name)


class Sqlite3Proxy:
    """artap.datastore.sqlite3 during a run: opening a connection is an extra preemption point, so that controlled
    schedules also put two threads inside sync_individual at the same time (no lock is held at that moment); the
    connection it returns injects / observes refused writes (FaultConn); with lock contention configured the busy
    timeout is shortened (artap's default: 5 s), which only scales the waiting time"""

    def __init__(self, real, session):
        self._real, self._session = real, session

    def connect(self, *args, **kwargs):
        self._session.preempt()
        busy = self._session.busy
        if busy is not None:
            kwargs.setdefault("timeout", busy)
        return FaultConn(self._real.connect(*args, **kwargs), self._session, self._real)

    def __getattr__(self, name):
        return getattr(self._real, name)


class LockHolder(threading.Thread):
    """REAL lock contention from outside the evaluation: a connection of the harness's own takes the database lock
    (BEGIN EXCLUSIVE) and keeps it until some worker has been refused `r` times in a row (or nobody wants to write),
    then commits - the lock is eventually released -, `rounds` times"""

    def __init__(self, session, sqlite, path, r, rounds):
        super().__init__(daemon=True)
        self.session, self.sqlite, self.path, self.r, self.rounds = session, sqlite, path, r, rounds
        self.stop = False
        self.held = 0
        self.ready = threading.Event()

    def run(self):
        s = self.session
        conn = self.sqlite.connect(self.path, timeout=2.0, isolation_level=None, check_same_thread=False)
        try:
            for _ in range(self.rounds):
                if self.stop:
                    break
                try:
                    conn.execute("BEGIN EXCLUSIVE")
                except self.sqlite.OperationalError:
                    self.ready.set()
                    continue
                self.held += 1
                self.ready.set()
                t0 = time.time()
                while not self.stop and s.streak_max() < self.r and time.time() - t0 < 0.6:
                    time.sleep(0.001)
                conn.execute("COMMIT")
                s.reset_streaks()
                time.sleep(0.004)
        finally:
            self.ready.set()
            conn.close()


class GateStore:
    """problem.data_store: the gate, then the real store (SqliteDataStore) if there is one."""

    def __init__(self, session, real):
        self.session, self.real = session, real

    def sync_individual(self, individual):
        s = self.session
        t = s.task_of.get(id(individual))
        with s.lock:
            att = max(0, s.natt.get(t, 1) - 1)
        s.ctl.gate(t, "sync", att)
        snap = s.snap(individual)
        if self.real is not None:
            self.real.sync_individual(individual)
        with s.lock:
            s.synclog.append((t, snap, getattr(individual, "id", None)))

    def sync_all(self):
        if self.real is not None:
            self.session.in_sync_all = True
            try:
                self.real.sync_all()
            finally:
                self.session.in_sync_all = False

    def destroy(self):
        if self.real is not None:
            self.real.destroy()


class Session:
    """One evaluation of one batch on one Problem.  cfg: dim, crit, ncons, coef, thr, vectors, presets, batch
    (submission order, ids = positions in vectors), fails {(task, att): code}, rerolls {(task, att): vector},
    store 'sqlite' | 'memory'."""

    def __init__(self, lab, cfg, processes, policy, switch=None):
        self.lab, self.cfg, self.processes, self.policy, self.switch = lab, cfg, processes, policy, switch
        self.problem = lab.bench[cfg["bench"]][0] if cfg.get("bench") else lab.problem_for(cfg["dim"], cfg["crit"])
        self.F, self.G = funcs(lab, cfg)
        self.lock = threading.Lock()
        self.calls = []            # (task, att, vector, code)
        self.natt = {}
        self.thread_task = {}
        self.synclog = []
        self.anomalies = []
        self.exc = None
        self.path = None
        self.in_evaluate = False
        # store faults: cfg["store_faults"] = {design or "all": "EECP..."} = what happens to the successive write attempts of
        # that design's row (E: the INSERT is refused, C: the COMMIT fails and is rolled back, P: a PRAGMA of conn() fails)
        self.faults = {k: list(v) for k, v in (cfg.get("store_faults") or {}).items()}
        con = cfg.get("contend") if processes > 1 else None
        self.contend = con
        self.busy = 0.008 if con else None
        self.holds_left = con.get("holds", 2) if con and con["mode"] == "worker" else 0
        self.streak = {}            # design -> refusals in a row by the real SQLite
        self.store_stats = {"injected": 0, "real": 0, "max_streak": 0, "holds": 0, "sync_all_raised": None}
        self.in_sync_all = False

    # ---- the store as SQLite shows it to sync_individual
    def store_key(self):
        if self.in_sync_all:
            return "all"
        key = self.thread_task.get(threading.get_ident())
        return key[0] if key is not None else None

    def plan_next(self, sites):
        """the scripted fate of the write attempt that is being made now (None = goes through)"""
        with self.lock:
            q = self.faults.get(self.store_key())
            if q and q[0] in sites:
                return q.pop(0)
        return None

    def note_refusal(self, injected):
        t = self.store_key()
        with self.lock:
            self.store_stats["injected" if injected else "real"] += 1
            if not injected:
                self.streak[t] = self.streak.get(t, 0) + 1
                self.store_stats["max_streak"] = max(self.store_stats["max_streak"], self.streak[t])
        self.gate_here("refused")        # recorded in the trace (the model erases it); the other workers may run meanwhile

    def note_written(self):
        t = self.store_key()
        with self.lock:
            self.streak.pop(t, None)

    def streak_max(self):
        with self.lock:
            return max(self.streak.values(), default=0)

    def reset_streaks(self):
        with self.lock:
            self.streak.clear()

    def hold(self):
        """between INSERT and COMMIT: this thread owns the database lock; under a controlled schedule it can be kept
        here while the other workers try to write"""
        with self.lock:
            go = self.holds_left > 0 and self.in_evaluate and not self.in_sync_all and not self.ctl.free
            if go:
                self.holds_left -= 1
                self.store_stats["holds"] += 1
        if go:
            self.gate_here("hold")
            self.reset_streaks()

    def gate_here(self, kind):
        ctl = getattr(self, "ctl", None)
        key = self.thread_task.get(threading.get_ident())
        if ctl is not None and key is not None and not ctl.done and self.in_evaluate:
            ctl.gate(key[0], kind, key[1])

    # ---- scripted collaborators
    def objective(self, individual, real=None):
        t = self.task_of.get(id(individual))
        with self.lock:
            if t is None:
                self.anomalies.append("the objective was invoked on an object that is not a design of the batch")
            att = self.natt.get(t, 0)
            self.natt[t] = att + 1
            self.thread_task[threading.get_ident()] = (t, att)
        self.ctl.gate(t, "obj", att)
        try:
            vec = [float(x) for x in plain(individual.vector)]
        except (TypeError, ValueError):
            vec = [math.nan]
        code = self.cfg["fails"].get((t, att), "ok")
        with self.lock:
            self.calls.append((t, att, vec, code))
        self.preempt()                                # the vector has been read ...
        if code in TRANSIENT:
            raise TRANSIENT[code]("scripted transient failure of design %r, attempt %d" % (t, att))
        costs = list(real(individual)) if real is not None else list(getattr(self.F, "live", self.F)(vec))
        self.preempt()                                # ... the value is computed, not yet returned
        return costs

    def constraints(self, x, base):
        return list(self.G([float(v) for v in x])) if self.G is not None else list(base)

    def gen_vector_wrapper(self):
        session = self
        real = self.lab.real_gen_vector.__func__

        def gen_vector(cls, design_parameters):
            key = session.thread_task.get(threading.get_ident())
            v = session.cfg["rerolls"].get(key)
            if v is None:
                with session.lock:
                    session.anomalies.append("gen_vector called outside the scripted retries (thread state %r)" % (key,))
                return real(cls, design_parameters)
            return list(v)
        return classmethod(gen_vector)

    def job_end(self, individual):
        self.thread_task.pop(threading.get_ident(), None)
        self.ctl.job_end(self.task_of.get(id(individual)))

    def preempt(self):
        ctl = getattr(self, "ctl", None)
        key = self.thread_task.get(threading.get_ident())
        if ctl is not None and key is not None and not ctl.done and self.in_evaluate:
            ctl.gate(key[0], "hidden", key[1])

    def snap(self, ind):
        try:
            vec = [float(x) for x in plain(ind.vector)]
        except (TypeError, ValueError):
            vec = [math.nan] * 9
        st = ind.state.name if hasattr(ind.state, "name") else str(ind.state)
        return (vec, list(ind.costs), list(ind.costs_signed), st, bool(ind.features.get("feasible")), ind.features.get("precision", 7))

    # ---- the run
    def run(self):
        lab, cfg, p = self.lab, self.cfg, self.problem
        self.objs = []
        made = build_designs(lab, cfg)
        for v, pre in zip(cfg["vectors"], cfg["presets"]):
            ind = made[len(self.objs)]
            if pre:
                ind.state = getattr(ind.State, pre["state"])
                ind.costs = list(pre.get("costs", []))
                ind.costs_signed = list(pre.get("signed", []))
                if "feasible" in pre:
                    ind.features["feasible"] = pre["feasible"]
            if cfg.get("precs"):
                ind.features["precision"] = cfg["precs"][len(self.objs)]
            if cfg.get("bench") and self.policy is not None:
                ind.vector = YieldingVector(ind.vector, self)
            self.objs.append(ind)
        self.task_of = {id(o): i for i, o in enumerate(self.objs)}
        self.before = [self.snap(o) for o in self.objs]
        batch = [self.objs[i] for i in cfg["batch"]]
        active = [i for i in cfg["batch"] if self.before[i][3] == "EMPTY"]
        self.ctl = Ctl(self.processes, active, self.policy)
        self.ctl.pos = {t: n for n, t in enumerate(cfg["batch"])}
        p.session = self
        p.individuals = list(self.objs)
        p.failed = HookedList([], self)
        real = None
        if cfg["store"] == "sqlite":
            self.path = lab.db_path()
            real = lab.SqliteDataStore(p, database_name=self.path)
        p.data_store = GateStore(self, real)
        alg, real_job = lab.algorithm_for(p)      # ONE Algorithm / Evaluator / Job per Problem for the whole run, as artap does
        alg.options["max_processes"] = self.processes
        alg.evaluator.job = JobProxy(real_job, self)
        V = lab.VectorAndNumbers
        saved = V.__dict__["gen_vector"]
        V.gen_vector = self.gen_vector_wrapper()
        saved_sqlite = lab.datastore_module.sqlite3
        lab.datastore_module.sqlite3 = Sqlite3Proxy(saved_sqlite, self)
        counter0 = getattr(p.surrogate, "eval_counter", 0)
        self.ctl.session = self
        holder = None
        if self.contend and self.contend["mode"] == "foreign" and real is not None:
            holder = LockHolder(self, saved_sqlite, self.path, self.contend["r"], self.contend.get("rounds", 3))
        sched = threading.Thread(target=self.ctl.loop, daemon=True)
        out = io.StringIO()
        old_switch = sys.getswitchinterval()
        t0 = time.time()
        try:
            if self.switch:
                sys.setswitchinterval(self.switch)
            if not self.ctl.free:
                sched.start()
            if holder is not None:
                holder.start()
                holder.ready.wait(3)
            ambient = (lab.ambient(cfg.get("ambient")) if self.processes > 1 else None) or contextlib.nullcontext()
            with contextlib.redirect_stdout(out), contextlib.redirect_stderr(out):
                try:
                    self.in_evaluate = True
                    with ambient:
                        alg.evaluate(batch)
                except BaseException as e:       # noqa: what the caller of Algorithm.evaluate sees
                    self.exc = e
                self.in_evaluate = False
                if holder is not None:
                    holder.stop = True
                    holder.join(5)
                    self.store_stats["foreign_holds"] = holder.held
                if cfg.get("sync_all") and self.exc is None:
                    # what every algorithm's run() does after its evaluations; unlike sync_individual it has no retry: a
                    # refused write reaches the caller, who (here) tries again, as a user re-running the final save would
                    for _ in range(8):
                        try:
                            p.data_store.sync_all()
                            break
                        except saved_sqlite.OperationalError as e:
                            self.store_stats["sync_all_raised"] = repr(e)
                        except BaseException as e:  # noqa
                            self.exc = e
                            break
        finally:
            self.in_evaluate = False
            if holder is not None:
                holder.stop = True
            sys.setswitchinterval(old_switch)
            self.ctl.all_done()
            if sched.is_alive():
                sched.join(10)
            V.gen_vector = saved
            lab.datastore_module.sqlite3 = saved_sqlite
        self.wall = time.time() - t0
        self.counter_delta = getattr(p.surrogate, "eval_counter", 0) - counter0
        self.after = [self.snap(o) for o in self.objs]
        self.failed = [self.snap(f) for f in p.failed]
        self.rows, self.extra_rows, self.nrows = self.read_rows()
        p.data_store = GateStore(self, None)
        if real is not None:
            real.destroy()
        self.anomalies += self.ctl.anomalies
        return self

    def read_rows(self):
        n = len(self.objs)
        rows = [None] * n
        extra = 0
        if self.cfg["store"] == "sqlite":
            try:
                with contextlib.redirect_stderr(io.StringIO()), contextlib.redirect_stdout(io.StringIO()):
                    view = self.lab.ProblemViewDataStore(database_name=self.path)
            except Exception as e:
                self.anomalies.append("the store cannot be read back after the evaluation: %r" % (e,))
                return rows, 0, 0
            self.lab.tidy(view)
            by_id = {o.id: i for i, o in enumerate(self.objs)}
            total = len(view.individuals)
            for r in view.individuals:
                i = by_id.get(r.id)
                if i is None or rows[i] is not None:
                    extra += 1
                    continue
                feats = r.features if isinstance(r.features, dict) else {}
                rows[i] = ([float(x) for x in r.vector], list(r.costs), list(r.costs_signed), str(r.state).upper(),
                           bool(feats.get("feasible")), feats.get("precision", 7))
            try:
                view.data_store.destroy()
            except Exception:
                pass
        else:
            for t, snap, _ in self.synclog:
                if t is None:
                    extra += 1
                else:
                    rows[t] = snap
            total = sum(1 for r in rows if r is not None) + extra
        return rows, extra, total


# ----------------------------------------------------------------------------- direct oracle
def oracle(par, ser, cfg, label):
    """The property statement on the implementation's own outputs.  Returns [(what, detail)]."""
    out = []
    F = par.F
    inp = {"schedule": label, "objective": cfg.get("bench") or (("numpy:" + cfg["npkind"]) if cfg.get("npkind") else "scripted"), "workers": par.processes, "batch": cfg["batch"], "vectors": cfg["vectors"], "store": cfg["store"],
           "criteria": cfg["crit"], "scripted_failures": {"%d:%d" % k: v for k, v in cfg["fails"].items()},
           "state_at_entry": {str(i): p["state"] for i, p in enumerate(cfg["presets"]) if p},
           "gate_trace": [list(e) for e in par.ctl.trace][:60]}
    if cfg.get("ambient"):
        inp["ambient_joblib_configuration"] = "joblib.parallel_%s(%r) around Algorithm.evaluate" % tuple(cfg["ambient"])
    if cfg.get("idgroups"):
        inp["designs_sharing_one_Individual_id"] = shared_id_text(cfg)
        inp["ids"] = [o.id for o in par.objs]

    def add(what, kind="parallel", **detail):
        if len(out) < 6:
            d = dict(inp)
            d.update(detail)
            out.append((what, d, kind))
    if par.exc is not None:
        add("parallel evaluation raised %r for a batch whose serial evaluation completes" % (par.exc,))
    n = len(cfg["vectors"])
    for i in range(n):
        vec, costs, signed, state, feas = par.after[i][:5]
        pre = cfg["presets"][i]
        mine = [c for c in par.calls if c[0] == i]
        nok = sum(1 for c in mine if c[3] == "ok")
        if i not in cfg["batch"] or pre:
            st0 = pre["state"] if pre else "EMPTY"
            kind = "stale-state-batch" if st0 in ("IN_PROGRESS", "FAILED") else "parallel"
            s = ser.after[i]
            if mine and not [c for c in ser.calls if c[0] == i]:
                add("objective invoked %d time(s) by the parallel evaluation for a design that was %s at entry%s; the serial evaluation "
                    "of the same batch does not touch it" % (len(mine), st0, "" if i in cfg["batch"] else " and is not in the batch"),
                    kind, design=i, parallel=par.after[i], serial=s)
            elif not (same_vec(s[0], vec) and same_vec(s[1], costs) and same_signed(s[2], signed) and s[3] == state):
                add("design %d (%s at entry) differs between parallel and serial evaluation of the same batch" % (i, st0), kind,
                    design=i, parallel=par.after[i], serial=s)
            continue
        if nok != 1:
            add("objective succeeded %d time(s) for design %d (exactly once is required)" % (nok, i), design=i,
                calls=[(c[1], c[2], c[3]) for c in mine])
        if state != "EVALUATED":
            add("design %d is %s after the parallel evaluation" % (i, state), design=i)
            continue
        want = F(vec)
        if not (len(costs) == len(want) and same_vec(costs, want)):
            add("costs of design %d are not the objective's value for its stored vector" % i, design=i, vector=vec, costs=costs,
                objective_value=want)
        row = par.rows[i]
        if row is None:
            add("evaluated design %d is not in the store after the parallel evaluation" % i, design=i)
        elif not (same_vec(row[0], vec) and same_vec(row[1], costs) and same_signed(row[2], signed) and row[3] == "EVALUATED"):
            add("the stored row of design %d does not hold its final data" % i, design=i, row=row, final=par.after[i])
        s = ser.after[i]
        if not (same_vec(s[0], vec) and same_vec(s[1], costs) and same_signed(s[2], signed) and s[3] == state):
            add("design %d differs between parallel and serial evaluation of the same batch" % i, design=i, parallel=par.after[i], serial=s)
    # nothing but a failed OBJECTIVE call puts a design into problem.failed or makes the objective run again (a write the
    # store refuses for a while is retried by the store until it goes through): checked on both evaluations
    for who, s in (("parallel", par), ("serial", ser)):
        trans = sorted(tuple(bits(x) for x in c[2]) for c in s.calls if c[3] in TRANSIENT)
        got = sorted(tuple(bits(x) for x in f[0]) for f in s.failed)
        if trans != got:
            add("problem.failed after the %s evaluation holds %d design(s) but %d objective call(s) failed: it is not the multiset of "
                "the vectors whose objective call failed" % (who, len(got), len(trans)), failed=[f[0] for f in s.failed],
                store_faults=cfg.get("store_faults"), store=s.store_stats)
        for i in cfg["batch"]:
            if cfg["presets"][i]:
                continue
            want = 1 + sum(1 for k in cfg["fails"] if k[0] == i)
            mine = [c for c in s.calls if c[0] == i]
            if len(mine) != want:
                add("objective invoked %d time(s) for design %d by the %s evaluation (%d scripted failure(s) + one success expected)"
                    % (len(mine), i, who, want - 1), design=i, calls=[(c[1], c[2], c[3]) for c in mine],
                    store_faults=cfg.get("store_faults"), store=s.store_stats)
        if who == "serial" and s.exc is not None:
            add("serial evaluation raised %r" % (s.exc,), store_faults=cfg.get("store_faults"))
    if par.extra_rows:
        add("the store holds %d row(s) that belong to no design of the batch (or duplicates)" % par.extra_rows)
    if sorted(map(snap_key, par.failed)) != sorted(map(snap_key, ser.failed)):
        add("problem.failed differs (as a multiset) between parallel and serial evaluation", parallel=par.failed, serial=ser.failed)
    for a in par.anomalies[:2]:
        add(a)
    for i in range(n):
        if (par.rows[i] is None) != (ser.rows[i] is None) and cfg["presets"][i]:
            add("a design that was %s at entry is stored by one evaluation mode only" % cfg["presets"][i]["state"],
                "stale-state-batch" if cfg["presets"][i]["state"] in ("IN_PROGRESS", "FAILED") else "parallel", design=i)
    return out


# ----------------------------------------------------------------------------- encoding for Coq
def world(cfg, F, G):
    """The scripted world as tables: outcomes and replacement vectors per (design, attempt), constraint table."""
    outs, tape, vecs = [], [], []
    for t, v in enumerate(cfg["vectors"]):
        vec = [float(x) for x in v]
        vecs.append(vec)
        for att in range(5):
            code = cfg["fails"].get((t, att), "ok")
            if code in TRANSIENT:
                outs.append(pl(nl(t), nl(att), "Transient"))
                vec = [float(x) for x in cfg["rerolls"][(t, att)]]
                tape.append(pl(nl(t), nl(att), enc_vec(vec)))
                vecs.append(vec)
            else:
                outs.append(pl(nl(t), nl(att), "(Ok %s)" % enc_vec(F(vec))))
                break
    seen, cons = set(), []
    for vec in vecs:
        k = tuple(bits(x) for x in vec)
        if k not in seen:
            seen.add(k)
            cons.append(pl(enc_vec(vec), enc_vec(G(vec) if G else [])))
    return outs, tape, cons


def enc_side(s, ordered_calls):
    rows = ll([("None" if r is None else "(Some %s)" % enc_snap(r)) for r in s.rows])
    calls = ll([pl(nl(c[0] if c[0] is not None else 9999), nl(c[1]), enc_vec(c[2])) for c in s.calls])
    return pl(ll([enc_snap(x) for x in s.after]), ll([enc_snap(x) for x in s.failed]), rows, nl(s.nrows), calls)


def encode(cfg, par, ser):
    outs, tape, cons = world(cfg, par.F, par.G)
    signs = [c == "maximize" for c in cfg["crit"]]
    trace = ll([pl(nl(t if t is not None else 9999), nl(att), {"obj": "GObj", "sync": "GSync"}.get(kind, "GRefused")) for t, att, kind in par.ctl.trace])
    case = "{| q_signs := %s; q_outs := %s; q_cons := %s; q_tape := %s; q_heap := %s; q_batch := %s%%nat; q_trace := %s |}" % (
        ll(signs, bl), ll(outs), ll(cons), ll(tape), ll([enc_snap(x) for x in par.before]), ll([str(i) for i in cfg["batch"]]), trace)
    ser_res = "Done" if ser.exc is None else ("Raised5" if type(ser.exc) is RuntimeError else "(RaisedFatal 98)")
    valid = par.exc is None and not par.anomalies
    expected = pl(bl(valid), enc_side(par, False), ser_res, enc_side(ser, True), "true")
    return case, expected


# ----------------------------------------------------------------------------- generators
def rand_cfg(rng, n, fail_rate=0.0, store=None, pre_rate=0.12, stale_rate=0.0):
    m = rng.choice([1, 1, 2, 2, 3])
    dim = rng.choice([1, 2, 2, 3])
    pool = [[rng.choice(VGRID) for _ in range(dim)] for _ in range(2)]
    vectors = [list(rng.choice(pool)) if rng.random() < 0.35 else [rng.choice(VGRID) for _ in range(dim)] for _ in range(n)]
    presets = []
    for _ in range(n):
        r = rng.random()
        if r < pre_rate:
            costs = [rng.choice([1.0, 2.5, -3.0, 0.1234567891]) for _ in range(m)]
            presets.append({"state": "EVALUATED", "costs": costs, "signed": [c * rng.choice([1, -1]) for c in costs] + [rng.choice([True, False])],
                            "feasible": rng.choice([True, False])})
        elif r < pre_rate + stale_rate:
            # a design left IN_PROGRESS by an interrupted evaluation, or a FAILED copy: neither mode may touch it
            pre = {"state": rng.choice(["IN_PROGRESS", "IN_PROGRESS", "FAILED"])}
            if rng.random() < 0.3:
                pre.update({"costs": [7.0] * m, "signed": [7.0] * m + [True], "feasible": False})
            presets.append(pre)
        else:
            presets.append(None)
    if all(presets):
        presets[rng.randrange(n)] = None
    batch = list(range(n))
    if rng.random() < 0.4:
        rng.shuffle(batch)
    fails, rerolls = {}, {}
    for t in range(n):
        if rng.random() < fail_rate:
            for att in range(rng.choice([1, 1, 1, 2, 3, 4])):
                fails[(t, att)] = rng.choice(list(TRANSIENT))
                rerolls[(t, att)] = list(rng.choice(pool)) if rng.random() < 0.3 else [rng.choice(VGRID) for _ in range(dim)]
    return {"dim": dim, "crit": [rng.choice(["minimize", "maximize", "maximize", None]) for _ in range(m)],
            "ncons": rng.choice([0, 0, 1, 2]),
            "coef": [[rng.choice([0.123456789, -1.0 / 3.0, 2.5, 0.0, 1e-3])] + [rng.choice([1.0, -0.7, 1.0 / 7.0, 3.3]) for _ in range(3)]
                     for _ in range(3)],
            "thr": [rng.choice(VGRID) for _ in range(2)], "vectors": vectors, "presets": presets, "batch": batch,
            "fails": fails, "rerolls": rerolls, "store": store or rng.choice(["sqlite", "sqlite", "memory"]),
            "precs": [rng.choice([7, 7, 7, 7, 3, 0, 10]) for _ in range(n)]}


def bench_cfg(rng, lab, n, fail_rate=0.0, name=None):
    """a batch for one of artap's benchmark problems (real objective code under the gates)"""
    names = sorted(k for k in lab.bench if not k.startswith("_"))
    name = name or rng.choice(names)
    wrapped, _, bounds = lab.bench[name]
    fr = [0.0, 0.25, 0.5, 0.75, 1.0, 0.1, 0.9, 1.0 / 3.0]
    pt = lambda: [b[0] + rng.choice(fr) * (b[1] - b[0]) for b in bounds]
    pool = [pt() for _ in range(2)]
    vectors = [list(rng.choice(pool)) if rng.random() < 0.3 else pt() for _ in range(n)]
    batch = list(range(n))
    if rng.random() < 0.4:
        rng.shuffle(batch)
    fails, rerolls = {}, {}
    for t in range(n):
        if rng.random() < fail_rate:
            for att in range(rng.choice([1, 1, 2])):
                fails[(t, att)] = rng.choice(list(TRANSIENT))
                rerolls[(t, att)] = pt()
    return {"bench": name, "dim": len(bounds), "crit": [c.get("criteria") for c in wrapped.costs], "ncons": 0, "coef": [], "thr": [],
            "vectors": vectors, "presets": [None] * n, "batch": batch, "fails": fails, "rerolls": rerolls,
            "store": rng.choice(["sqlite", "memory"])}


def gate_counts(cfg):
    """number of gate events of each active task (objective attempts + one sync)"""
    out = {}
    for t in cfg["batch"]:
        if cfg["presets"][t]:
            continue
        k = 0
        while (t, k) in cfg["fails"]:
            k += 1
        out[t] = k + 2
    return out


def all_merges(counts):
    """every interleaving of the tasks' gate sequences, as sequences of task ids"""
    tasks = sorted(counts)
    rem = dict(counts)
    seq = []

    def rec():
        if all(v == 0 for v in rem.values()):
            yield tuple(seq)
            return
        for t in tasks:
            if rem[t]:
                rem[t] -= 1
                seq.append(t)
                yield from rec()
                seq.pop()
                rem[t] += 1
    yield from rec()


PLANS = ["E", "EE", "EEE", "EEEE", "EEEEE", "EEEEEE", "C", "CC", "CCC", "CCCC", "CCCCC", "CCCCCC",
         "EC", "CE", "ECEC", "EEECCC", "P", "PE", "PEC", "PPPP", "EPEPEP"]


def store_fault_streams(ctx, lab, rng, acc):
    """(1) injected refusals: the INSERT of chosen designs raises OperationalError('database is locked') k = 1..6 times in a
    row, or the COMMIT fails (rolled back), or a PRAGMA of conn() fails, in every mix; (2) real lock contention between the
    workers: one worker is held between INSERT and COMMIT while the others are refused r = 1..6 times in a row; (3) real
    contention with a connection outside the evaluation; (4) the final sync_all."""
    def base_cfg(n, fail_rate=0.0):
        cfg = rand_cfg(rng, n, fail_rate=fail_rate, store="sqlite", pre_rate=0.0)
        return cfg

    # (1) injected, controlled schedules
    featured = [p for p in PLANS] if ctx.thorough else ["E", "EE", "EEE", "EEEEEE", "C", "CCC", "CCCC", "EC", "PEC", "EEECCC"]
    for rep in range(ctx.pick(1, 6)):
        for plan in featured:
            n = rng.choice([2, 3, 4])
            cfg = base_cfg(n, fail_rate=rng.choice([0.0, 0.0, 0.4]))
            cfg["store_faults"] = {t: rng.choice(PLANS) for t in range(n) if rng.random() < 0.5}
            cfg["store_faults"][rng.randrange(n)] = plan
            pol = rng.choice(NAMED + [pol_random(rng.getrandbits(32))] * 2)
            one(ctx, lab, cfg, rng.choice([2, 3]), pol, pol.__name__.replace("pol_", "") + ":refused", acc)
    # (2) a worker owns the lock between INSERT and COMMIT, the others are refused r times in a row
    for r in (ctx.pick([3, 6, 1, 4], [1, 2, 3, 4, 5, 6, 3, 4, 6, 3])):
        n = rng.choice([2, 3, 4])
        cfg = base_cfg(n, fail_rate=rng.choice([0.0, 0.0, 0.3]))
        cfg["contend"] = {"mode": "worker", "r": r, "holds": 1 if r > 3 else 2}
        if rng.random() < 0.3:
            cfg["store_faults"] = {rng.randrange(n): rng.choice(PLANS)}
        inner = rng.choice([pol_lifo, pol_fifo, pol_round_robin, pol_obj_first, pol_random(rng.getrandbits(32))])
        pol = pol_contend(inner, r)
        one(ctx, lab, cfg, rng.choice([2, 3]) if n > 2 else 2, pol, pol.__name__ + ":locked", acc)
    # (3) a connection outside the evaluation owns the lock until a worker has been refused r times in a row
    for r in ctx.pick([3, 4], [1, 2, 3, 4, 5, 6, 3, 4]):
        cfg = base_cfg(rng.choice([2, 3, 4]))
        cfg["contend"] = {"mode": "foreign", "r": r, "rounds": 2}
        pol = rng.choice([pol_lifo, pol_round_robin, pol_obj_first])
        one(ctx, lab, cfg, 2, pol, pol.__name__[4:] + ":foreign-lock", acc)
    for j in range(ctx.pick(2, 24)):
        cfg = base_cfg(rng.choice([6, 8, 12]), fail_rate=0.2)
        cfg["contend"] = {"mode": "foreign", "r": rng.choice([3, 3, 4, 6]), "rounds": 3}
        one(ctx, lab, cfg, 8, None, "free:foreign-lock", acc, switch=1e-6)
        acc["hist"]["free_running"] += 1
    # (4) sync_all after the batch (what every algorithm's run() ends with), refused or not
    for plan in ctx.pick([None, "E", "C"], [None, "E", "C", "EE", "EC", "P", "CCC"]):
        n = rng.choice([2, 3, 4])
        cfg = base_cfg(n)
        cfg["sync_all"] = True
        cfg["store_faults"] = {t: rng.choice(PLANS) for t in range(n) if rng.random() < 0.3}
        if plan:
            cfg["store_faults"]["all"] = plan
        pol = rng.choice(NAMED)
        one(ctx, lab, cfg, 2, pol, pol.__name__[4:] + ":sync_all", acc)


AMBIENT = [["backend", "threading"], ["backend", "loky"], ["backend", "multiprocessing"],
           ["config", {"backend": "loky"}], ["config", {"backend": "multiprocessing"}], ["config", {"backend": "threading"}],
           ["config", {"prefer": "threads"}], ["config", {"require": "sharedmem"}], ["config", {"backend": "loky", "n_jobs": 3}],
           ["config", {"backend": "multiprocessing", "n_jobs": 1}], ["config", {"n_jobs": 1}]]
# NOT in the list: parallel_config(prefer='processes').  joblib itself rejects the combination with the evaluation's
# require='sharedmem' (ValueError "prefer == 'processes' and require == 'sharedmem' are inconsistent settings") before any
# worker starts: the unchanged Algorithm.evaluate raises, loudly, nothing is evaluated; recorded in the evidence
# (distribution.ambient.prefer_processes), described in notes/C07.md, not part of the property (no schedule ever runs).


def ambient_backend_streams(ctx, lab, rng, acc):
    """red-team round 2: the caller of Algorithm.evaluate has configured joblib for its own purposes (`with
    joblib.parallel_backend('loky')`, `parallel_config(prefer='processes')`, as scikit-learn users do).  The evaluation asks for
    shared memory, so the workers stay threads working on the caller's designs whatever the ambient configuration is: same
    per-design result as serial.  (a) gated sessions, compared with the model like every other schedule; (b) a plain Problem
    without any harness object in it (picklable, so that workers that ARE processes run and the loss shows as such)."""
    import joblib
    h = acc["hist"].setdefault("ambient", {"joblib": joblib.__version__, "gated": 0, "plain": 0, "configurations": [], "unavailable": []})
    usable = []
    for amb in AMBIENT:
        cm = lab.ambient(amb)
        if cm is None:
            h["unavailable"].append(amb)
        else:
            with cm:
                pass
            usable.append(amb)
    h["configurations"] = usable
    h["unavailable"] += getattr(lab, "ambient_unavailable", [])
    # (b) first: its failing inputs are the plain ones
    from artap.problem import Problem

    class Plain(Problem):
        def set(self, **kwargs):
            self.name = "c07 plain"
            self.parameters = [{"name": "x_1", "initial_value": 0.0, "bounds": [-10, 10]}, {"name": "x_2", "initial_value": 0.0, "bounds": [-10, 10]}]
            self.costs = [{"name": "F", "criteria": "minimize"}, {"name": "G", "criteria": "maximize"}]
            self.calls = []

        def evaluate(self, individual):
            self.calls.append((individual.id, os.getpid()))
            x = [float(v) for v in individual.vector]
            return [x[0] * x[0] + x[1] * x[1], x[0] - x[1]]

    def plain_run(vectors, workers, amb):
        with contextlib.redirect_stderr(io.StringIO()):
            p = Plain()
        p.logger.setLevel(lab.logging.CRITICAL)
        path = lab.db_path()
        p.data_store = lab.SqliteDataStore(p, database_name=path)
        batch = [lab.Individual(list(v)) for v in vectors]
        alg = lab.DummyAlgorithm(p)
        alg.options["max_processes"] = workers
        exc = None
        out = io.StringIO()
        with contextlib.redirect_stdout(out), contextlib.redirect_stderr(out):
            try:
                with (lab.ambient(amb) if workers > 1 else None) or contextlib.nullcontext():
                    alg.evaluate(batch)
            except BaseException as e:      # noqa: what the caller sees
                exc = e
        rows = {}
        try:
            with contextlib.redirect_stderr(io.StringIO()), contextlib.redirect_stdout(io.StringIO()):
                view = lab.ProblemViewDataStore(database_name=path)
            lab.tidy(view)
            rows = {r.id: (list(r.costs), list(r.costs_signed), str(r.state).upper()) for r in view.individuals}
            view.data_store.destroy()
        except Exception as e:
            rows = {"unreadable": repr(e)}
        p.data_store.destroy()
        lab.tidy(p)
        return p, batch, rows, exc

    grid = [-2.0, -1.0, 0.5, 0.0, 1.5, 3.0, 4.0, 0.1]
    if hasattr(joblib, "parallel_config"):      # observed, not judged (see the comment at AMBIENT)
        _, b, _, exc = plain_run([[1.0, 2.0], [0.5, 0.0]], 2, ["config", {"prefer": "processes"}])
        h["prefer_processes"] = ("Algorithm.evaluate raises %r" % (exc,)) if exc is not None else "evaluated: " + ",".join(i.state.name for i in b)
    for rep in range(ctx.pick(1, 4)):
        for amb in usable:
            if len(ctx.oracle_failures) >= 30:
                break
            vectors = [[rng.choice(grid), rng.choice(grid)] for _ in range(rng.choice([3, 4, 5]))]
            workers = rng.choice([2, 2, 3])
            _, ser, _, sexc = plain_run(vectors, 1, None)
            p, par, rows, exc = plain_run(vectors, workers, amb)
            inp = {"ambient_joblib_configuration": "joblib.parallel_%s(%r) around Algorithm.evaluate" % tuple(amb), "workers": workers,
                   "vectors": vectors, "objective": "plain Problem: [x^2 + y^2, x - y], criteria minimize / maximize", "store": "sqlite"}

            def add(what, **kw):
                if len(ctx.oracle_failures) < 40:
                    ctx.oracle_failures.append({"what": what, "input": dict(inp, **kw), "match": {"kind": "parallel"}})
            if exc is not None or sexc is not None:
                add("evaluation under an ambient joblib configuration raised %r (serial: %r)" % (exc, sexc))
            me = os.getpid()
            for k, (a, b) in enumerate(zip(ser, par)):
                fa = (list(a.costs), list(a.costs_signed), a.state.name)
                fb = (list(b.costs), list(b.costs_signed), b.state.name)
                if not (same_vec(fa[0], fb[0]) and same_signed(fa[1], fb[1]) and fa[2] == fb[2]):
                    add("design %d differs between parallel and serial evaluation of the same batch" % k, design=k, vector=vectors[k],
                        serial=fa, parallel=fb)
                mine = [pid for i, pid in p.calls if i == b.id]
                if len(mine) != 1 or mine[0] != me:
                    add("objective invoked %d time(s) for the caller's design %d (exactly once is required)" % (len(mine), k), design=k,
                        vector=vectors[k])
                row = rows.get(b.id)
                if fb[2] == "EVALUATED" and (row is None or not (same_vec(row[0], fb[0]) and same_signed(row[1], fb[1]) and row[2] == "EVALUATED")):
                    add("evaluated design %d is not in the store with its final data" % k, design=k, row=row, final=fb)
            h["plain"] += 1
            ctx.count(("ambient-plain", repr(amb), workers, len(vectors), tuple(map(tuple, vectors))), nontrivial=True)

    # (a)
    for rep in range(ctx.pick(1, 5)):
        for amb in usable:
            n = rng.choice([2, 3, 4])
            cfg = rand_cfg(rng, n, fail_rate=rng.choice([0.0, 0.3]), pre_rate=0.0 if rep == 0 else 0.12)
            cfg["ambient"] = amb
            pol = rng.choice([pol_lifo, pol_round_robin, pol_obj_first, pol_random(rng.getrandbits(32)), None])
            name = "free" if pol is None else pol.__name__.replace("pol_", "")
            one(ctx, lab, cfg, 2 if n < 4 else rng.choice([2, 3]), pol, name + ":ambient", acc, switch=1e-6 if pol is None else None)
            h["gated"] += 1

def numpy_objective_streams(ctx, lab, rng, acc):
    """red-team round 3: objectives whose numpy arithmetic overflows / is invalid for SOME designs of the batch (numpy scalars and
    ndarrays; inf, nan, huge values; np.round overflowing inside calc_signed_costs), under gated schedules and free running, with and
    without scripted transient failures: per design the same costs / signed costs / state / objective calls / problem.failed as the
    serial evaluation and as the model, whose objective table is computed by a plain call of the same function outside artap."""
    h = acc["hist"].setdefault("numpy_objectives", {"schedules": 0, "designs": 0, "designs_overflow_or_invalid": 0, "designs_nan": 0,
                                                    "designs_inf": 0, "designs_huge_finite": 0, "by_kind": {}})

    def cfg_for(kind, n, fail_rate):
        for _ in range(30):
            cfg = rand_cfg(rng, n, fail_rate=fail_rate, pre_rate=0.0)
            cfg["npkind"] = kind
            F = make_npF(kind, len(cfg["crit"]))
            vals = [F(v) for v in cfg["vectors"]] + [F(v) for v in cfg["rerolls"].values()]
            bad = [any(not math.isfinite(c) or abs(c) >= 1e300 for c in cs) for cs in vals[:n]]
            if any(bad) and not all(bad):
                break
        return cfg, vals

    kinds = list(NPKINDS)
    plan = [(k, pol) for k in kinds for pol in ("gated",)] + [(k, "free") for k in ctx.pick(kinds[:3], kinds)]
    for rep in range(ctx.pick(1, 6)):
        for kind, mode in plan:
            n = rng.choice([3, 4, 5]) if mode == "gated" else rng.choice([6, 8, 12])
            cfg, vals = cfg_for(kind, n, rng.choice([0.0, 0.0, 0.3]))
            if mode == "gated":
                pol = rng.choice([pol_lifo, pol_round_robin, pol_obj_first, pol_sync_first, pol_random(rng.getrandbits(32))])
                one(ctx, lab, cfg, rng.choice([2, 3]), pol, pol.__name__.replace("pol_", "") + ":numpy", acc)
            else:
                one(ctx, lab, cfg, rng.choice([4, 8]), None, "free:numpy", acc, switch=1e-6)
                acc["hist"]["free_running"] += 1
            h["schedules"] += 1
            h["by_kind"][kind] = h["by_kind"].get(kind, 0) + 1
            for cs in vals[:n]:
                h["designs"] += 1
                h["designs_nan"] += any(c != c for c in cs)
                h["designs_inf"] += any(abs(c) == math.inf for c in cs)
                h["designs_huge_finite"] += any(math.isfinite(c) and abs(c) >= 1e250 for c in cs)
                h["designs_overflow_or_invalid"] += any(not math.isfinite(c) or abs(c) >= 1e300 for c in cs)


def group_ids(rng, cfg, shape=None):
    """give several designs of the case one Individual.id: 'all' = one id for the whole batch, 'two' = two ids, 'some' = one shared
    id among designs with ids of their own, 'pairs' = neighbours in submission order pairwise"""
    n = len(cfg["vectors"])
    shape = shape or rng.choice(["all", "all", "two", "some", "pairs"])
    order = list(cfg["batch"])
    if shape == "all":
        g = {t: 0 for t in order}
    elif shape == "two":
        g = {t: j % 2 for j, t in enumerate(order)}
    elif shape == "pairs":
        g = {t: j // 2 for j, t in enumerate(order)}
    else:
        members = set(rng.sample(order, max(2, (n + 1) // 2)))
        g = {t: 0 for t in members}
    groups = [g.get(t) for t in range(n)]
    sizes = {}
    for x in groups:
        if x is not None:
            sizes[x] = sizes.get(x, 0) + 1
    cfg["idgroups"] = [x if x is not None and sizes[x] > 1 else None for x in groups]
    cfg["idhow"] = [rng.choice(IDHOW) for _ in range(n)]
    return cfg


def shared_id_streams(ctx, lab, rng, acc):
    """red-team round 6: Individual.id is NOT unique per design object (copy.deepcopy / copy.copy of a design keeps it - the usual
    way to make a perturbed variant -, so do Individual.from_dict of a record from another store, a counter that was set back, an
    assigned id).  Batches in which several DIFFERENT designs (own objects, own vectors) carry one id, evaluated while the workers
    overlap: (a) gated sessions (every worker is inside Job.evaluate - at its objective gate - before any is released; memory store,
    whose rows are kept per object), compared with the model, for which a design is a position of the batch, and with the serial
    run, like every other schedule; free-running runs; (b) a plain Problem whose objective SLEEPS (the calls of free-running workers
    overlap without any gate), with and without a real SQLite store.  The SQLite table is keyed by id: designs that share an id share
    a row - in the serial run too -, so in (b) the row of an id is required to hold the final data of ONE evaluated design with that
    id (all that the store can tell), and every id of the batch has a row."""
    h = acc["hist"].setdefault("shared_ids", {"gated": 0, "free": 0, "plain_slow": 0, "designs_sharing_an_id": 0, "by_construction": {},
                                              "by_shape": {}})

    def note(cfg, shape):
        h["by_shape"][shape] = h["by_shape"].get(shape, 0) + 1
        seen = set()
        for i, g in enumerate(cfg["idgroups"]):
            if g is None:
                continue
            h["designs_sharing_an_id"] += 1
            if g in seen:
                h["by_construction"][cfg["idhow"][i]] = h["by_construction"].get(cfg["idhow"][i], 0) + 1
            seen.add(g)

    # (a) gated
    shapes = ["all", "two", "some", "pairs"]
    pols = [pol_fifo, pol_lifo, pol_obj_first, pol_sync_first, pol_round_robin]
    for j in range(ctx.pick(8, 90)):
        n = rng.choice([2, 3, 4, 5, 6])
        shape = shapes[j % len(shapes)]
        cfg = rand_cfg(rng, n, fail_rate=0.0 if j % 3 else 0.4, store="memory", pre_rate=0.0 if j % 4 else 0.15)
        group_ids(rng, cfg, shape)
        if j < len(IDHOW):                               # every construction at least once, on the whole group
            cfg["idhow"] = [IDHOW[j]] * n
        note(cfg, shape)
        pol = pols[j % len(pols)] if j < 2 * len(pols) else pol_random(rng.getrandbits(32))
        one(ctx, lab, cfg, rng.choice([2, 3, 4]) if n > 2 else 2, pol, pol.__name__.replace("pol_", "") + ":shared-id", acc)
        h["gated"] += 1
    for j in range(ctx.pick(2, 20)):
        cfg = rand_cfg(rng, rng.choice([6, 8, 12]), fail_rate=0.2, store="memory", pre_rate=0.0)
        shape = shapes[j % len(shapes)]
        group_ids(rng, cfg, shape)
        note(cfg, shape)
        one(ctx, lab, cfg, 8, None, "free:shared-id", acc, switch=1e-6)
        acc["hist"]["free_running"] += 1
        h["free"] += 1

    # (b) a plain Problem with a slow objective, nothing of the harness inside artap
    from artap.problem import Problem

    class Slow(Problem):
        def set(self, **kwargs):
            self.name = "c07 slow"
            self.parameters = [{"name": "x_1", "initial_value": 0.0, "bounds": [-10, 10]}, {"name": "x_2", "initial_value": 0.0, "bounds": [-10, 10]}]
            self.costs = [{"name": "F", "criteria": "minimize"}, {"name": "G", "criteria": "maximize"}]
            self.calls = []
            self.pause = kwargs.get("pause", 0.02)

        def evaluate(self, individual):
            self.calls.append(id(individual))            # the object, not its id
            x = [float(v) for v in individual.vector]
            time.sleep(self.pause)
            return [x[0] * x[0] + x[1] * x[1], x[0] - x[1]]

    def slow_run(cfg, workers, store, pause):
        with contextlib.redirect_stderr(io.StringIO()):
            p = Slow(pause=pause)
        p.logger.setLevel(lab.logging.CRITICAL)
        path = None
        if store:
            path = lab.db_path()
            p.data_store = lab.SqliteDataStore(p, database_name=path)
        batch = build_designs(lab, cfg)
        alg = lab.DummyAlgorithm(p)
        alg.options["max_processes"] = workers
        exc = None
        out = io.StringIO()
        with contextlib.redirect_stdout(out), contextlib.redirect_stderr(out):
            try:
                alg.evaluate(batch)
            except BaseException as e:      # noqa: what the caller sees
                exc = e
        rows = None
        if store:
            try:
                with contextlib.redirect_stderr(io.StringIO()), contextlib.redirect_stdout(io.StringIO()):
                    view = lab.ProblemViewDataStore(database_name=path)
                lab.tidy(view)
                rows = {r.id: (list(r.vector), list(r.costs), list(r.costs_signed), str(r.state).upper()) for r in view.individuals}
                view.data_store.destroy()
            except Exception as e:
                rows = {"unreadable": repr(e)}
            p.data_store.destroy()
        lab.tidy(p)
        return p, batch, rows, exc

    grid = [-2.0, -1.0, 0.5, 0.0, 1.5, 3.0, 4.0, 0.1, 2.5, -3.0]
    for j in range(ctx.pick(4, 24)):
        if len(ctx.oracle_failures) >= 36:
            break
        n = rng.choice([4, 5, 6])
        vectors = [[rng.choice(grid), rng.choice(grid)] for _ in range(n)]
        if j % 2:
            vectors[-1] = list(vectors[0])              # two designs of one id that also share the vector
        shape = shapes[j % len(shapes)]
        cfg = group_ids(rng, {"vectors": vectors, "batch": list(range(n))}, shape)
        if j < 2:
            cfg["idhow"] = ["deepcopy"] * n
        note(cfg, shape)
        workers = rng.choice([2, 3, 4])
        store = j % 4 < 2
        pause = rng.choice([0.01, 0.02])
        _, ser, _, sexc = slow_run(cfg, 1, store, 0.0)
        p, par, rows, exc = slow_run(cfg, workers, store, pause)
        inp = {"objective": "plain Problem: [x^2 + y^2, x - y] after time.sleep(%g), criteria minimize / maximize" % pause, "workers": workers,
               "vectors": vectors, "store": "sqlite" if store else "none", "designs_sharing_one_Individual_id": shared_id_text(cfg),
               "ids": [b.id for b in par], "schedule": "free running, the objective sleeps so that the workers' calls overlap"}

        def add(what, **kw):
            if len(ctx.oracle_failures) < 40:
                ctx.oracle_failures.append({"what": what, "input": dict(inp, **kw), "match": {"kind": "parallel"}})
        if exc is not None or sexc is not None:
            add("evaluation of a batch of designs sharing an id raised %r (serial: %r)" % (exc, sexc))
        by_id = {}
        for k, (a, b) in enumerate(zip(ser, par)):
            fa = (list(a.costs), list(a.costs_signed), a.state.name)
            fb = (list(b.costs), list(b.costs_signed), b.state.name)
            if not (same_vec(fa[0], fb[0]) and same_signed(fa[1], fb[1]) and fa[2] == fb[2]):
                add("design %d differs between parallel and serial evaluation of the same batch" % k, design=k, vector=vectors[k],
                    serial=fa, parallel=fb)
            ncalls = sum(1 for c in p.calls if c == id(b))
            if ncalls != 1:
                add("objective invoked %d time(s) for design %d (exactly once is required)" % (ncalls, k), design=k, vector=vectors[k])
            if fb[2] == "EVALUATED":
                by_id.setdefault(b.id, []).append((k, [float(x) for x in b.vector], fb))
        if rows is not None:
            for i, members in sorted(by_id.items()):
                row = rows.get(i)
                if row is None or not any(same_vec(row[0], vec) and same_vec(row[1], fb[0]) and same_signed(row[2], fb[1]) and row[3] == "EVALUATED"
                                          for _, vec, fb in members):
                    add("the store holds no row with the final data of an evaluated design for id %r (designs %s)" % (i, [m[0] for m in members]),
                        row=row, designs=[m[0] for m in members])
            if "unreadable" in rows:
                add("the store cannot be read back: %s" % rows["unreadable"])
        h["plain_slow"] += 1
        ctx.count(("shared-id-slow", shape, workers, n, store, tuple(map(tuple, vectors)), tuple(cfg["idhow"])), nontrivial=True)


# ----------------------------------------------------------------------------- main
def one(ctx, lab, cfg, k, policy, label, acc, switch=None):
    if len(ctx.oracle_failures) >= 40 and acc["hist"]["schedules"] >= 12:
        acc["hist"]["skipped_after_40_failures"] = acc["hist"].get("skipped_after_40_failures", 0) + 1
        return None, None                    # the property is already refuted 40 times over: stop exploring
    par = Session(lab, cfg, k, policy, switch).run()
    ser = Session(lab, cfg, 1, None).run()
    case, exp = encode(cfg, par, ser)
    acc["cases"].append(case)
    acc["expected"].append(exp)
    trace = [(t, att, kind) for t, att, kind in par.ctl.trace]
    acc["meta"].append({"schedule": label, "workers": k, "batch": cfg["batch"], "vectors": cfg["vectors"], "store": cfg["store"],
                        "criteria": cfg["crit"], "constraints": cfg["ncons"], "objective": cfg.get("bench") or (("numpy:" + cfg["npkind"]) if cfg.get("npkind") else "scripted"),
                        "scripted_failures": {"%d:%d" % kk: v for kk, v in cfg["fails"].items()},
                        "state_at_entry": {str(i): p["state"] for i, p in enumerate(cfg["presets"]) if p}, "gate_trace": trace[:80],
                        "final_parallel": par.after, "final_serial": ser.after, "rows_parallel": par.rows,
                        "exception": repr(par.exc) if par.exc else None, "anomalies": par.anomalies[:3],
                        "store_faults": {str(k): v for k, v in (cfg.get("store_faults") or {}).items()}, "contention": cfg.get("contend"),
                        "sync_all": bool(cfg.get("sync_all")), "store_refusals": par.store_stats, "ambient": cfg.get("ambient"),
                        "designs_sharing_one_Individual_id": shared_id_text(cfg)})
    for what, detail, kind in oracle(par, ser, cfg, label):
        if len(ctx.oracle_failures) < 40:
            ctx.oracle_failures.append({"what": what, "input": detail, "match": {"kind": kind}})
    h = acc["hist"]
    h["schedules"] += 1
    h["by_policy"][label.split(":")[0]] = h["by_policy"].get(label.split(":")[0], 0) + 1
    h["by_batch_size"][str(len(cfg["batch"]))] = h["by_batch_size"].get(str(len(cfg["batch"])), 0) + 1
    h["by_workers"][str(k)] = h["by_workers"].get(str(k), 0) + 1
    h["by_store"][cfg["store"]] = h["by_store"].get(cfg["store"], 0) + 1
    okey = cfg.get("bench") or (("numpy:" + cfg["npkind"]) if cfg.get("npkind") else "scripted")
    h["by_objective"][okey] = h["by_objective"].get(okey, 0) + 1
    h["scheduler_decisions"] += par.ctl.decisions
    h["with_transient_failures"] += 1 if cfg["fails"] else 0
    h["gate_events"] += len(trace)
    h["objective_calls"] += len(par.calls)
    h["stalls"] += par.ctl.stalls
    h["surrogate_eval_counter_lost_updates"] += max(0, len(par.calls) - par.counter_delta)     # statistics counter, not part of C07
    h["off_target"] += 1 if getattr(par.ctl, "off_target", False) else 0
    st = h["store"]
    st["refusals_injected"] += par.store_stats["injected"] + ser.store_stats["injected"]
    st["refusals_by_sqlite"] += par.store_stats["real"]
    st["longest_refusal_streak"] = max(st["longest_refusal_streak"], par.store_stats["max_streak"])
    st["workers_held_between_insert_and_commit"] += par.store_stats["holds"]
    st["sync_all_refused"] += 1 if par.store_stats["sync_all_raised"] else 0
    if cfg.get("store_faults"):
        st["schedules_with_injected_refusals"] += 1
    if cfg.get("contend"):
        ok = par.store_stats["max_streak"] >= cfg["contend"]["r"]
        st["contention_realised" if ok else "contention_not_realised"] += 1
    h["max_wall_s"] = max(h["max_wall_s"], round(par.wall, 3))
    gates = [e for e in trace if e[2] != "refused"]
    serial_like = all(gates[j][0] == gates[j + 1][0] or gates[j][2] == "sync" for j in range(len(gates) - 1))
    ctx.count((label.split(":")[0], k, len(cfg["batch"]), cfg["store"], tuple((t, kind) for t, _, kind in trace)),
              nontrivial=not serial_like and len(trace) >= 4)
    if not serial_like and len(trace) <= 12:
        ctx.sample({"schedule": label, "workers": k, "batch": cfg["batch"], "store": cfg["store"], "gate_trace": trace,
                    "final": par.after})
    return par, ser


def run(ctx):
    lab = Lab(ctx)
    rng = ctx.rng
    acc = {"cases": [], "expected": [], "meta": [],
           "hist": {"schedules": 0, "by_policy": {}, "by_batch_size": {}, "by_workers": {}, "by_store": {}, "by_objective": {}, "scheduler_decisions": 0, "with_transient_failures": 0,
                    "gate_events": 0, "objective_calls": 0, "stalls": 0, "surrogate_eval_counter_lost_updates": 0, "off_target": 0, "max_wall_s": 0.0, "free_running": 0,
                    "exhaustive_merges": 0,
                    "store": {"refusals_injected": 0, "refusals_by_sqlite": 0, "longest_refusal_streak": 0,
                              "workers_held_between_insert_and_commit": 0, "sync_all_refused": 0, "schedules_with_injected_refusals": 0,
                              "contention_realised": 0, "contention_not_realised": 0}}}
    # ---- corpus: the schedules named in the design, on a fixed batch, both stores
    for store in ("sqlite", "memory"):
        for n, k in ((2, 2), (4, 2), (6, 3), (5, 4)):
            cfg = rand_cfg(rng, n, fail_rate=0.0, store=store, pre_rate=0.0)
            for pol in (pol_lifo, pol_obj_first):
                one(ctx, lab, cfg, k, pol, pol.__name__[4:], acc)
    cfg = rand_cfg(rng, 4, store="sqlite", pre_rate=0.0)
    cfg["fails"] = {(1, 0): "T", (3, 0): "R", (3, 1): "T", (3, 2): "R", (3, 3): "T"}       # four failures in a row, then success
    cfg["rerolls"] = {k: [VGRID[(3 * k[0] + k[1] + j) % len(VGRID)] for j in range(cfg["dim"])] for k in cfg["fails"]}
    for pol in (pol_lifo, pol_obj_first, pol_round_robin):
        one(ctx, lab, cfg, 3, pol, pol.__name__[4:] + ":4fail", acc)
    # ---- boundary stream (finding F8): designs left IN_PROGRESS / FAILED copies in the batch: neither mode touches them
    cfg = rand_cfg(rng, 3, store="sqlite", pre_rate=0.0)
    cfg["presets"] = [None, {"state": "IN_PROGRESS"}, {"state": "FAILED"}]
    cfg["batch"] = [0, 1, 2]
    one(ctx, lab, cfg, 2, pol_lifo, "lifo:stale", acc)
    for j in range(ctx.pick(3, 40)):
        cfg = rand_cfg(rng, rng.choice([3, 4, 5]), fail_rate=0.2, pre_rate=0.15, stale_rate=0.35)
        pol = rng.choice(NAMED)
        one(ctx, lab, cfg, rng.choice([2, 3]), pol, pol.__name__[4:] + ":stale", acc)
    # ---- the store refuses writes (red-team lesson): sync_individual must absorb it - retry until the row is written -
    # without the evaluation noticing: exactly one objective call per design, nothing in problem.failed, rows = final data
    store_fault_streams(ctx, lab, rng, acc)
    # ---- the caller's own joblib configuration around the evaluation (red-team round 2)
    ambient_backend_streams(ctx, lab, rng, acc)
    # ---- numpy objectives that overflow / are invalid for some designs (red-team round 3)
    numpy_objective_streams(ctx, lab, rng, acc)
    # ---- several different designs of a batch carry ONE Individual.id (clones, from_dict, counter set back) (red-team round 6)
    shared_id_streams(ctx, lab, rng, acc)
    # ---- generated controlled schedules
    n_sched = ctx.pick(24, 400)
    for j in range(n_sched):
        n = rng.choice([2, 3, 4, 5, 6])
        k = rng.choice([2, 3, 4])
        cfg = rand_cfg(rng, n, fail_rate=0.0 if j % 3 else 0.45, stale_rate=0.0 if j % 5 else 0.15)
        pol = rng.choice(NAMED + [pol_random(rng.getrandbits(32))] * 4)
        one(ctx, lab, cfg, k, pol, pol.__name__.replace("pol_", ""), acc)
    # ---- artap's own benchmark problems as the objective: thread switches in the middle of the real evaluate()
    acc["hist"]["benchmarks"] = sorted(k for k in lab.bench if not k.startswith("_"))
    if acc["hist"]["benchmarks"]:
        for name in acc["hist"]["benchmarks"]:          # every benchmark once in lock-step (switch at every preemption point)
            n = rng.choice([2, 3])
            one(ctx, lab, bench_cfg(rng, lab, n, name=name), n, pol_round_robin, "round_robin:bench", acc)
        for j in range(ctx.pick(4, 160)):
            cfg = bench_cfg(rng, lab, rng.choice([2, 3, 4, 5]), fail_rate=0.0 if j % 3 else 0.3)
            pol = rng.choice([pol_round_robin, pol_round_robin, pol_round_robin, pol_lifo, pol_random(rng.getrandbits(32)), pol_random(rng.getrandbits(32))])
            one(ctx, lab, cfg, rng.choice([2, 3, 4]), pol, pol.__name__.replace("pol_", "") + ":bench", acc)
        for j in range(ctx.pick(2, 30)):
            cfg = bench_cfg(rng, lab, rng.choice([8, 12, 16]), fail_rate=0.2)
            one(ctx, lab, cfg, 8, None, "free:bench", acc, switch=1e-6)
            acc["hist"]["free_running"] += 1
    # ---- thorough: every merge at gate granularity for batches <= 4 (workers = batch size)
    if ctx.thorough:
        for n in (2, 3, 4):
            cfg = rand_cfg(rng, n, fail_rate=0.0, store="sqlite", pre_rate=0.0)
            cfg["batch"] = list(range(n))
            for seq in all_merges(gate_counts(cfg)):
                par, _ = one(ctx, lab, cfg, n, pol_target(seq), "exhaustive:%d" % n, acc)
                acc["hist"]["exhaustive_merges"] += 1
                if par is not None and tuple(t for t, _, _ in par.ctl.trace) != tuple(seq):
                    acc["hist"]["exhaustive_not_realised"] = acc["hist"].get("exhaustive_not_realised", 0) + 1
        # all merges of 3 designs, one of which fails once (3 + 2 + 2 gate events), real SQLite file
        cfg = rand_cfg(rng, 3, fail_rate=0.0, store="sqlite", pre_rate=0.0)
        cfg["batch"] = [0, 1, 2]
        cfg["fails"] = {(1, 0): "T"}
        cfg["rerolls"] = {(1, 0): [VGRID[(5 + j) % len(VGRID)] for j in range(cfg["dim"])]}
        for seq in all_merges(gate_counts(cfg)):
            par, _ = one(ctx, lab, cfg, 3, pol_target(seq), "exhaustive:3f", acc)
            acc["hist"]["exhaustive_merges"] += 1
            if par is not None and tuple(t for t, _, _ in par.ctl.trace) != tuple(seq):
                acc["hist"]["exhaustive_not_realised"] = acc["hist"].get("exhaustive_not_realised", 0) + 1
    # ---- free-running stress: 8 workers, tiny switch interval, no gates
    for j in range(ctx.pick(8, 200)):
        n = rng.choice([6, 8, 12, 16, 24])
        cfg = rand_cfg(rng, n, fail_rate=0.25, store="sqlite" if j % 4 else "memory")
        one(ctx, lab, cfg, 8, None, "free", acc, switch=1e-6)
        acc["hist"]["free_running"] += 1
    ctx.coq_compare("c07", HEADER, "par_case", "par_obs", "par_run", "par_obs_eqb", acc["cases"], acc["expected"], acc["meta"],
                    shard=ctx.pick(12, 120))
    ctx.rule = ("one case = one batch (2..6 designs, 6..24 in free-running runs; vectors from a 15-value grid with duplicates; 1..3 objectives, "
                "0..2 constraints, or one of 8 artap benchmark problems as the objective; some designs already evaluated or left IN_PROGRESS / "
                "FAILED; features['precision'] varied; scripted transient failures per (design, attempt)) evaluated by the real "
                "Algorithm.evaluate with max_processes 2..4 (8 free-running, 4 or 8 in free-running numpy runs) under one schedule of the worker threads, plus the real serial "
                "evaluation of the same batch; non-trivial = the observed gate trace is not the serial order (some job passes a gate while "
                "another job is between its objective call and its sync); distinct = distinct (policy, workers, batch size, store, "
                "sequence of (design, gate) events); store-fault stream: the write of chosen rows is refused 1..6 times in a row at the "
                "INSERT / at the COMMIT / in conn()'s PRAGMAs (injected), or by real lock contention (worker held between INSERT and COMMIT "
                "until another worker has been refused r = 1..6 times; foreign connection holding BEGIN EXCLUSIVE), plus sync_all after "
                "the batch; ambient stream: the same evaluation inside joblib.parallel_backend / parallel_config contexts (threading, loky, "
                "multiprocessing, prefer / require / n_jobs): gated sessions and a plain picklable Problem, per-design result = serial, "
                "objective called once per design in the caller's process; numpy stream: seven objectives written with numpy that overflow / are "
                "invalid (inf, nan, huge values, np.round overflow in calc_signed_costs) for some designs of the batch, gated and free-running, "
                "objective table of the model = a plain call of the same function; shared-id stream: several different designs of the batch "
                "(own objects, own vectors) carry one Individual.id (copy.deepcopy / copy.copy with the vector replaced, Individual.from_dict, "
                "Individual.counter set back, id assigned; one id for the whole batch, two ids, pairs, some), gated (every worker inside "
                "Job.evaluate before any is released; memory store) and free-running, and with a plain Problem whose objective sleeps so that "
                "free-running workers overlap (with and without SQLite; the table is keyed by id, so per id: a row with the final data of one "
                "evaluated design of that id)")
    ctx.extra.update({"schedules": acc["hist"]["schedules"], "distribution": acc["hist"]})


LEVEL_TEXT = ("Machine-checked Coq theorems over a small-step model of parallel evaluation (Model/Parallel.v: each design is a task whose "
              "steps are those of Job.evaluate - start, objective call, write costs/signed costs/EVALUATED, sync to the store, and on a "
              "transient failure: failed copy, re-roll - acting on the shared Problem state): steps of different designs commute on the "
              "observable abstraction; for EVERY interleaving (merge) of the tasks' step lists, every batch size and therefore every worker "
              "count, final designs, problem.failed (multiset), per-design store rows and per-design objective calls equal those of the "
              "serial order; the serial order of the small steps IS Model/Job.v's evaluate_serial (bridge, composes with C05/C06), hence "
              "exactly one successful objective call per design, costs = objective value of the stored vector, every evaluated design "
              "persisted with its final data. PARTIAL: the granularity is objective call / store sync as the property states. The model is "
              "tied to the code on every run by driving the real joblib worker threads through generated schedules (gates in the "
              "objective and in sync_individual, further preemption points at shared-Problem attribute writes, problem.failed updates, "
              "SQLite connects and - with artap's own benchmark problems as objective - at every element read inside the real "
              "evaluate(); real SQLite file read back through ProblemViewDataStore) and comparing trace, final state and rows with the "
              "model evaluated in Coq, and with a real serial evaluation of the same batch. Store writes refused by SQLite are modelled "
              "as effect-free XRefused steps (retry until success; theorems C07_refused_store_writes_*: any number of refusals anywhere, "
              "same observation as serial, one successful objective call per design, nothing added to problem.failed, every row "
              "final) and exercised by fault injection at sqlite3.connect and by real lock contention; observed refusals are part of "
              "the trace the Coq driver replays.")
LEVEL_NOTE = ("proof, partial. Not modelled but exercised (controlled schedules, all merges for batches <= 4 and 296 free-running runs - 200 plain, 30 "
              "benchmark and 24 foreign-lock runs with 8 workers, 42 numpy-objective runs with 4 or 8 workers - with sys.setswitchinterval(1e-6) in the thorough tier): CPython byte-code interleavings inside a step, GIL atomicity "
              "of list.append / attribute stores, joblib dispatch, SQLite's locking protocol. The OperationalError retry of "
              "sync_individual is modelled (effect-free refused attempts) under the assumption that the lock is eventually released, "
              "and driven by injected refusals (1..6 in a row, at INSERT / COMMIT / PRAGMA) and real contention (busy timeout "
              "shortened to 8 ms). Hypotheses: the "
              "objective outcome and the replacement vector depend on (design, attempt, vector), not on the global call order (local_env); "
              "batch of pairwise distinct designs; every job completes (raising jobs: C06). Trusted: Coq kernel + "
              "vm_compute, the hand-written model, the Python harness (thread gates, job-end notification proxy around evaluator.job).")
