"""C04 - the archive holds exactly the non-dominated set of everything ever offered.

Correspondence: histories of `Archive.add` (real `Individual`s, `costs_signed` set directly or produced by
`Individual.calc_signed_costs`), interleaved with a few `Archive.remove` and followed by `Archive.truncate`,
are run on the implementation with `ParetoDominance` and `EpsilonDominance`; after every operation the
contents (ids renumbered per case, order included; read through iteration, len() and indexing) and the
return value are compared with Run/C04Run.v (binary64 instance of Model/Archive.v, evaluated by vm_compute).
The individuals of a history carry design vectors; in about a third of the histories several of them share
one (exactly equal, equal within the 1e-10 of Individual.__eq__, just outside it; the same object offered
twice; Individual.copy() of an earlier one) while their costs differ or coincide in every combination: the
archive must go by object identity and costs, never by Individual.__eq__ / __hash__ (a noisy problem evaluated
twice at one design point gives two members that are `==` and mutually non-dominated).  The model's add works
on identities + costs only; its remove uses the vector equality of C20 (Model/IndividualEq.v), as list.remove does.
Solutions are offered through every public entry point: add(x), append(x), extend(list / tuple / generator / iterator),
`archive += iterable`, `archive += x` (red-team round 4); a batch is modelled as the fold of archive_add over its
elements (OpBatch in Run/C04Run.v).
Direct oracle (independent of the model, brute force from the textbook definition): after every prefix of
additions the archive is the set of maximal offered vectors, one representative each; return value = inserted;
permuted histories give the same cost set; truncate keeps the members with the largest feature.
"""
import glob
import json
import math
import os

from harness.core import fl, zl, nl, bl, ll, pl, optl, FLOAT_AXIOMS, VERIF

PROP = "C04"
THEOREMS = {"Artap.Props.C04": [
    "C04_add_refines", "C04_add_reports", "C04_history_is_maximal_set", "C04_members_mutually_nondominated",
    "C04_rejected_or_evicted_is_covered", "C04_order_independent", "C04_remove_keeps_invariant",
    "C04_pareto_laws", "C04_eps_laws", "C04_float_history", "C04_float_eps_history",
    "C04_truncate_keeps_largest", "C04_truncate_float"]}
AXIOMS_OK = FLOAT_AXIOMS
# second tie to the code (tools/py2coq.py + coq/theories/GenProofs): the comparators the archive calls are translated
# from the source on every run and proved equal to Model/Dominance.v
from harness.core import translated_specs
TRANSLATED = translated_specs("DominanceGen", "EpsDominanceGen", "ArchiveGen")
TRUSTED = [
    "Coq 8.16.1 kernel, vm_compute for model evaluation (no native_compute)",
    "FloatAxioms.ltb_spec / eqb_spec and the primitive float operations (standard library) for the float order instance",
    "hand-written model Model/Archive.v (+ comparators of Model/Dominance.v, tied to operators.py by C01) tied to archive.py by this correspondence run",
    "math.pow results of the epsilon tie-break are an oracle: one (argument, result) tape per individual, arguments checked bit for bit by the model, "
    "every pow call observed in the implementation run is checked to be an entry of those tapes",
    "Python's sorted() is a stable sort by `<` on the feature values (modelled by Base/StableSort.v: for a total preorder the stable result is unique)",
    "feasibility markers modelled as integers (bool/int as produced by artap)",
    "Individual.__eq__ (used only by Archive.remove -> list.remove) is modelled by C20's vector equality Model/IndividualEq.v item_eq "
    "(same object, or every coordinate within 1e-10), computed in Coq from the design vectors of the case; all vectors of a case have the same length",
]
ASSUMPTIONS = [
    "cost and feature values are non-NaN binary64 floats; all offered vectors have the same number of objectives",
    "epsilon comparator: theorems hold under C01's separation hypothesis over the offered vectors (coordinates that differ stay strictly ordered "
    "after division by epsilon), markers of equal magnitude equal, and a tie-break oracle that does not prefer one of two equal vectors; "
    "the direct oracle is applied only to histories meeting it (the others are counted and still compared with the model)",
    "truncate(size, ...) with size >= 0",
]

HEADER = ("From Artap Require Import Run.C04Run.\nFrom Coq Require Import List ZArith Floats.\nImport ListNotations.\n"
          "Open Scope float_scope.\n")
GETTER = "crowding_distance"

SMALL = [0.0, 1.0, 2.0, 3.0]
HALF = [0.0, 0.5, 1.0, 1.5, 2.0, 2.5, 3.0]
SIGNED = [-3.0, -2.0, -1.0, -0.0, 0.0, 1.0, 2.0]
TENTHS = [0.1, 0.2, 0.30000000000000004, 0.3, 0.4, 0.5, 0.7]
ADJ = [1.0, math.nextafter(1.0, 2.0), math.nextafter(1.0, 0.0), 2.0, math.nextafter(2.0, 3.0), 1e-9, 1e9, 7.25,
       0.1, math.nextafter(0.1, 1.0), 0.30000000000000004, 0.3]
WIDE = [float(k) for k in range(10)]
GRIDS = [("small", SMALL, 35), ("half", HALF, 15), ("wide", WIDE, 20), ("signed", SIGNED, 10), ("tenths", TENTHS, 8), ("adjacent", ADJ, 12)]
FGRID = [0.0, -0.0, 0.5, 1.0, 1.0, 2.0, 2.0, math.inf, 1e-9, 3.5, -1.0]
# design vectors: base coordinates and offsets around the 1e-10 tolerance of Individual.__eq__
VGRID = [0.0, 0.5, 1.0, -1.0, 0.1, 1e-10, 3.0, 0.30000000000000004]
VDELTA = [0.0, 0.0, 1e-11, -1e-11, 5e-11, 9.9e-11, 1e-10, 1.1e-10, 2e-10, 1e-9]
EPS_CHOICES = [[0.1, 0.1], [0.1, 0.1], [0.1], [0.5], [1.0], [2.0, 0.25], [3], [0.05, 10.0, 1.0], [1e-3], [0.25, 0.5, 1.0, 2.0], [1e6]]


class PowTape:
    """Stands in for the `math` module inside artap.operators and records pow calls."""

    def __init__(self):
        self.tape = []

    def __getattr__(self, name):
        return getattr(math, name)

    def pow(self, x, y):
        r = math.pow(x, y)
        self.tape.append((float(x), float(y), float(r)))
        return r


# --------------------------------------------------------------------------
# implementation driver
# --------------------------------------------------------------------------
def _artap():
    from artap.archive import Archive
    from artap.individual import Individual
    import artap.operators as ops
    return Archive, Individual, ops


def spec_vectors(spec):
    """design vectors of the individuals; histories without "vec" (old corpus / replays) get pairwise distinct ones"""
    v = spec.get("vec")
    if v is None:
        return [[float(i)] for i in range(len(spec["inds"]))]
    return [[float(x) for x in w] for w in v]


def make_individuals(art, spec):
    Archive, Individual, ops = art
    objs = []
    vecs = spec_vectors(spec)
    for i, d in enumerate(spec["inds"]):
        if d.get("copy_of") is not None:
            ind = objs[d["copy_of"]].copy()     # Individual.copy(): a new object with the same vector and nothing else
        else:
            ind = Individual(list(vecs[i]))
        if spec.get("flavour") == "evaluated":
            ind.costs = list(d["costs"])
            ind.features["feasible"] = d["feasible"]
            ind.calc_signed_costs(spec["signs"])
        else:
            ind.costs_signed = list(d["costs"]) + [d["marker"]]
        ind.features[GETTER] = spec["feat"][i]
        objs.append(ind)
    return objs


def resolved(objs):
    """costs_signed as the archive sees them: (objective floats, marker)"""
    out = []
    for o in objs:
        cs = o.costs_signed
        out.append(([float(x) for x in cs[:-1]], cs[-1]))
    return out


def resolved_vecs(objs):
    """design vectors as the objects carry them (what Individual.__eq__ reads)"""
    return [[float(x) for x in o.vector] for o in objs]


def vec_eq(v, w):
    """Individual.__eq__ on two vectors of the same length (statistics only; the model computes its own)"""
    return all(abs(a - b) < 1e-10 for a, b in zip(v, w))


def marker_int(mk):
    return int(mk)


def run_impl(art, spec, objs=None, ops_list=None):
    """Runs the history on a fresh Archive.  Returns (steps, pow_calls, problems):
    steps[k] = (ids after op k, code) with code 1/0 for True/False, 2 for None, 3 for anything else."""
    Archive, Individual, ops = art
    if objs is None:
        objs = make_individuals(art, spec)
    eps = spec.get("eps")
    if eps is None:
        dom = ops.ParetoDominance()
    else:
        dom = ops.EpsilonDominance(eps[0] if spec.get("eps_scalar") else list(eps))
    ar = Archive() if spec.get("default_archive") else Archive(dominance=dom)
    index = {id(o): i for i, o in enumerate(objs)}
    shim = PowTape()
    real_math = ops.math
    steps, problems = [], []
    ops.math = shim
    try:
        for op in (spec["ops"] if ops_list is None else ops_list):
            if op[0] == "add":
                r = ar.add(objs[op[1]])
                code = 1 if r is True else 0 if r is False else 3
            elif op[0] == "truncate":
                r = ar.truncate(op[1], GETTER) if (op[2] and spec.get("default_larger")) else ar.truncate(op[1], GETTER, op[2])
                code = 2 if r is None else 3
            elif op[0] == "remove":
                r = ar.remove(objs[op[1]])
                code = 1 if r is True else 0 if r is False else 3
            elif op[0] == "batch":
                ar, code = offer_batch(ar, [objs[i] for i in op[1]], op[2])
            else:
                raise ValueError(op)
            content = list(iter(ar))
            ids = [index.get(id(o), 10 ** 6) for o in content]
            if len(ar) != len(content) or ar.size() != len(content) or any(ar[k] is not content[k] for k in range(len(content))):
                problems.append("iteration, len() and indexing disagree after op %r" % (op,))
            steps.append((ids, code))
    finally:
        ops.math = real_math
    return steps, list(shim.tape), problems


# every public way of offering solutions besides add(): append, extend, += (Archive() takes no contents)
BATCH_VIAS = ["extend_list", "extend_list", "extend_tuple", "extend_generator", "extend_iter", "iadd_list", "iadd_generator", "iadd_tuple"]
SINGLE_VIAS = ["append", "append", "iadd_single", "extend_list", "iadd_list"]


def offer_batch(ar, batch, via):
    """offers the individuals of `batch` through the named entry point; returns (the archive variable afterwards, code):
    append / extend: code 2 whatever they return (their return value is not part of the property); `+=`: 4 when the
    statement leaves the variable bound to the same archive object, 3 otherwise (the new binding is then followed)"""
    if via == "append":
        assert len(batch) == 1
        ar.append(batch[0])
        return ar, 2
    if via.startswith("extend"):
        arg = {"extend_list": list, "extend_tuple": tuple, "extend_generator": lambda b: (x for x in b), "extend_iter": lambda b: iter(list(b))}[via](batch)
        ar.extend(arg)
        return ar, 2
    before = ar
    if via == "iadd_single":
        assert len(batch) == 1
        ar += batch[0]
    else:
        ar += {"iadd_list": list, "iadd_tuple": tuple, "iadd_generator": lambda b: (x for x in b)}[via](batch)
    if ar is before:
        return ar, 4
    return (ar if hasattr(ar, "add") and hasattr(ar, "__iter__") and hasattr(ar, "truncate") else before), 3


def offered_of(op):
    """individual indices an operation offers, in order"""
    return [op[1]] if op[0] == "add" else list(op[1]) if op[0] == "batch" else []


def op_key(op):
    return tuple(tuple(x) if isinstance(x, list) else x for x in op)


def regroup(rng, flat, p_batch=0.6):
    """a list of individual indices -> add / batch operations offering them in this order through random entry points"""
    out, k = [], 0
    while k < len(flat):
        if rng.random() < p_batch:
            n = rng.choice([1, 2, 2, 3, 3, 4, 5, 6, 8])
            chunk = flat[k:k + n]
            out.append(["batch", chunk, rng.choice(SINGLE_VIAS if len(chunk) == 1 else BATCH_VIAS)])
            k += len(chunk)
        else:
            out.append(["add", flat[k]])
            k += 1
    return out


def batchify(rng, spec):
    """re-groups every run of consecutive add operations of the history into add / append / extend / += operations"""
    out, run_ = [], []
    for op in spec["ops"] + [None]:
        if op is not None and op[0] == "add":
            run_.append(op[1])
            continue
        out.extend(regroup(rng, run_))
        run_ = []
        if op is not None:
            out.append(op)
    spec["ops"] = out
    spec["entry_points"] = "mixed"


def ind_tapes(spec, res):
    """per-individual pow oracle: pow(p_i - (p_i/eps_i)*eps_i, 2.0), computed as the comparator does"""
    eps = spec.get("eps")
    if eps is None:
        return [[] for _ in res]
    out = []
    for (p, _mk) in res:
        t = []
        for i, c in enumerate(p):
            e = float(eps[i % len(eps)])
            arg = c - (c / e) * e
            t.append((arg, math.pow(arg, 2.0)))
        out.append(t)
    return out


# --------------------------------------------------------------------------
# direct oracle: the property statement, brute force, on the implementation's outputs only
# --------------------------------------------------------------------------
def dominates(p, q):
    """textbook constrained Pareto dominance on costs_signed = objectives + [marker]"""
    pm, qm = p[-1], q[-1]
    if abs(pm) < abs(qm):
        return True
    if abs(qm) < abs(pm):
        return False
    a, b = p[:-1], q[:-1]
    return all(x <= y for x, y in zip(a, b)) and any(x < y for x, y in zip(a, b))


def same(p, q):
    return len(p) == len(q) and all(x == y for x, y in zip(p, q))


def eps_preconditions(spec, res, used):
    """C01's separation hypothesis over the offered vectors + canonical markers"""
    eps = spec["eps"]
    ef = [float(e) if float(e) != 0 else 1e-3 for e in eps]
    vecs = [res[i] for i in used]
    for a in range(len(vecs)):
        for b in range(a + 1, len(vecs)):
            (p, pm), (q, qm) = vecs[a], vecs[b]
            if abs(pm) == abs(qm) and pm != qm:
                return False
            for i in range(min(len(p), len(q))):
                e = ef[i % len(ef)]
                if (p[i] < q[i]) != (p[i] / e < q[i] / e) or (q[i] < p[i]) != (q[i] / e < p[i] / e):
                    return False
    return True


def oracle(spec, res, steps):
    """First violation of the property statement in this history, or None."""
    ops_list = spec["ops"]
    cs = [list(p) + [mk] for (p, mk) in res]
    offered = []            # individual indices offered so far (pure-add prefix only)
    dominated = {}          # individual index -> is dominated by some offered vector
    pure = True             # no truncate / remove yet: the maximal-set statement applies
    prev = []
    for k, op in enumerate(ops_list):
        ids, code = steps[k]
        if op[0] in ("add", "batch"):
            if op[0] == "add":
                i = op[1]
                inserted = ids.count(i) == prev.count(i) + 1 and len(ids) >= 1 and ids[-1] == i
                if (code == 1) != inserted:
                    return {"kind": "return_value", "step": k,
                            "what": "add() returned %s but the solution was %sinserted (contents %r -> %r)" % (
                                {1: "True", 0: "False"}.get(code, "a non-boolean"), "" if inserted else "not ", prev, ids)}
            elif code == 3:
                return {"kind": "iadd_rebinds", "step": k,
                        "what": "`archive += ...` left the variable bound to another object than the archive (contents %r -> %r)" % (prev, ids)}
            if pure:
                # a batch (append / extend / +=) offers every one of its elements: the statement is about everything offered
                for i in offered_of(op):
                    if i not in dominated:
                        dominated[i] = any(dominates(cs[j], cs[i]) for j in offered)
                        for j in offered:
                            if not dominated[j] and dominates(cs[i], cs[j]):
                                dominated[j] = True
                    offered.append(i)
                for j in ids:
                    if j not in dominated:
                        return {"kind": "foreign_member", "step": k, "what": "archive contains a solution that was never offered: %r" % (ids,)}
                    if dominated[j]:
                        d = next(o for o in offered if dominates(cs[o], cs[j]))
                        return {"kind": "dominated_member", "step": k,
                                "what": "after %d additions the archive still holds %r although the offered solution %r dominates it" % (k + 1, cs[j], cs[d])}
                for o in offered:
                    if not dominated[o]:
                        cnt = sum(1 for j in ids if same(cs[o], cs[j]))
                        if cnt == 0:
                            return {"kind": "maximal_missing", "step": k,
                                    "what": "after %d operations (%d solutions offered, the last through %s) the offered solution %r is dominated by no offered solution but the archive %r has no member with these costs" % (
                                        k + 1, len(offered), op[0] if op[0] == "add" else op[2], cs[o], [cs[j] for j in ids])}
                        if cnt > 1:
                            return {"kind": "duplicate_member", "step": k,
                                    "what": "after %d additions the archive holds %d members with the cost vector %r" % (k + 1, cnt, cs[o])}
        elif op[0] == "truncate":
            pure = False
            size, larger = op[1], op[2]
            rest = list(prev)
            ok = True
            for j in ids:
                if j in rest:
                    rest.remove(j)
                else:
                    ok = False
            if not ok or len(ids) != min(size, len(prev)):
                return {"kind": "truncate_size", "step": k,
                        "what": "truncate(%d) of %r left %r (expected %d of the members)" % (size, prev, ids, min(size, len(prev)))}
            if larger:
                f = spec["feat"]
                for a in ids:
                    for b in rest:
                        if f[a] < f[b]:
                            return {"kind": "truncate_largest", "step": k,
                                    "what": "truncate(%d) kept a member with feature %r and dropped one with feature %r" % (size, f[a], f[b])}
        else:
            pure = False
        prev = ids
    return None


def first_raising_prefix(art, spec):
    """length of the shortest prefix of the history on which the implementation raises (0 if none does)"""
    for k in range(1, len(spec["ops"]) + 1):
        try:
            run_impl(art, dict(spec, ops=spec["ops"][:k]))
        except Exception:
            return k
    return 0


def pure_adds(spec):
    """the leading operations that only offer solutions (add and the bulk entry points)"""
    out = []
    for op in spec["ops"]:
        if op[0] not in ("add", "batch"):
            break
        out.append(op)
    return out


def cost_set(res, ids):
    return set(tuple(list(res[j][0]) + [res[j][1]]) for j in ids)


# --------------------------------------------------------------------------
# generators
# --------------------------------------------------------------------------
def pick_grid(rng):
    r = rng.random() * sum(w for _, _, w in GRIDS)
    for name, g, w in GRIDS:
        r -= w
        if r < 0:
            return name, g
    return GRIDS[0][0], GRIDS[0][1]


def overlay_vectors(rng, spec):
    """Design vectors drawn from 1-3 base points, so that several individuals of the history share a vector: exactly,
    within / at / just outside the 1e-10 of Individual.__eq__; some individuals are Individual.copy() of an earlier one.
    The costs were generated without looking at the vectors: equal vectors meet equal, dominated, dominating and
    incomparable costs."""
    inds = spec["inds"]
    d = rng.choice([1, 2, 2, 3])
    bases = [[rng.choice(VGRID) for _ in range(d)] for _ in range(rng.choice([1, 1, 2, 2, 3]))]
    exact_only = rng.random() < 0.4
    vecs = []
    for i in range(len(inds)):
        if i > 0 and rng.random() < 0.15:
            j = rng.randrange(i)
            inds[i]["copy_of"] = j
            vecs.append(list(vecs[j]))
            continue
        v = list(rng.choice(bases))
        if not exact_only:
            for _ in range(rng.choice([0, 1, 1, 2])):
                c = rng.randrange(d)
                v[c] = v[c] + rng.choice(VDELTA)
        vecs.append(v)
    spec["vec"] = vecs
    spec["shared_vectors"] = True


def gen_history(rng, nmax, shared=False):
    m = rng.choice([1, 2, 2, 2, 3, 3, 4])
    comparator = "pareto" if rng.random() < 0.5 else "epsilon"
    gname, grid = pick_grid(rng)
    spec = {"comparator": comparator, "eps": None, "m": m, "grid": gname}
    if comparator == "epsilon":
        spec["eps"] = list(rng.choice(EPS_CHOICES))
        if len(spec["eps"]) == 1 and rng.random() < 0.5:
            spec["eps_scalar"] = True
        if spec["eps"] == [0.1, 0.1] and rng.random() < 0.5:
            spec["default_archive"] = True          # Archive() : the default comparator object
    mstyle = rng.random()
    if mstyle < 0.5:
        markers = [True]
    elif mstyle < 0.88:
        markers = [True, True, False]
    else:
        markers = [True, False, 0, 1, 2, -1]
    evaluated = rng.random() < 0.3 and mstyle < 0.88
    if evaluated:
        spec["flavour"] = "evaluated"
        spec["signs"] = [rng.choice([1, 1, -1]) for _ in range(m)]
    else:
        spec["flavour"] = "direct"

    def new_ind(costs, marker):
        if evaluated:
            return {"costs": list(costs), "feasible": 0.0 if marker else rng.choice([0.5, 2.0])}
        return {"costs": list(costs), "marker": marker}

    inds, ops_list = [], []
    template = rng.random()
    n_adds = 1 + int(nmax * rng.random() ** 1.3)
    if template < 0.15 and m >= 2:
        # anti-chain in the first two objectives, offered in random order, then a sweeper
        k = rng.randint(3, max(3, min(9, nmax - 2)))
        scale = rng.choice([1.0, 0.5, 1.0])
        pts = [[j * scale, (k - 1 - j) * scale] + [rng.choice([0.0, scale])] * (m - 2) for j in range(k)]
        rng.shuffle(pts)
        for p in pts:
            inds.append(new_ind(p, markers[0]))
            ops_list.append(["add", len(inds) - 1])
        a, b = rng.randint(0, k - 1) * scale, rng.randint(0, k - 1) * scale
        sweeper = [a, b] + [0.0] * (m - 2)
        inds.append(new_ind(sweeper, markers[0]))
        ops_list.append(["add", len(inds) - 1])
        inds.append(new_ind(sweeper, markers[0]))            # its duplicate
        ops_list.append(["add", len(inds) - 1])
        n_adds = rng.randint(0, 3)
    for _ in range(n_adds):
        r = rng.random()
        mk = rng.choice(markers)
        if not inds or r < 0.35:
            v = [rng.choice(grid) for _ in range(m)]
        elif r < 0.55:
            v = list(rng.choice(inds)["costs"])
            for _ in range(rng.choice([1, 1, 2])):
                c = rng.randrange(m)
                if v[c] in grid:
                    j = grid.index(v[c]) + rng.choice([-1, 1])
                    v[c] = grid[max(0, min(len(grid) - 1, j))]
                else:
                    v[c] = rng.choice(grid)
        elif r < 0.70:
            src = rng.choice(inds)
            v = list(src["costs"])
            mk = src.get("marker", not src.get("feasible")) if rng.random() < 0.8 else mk
        elif r < 0.75:
            ops_list.append(["add", rng.randrange(len(inds))])      # the same object again
            continue
        elif r < 0.90:
            srcs = [rng.choice(inds)["costs"] for _ in range(rng.choice([2, 2, 3]))]
            v = [min(s[c] for s in srcs) for c in range(m)]
        else:
            srcs = [rng.choice(inds)["costs"] for _ in range(2)]
            v = [max(s[c] for s in srcs) for c in range(m)]
        inds.append(new_ind(v, mk))
        ops_list.append(["add", len(inds) - 1])
    # a few removes inside the history
    if rng.random() < (0.45 if shared else 0.12) and len(ops_list) >= 2:
        for _ in range(rng.choice([1, 2, 3] if shared else [1, 2])):
            ops_list.insert(rng.randint(1, len(ops_list)), ["remove", rng.randrange(len(inds))])
    # truncate, possibly followed by more additions
    if rng.random() < 0.75:
        size = rng.choice([0, 1, 2, 3, 4, len(inds), len(inds) + 1, rng.randint(0, max(1, len(inds)))])
        larger = rng.random() < 0.75
        ops_list.append(["truncate", size, larger])
        if larger and rng.random() < 0.5:
            spec["default_larger"] = True
        if rng.random() < 0.25:
            for _ in range(rng.randint(1, 3)):
                if rng.random() < 0.5 and inds:
                    ops_list.append(["add", rng.randrange(len(inds))])
                else:
                    inds.append(new_ind([rng.choice(grid) for _ in range(m)], rng.choice(markers)))
                    ops_list.append(["add", len(inds) - 1])
            if rng.random() < 0.5:
                ops_list.append(["truncate", rng.randint(0, 4), rng.random() < 0.75])
    spec["inds"] = inds
    spec["feat"] = [rng.choice(FGRID) for _ in inds]
    spec["ops"] = ops_list
    if shared:
        overlay_vectors(rng, spec)
    return spec


# --------------------------------------------------------------------------
# encoding
# --------------------------------------------------------------------------
def enc_op(op):
    if op[0] == "add":
        return "OpAdd %d" % op[1]
    if op[0] == "truncate":
        return "OpTrunc %d %s" % (op[1], bl(op[2]))
    if op[0] == "batch":
        return "OpBatch %s %s" % (ll(op[1], nl), bl(op[2].startswith("iadd")))
    return "OpRemove %d" % op[1]


def enc_case(spec, res, tapes, vecs):
    eps = spec.get("eps")
    return "{| c4_eps := %s; c4_inds := %s; c4_vecs := %s; c4_feat := %s; c4_tapes := %s; c4_ops := %s |}" % (
        optl(eps, lambda e: ll([float(x) for x in e], fl)),
        ll(res, lambda r: pl(ll(r[0], fl), zl(marker_int(r[1])))),
        ll(vecs, lambda v: ll(v, fl)),
        ll(spec["feat"], fl),
        ll(tapes, lambda t: ll(t, lambda ar: pl(fl(ar[0]), fl(ar[1])))),
        ll(spec["ops"], enc_op))


def enc_obs(steps):
    return "(Some %s)" % ll(steps, lambda s: pl(ll(s[0], nl), nl(s[1])))


def jsonable(spec):
    return json.loads(json.dumps(spec, default=lambda o: bool(o) if isinstance(o, bool) else str(o)))


def load_corpus():
    out = []
    for path in sorted(glob.glob(os.path.join(VERIF, "corpus", PROP, "*.json"))):
        data = json.load(open(path))
        for k, spec in enumerate(data if isinstance(data, list) else [data]):
            spec.setdefault("name", "%s#%d" % (os.path.basename(path), k))
            spec["feat"] = [float(x) for x in spec["feat"]]      # "inf" is written as a string in JSON
            out.append(spec)
    return out


# --------------------------------------------------------------------------
def shrink(art, spec, kind):
    """greedy: drop operations while the oracle still reports the same kind of failure"""
    def fails(ops_list):
        s = dict(spec, ops=ops_list)
        try:
            objs = make_individuals(art, s)
            steps, _, _ = run_impl(art, s, objs)
            f = oracle(s, resolved(objs), steps)
        except Exception:
            return False
        return f is not None and f["kind"] == kind
    ops_list = list(spec["ops"])
    changed = True
    while changed and len(ops_list) > 1:
        changed = False
        for k in range(len(ops_list) - 1, -1, -1):
            cand = ops_list[:k] + ops_list[k + 1:]
            if cand and fails(cand):
                ops_list = cand
                changed = True
    return dict(spec, ops=ops_list)


def run(ctx):
    art = _artap()
    rng = ctx.rng
    n_cases = ctx.pick(1500, 9000)
    nmax = ctx.pick(12, 60)
    cases, expected, meta = [], [], []
    st = {"pareto": 0, "epsilon": 0, "adds": 0, "inserted": 0, "rejected": 0, "evict1": 0, "evict2plus": 0,
          "evict_nonadjacent": 0, "evicted_then_rejected": 0, "truncates": 0, "truncate_dropping": 0, "removes": 0,
          "remove_hits": 0, "pow_calls": 0, "eps_oracle_skipped_unseparated": 0, "evaluated_flavour": 0,
          "permutations_checked": 0, "impl_exceptions": 0, "max_archive": 0, "corpus_cases": 0,
          # design vectors shared between the individuals of a history (Individual.__eq__ / __hash__ must play no part in add)
          "shared_vector_histories": 0, "individuals_built_by_copy": 0, "same_object_offered_again": 0,
          "inserted_next_to_eq_member": 0, "inserted_next_to_exactly_equal_vector_member": 0,
          "inserted_next_to_eq_member_other_costs": 0, "rejected_with_eq_member_present": 0,
          "evictions_with_earlier_eq_member_kept": 0, "evictions_with_later_eq_member_kept": 0,
          "eq_but_not_exactly_equal_pairs": 0, "max_members_sharing_a_vector": 0,
          "remove_of_non_member_hits_eq_member": 0, "remove_hits_earlier_eq_member_than_itself": 0,
          "truncate_drops_member_with_eq_member_kept": 0,
          # red-team round 4: every public way of offering solutions (append, extend, += next to add)
          "histories_with_bulk_entry_points": 0, "batches": 0, "batch_elements": 0, "max_batch": 0, "entry_points": {},
          "batches_with_a_dropped_element_before_an_inserted_one": 0, "batches_with_nothing_inserted": 0,
          "batches_starting_with_a_rejected_element": 0, "permutations_regrouped_into_batches": 0}
    len_hist = {}
    shrunk = 0

    def fail(spec, f, extra=None):
        nonlocal shrunk
        s = spec
        if shrunk < 3 and f["kind"] not in ("order_dependent",):
            shrunk += 1
            try:
                s = shrink(art, spec, f["kind"])
                objs = make_individuals(art, s)
                steps, _, _ = run_impl(art, s, objs)
                f2 = oracle(s, resolved(objs), steps)
                if f2 is not None:
                    f = f2
            except Exception:
                s = spec
        inp = jsonable(s)
        if extra:
            inp.update(extra)
        ctx.oracle_failures.append({"what": f["what"], "input": inp,
                                    "match": {"kind": f["kind"], "comparator": spec["comparator"]}})

    def do_case(spec, from_corpus=False):
        try:
            objs = make_individuals(art, spec)
            res = resolved(objs)
            steps, calls, problems = run_impl(art, spec, objs)
        except Exception as e:
            # the histories are well-formed (finite costs, equal lengths, positive epsilons): an operation that raises
            # neither inserts nor rejects the solution
            st["impl_exceptions"] += 1
            k = first_raising_prefix(art, spec)
            s = dict(spec, ops=spec["ops"][:k]) if k else spec
            ctx.oracle_failures.append({"what": "operation %r raised %r instead of inserting or rejecting the solution" % (s["ops"][-1], e),
                                        "input": jsonable(s), "match": {"kind": "exception", "comparator": spec["comparator"]}})
            ctx.mismatches.append({"what": "implementation raised %r" % (e,), "correspondence": "c04", "case": jsonable(spec)})
            return
        tapes = ind_tapes(spec, res)
        vecs = resolved_vecs(objs)
        if vecs != spec_vectors(spec) or len(set(len(v) for v in vecs)) > 1:
            problems.append("design vectors of the objects %r differ from the history's %r or have different lengths" % (vecs, spec_vectors(spec)))
        # every observed pow call must be an entry of the per-individual oracle tapes
        table = set((a.hex(), r.hex()) for t in tapes for (a, r) in t)
        for (x, y, r) in calls:
            if y != 2.0 or (x.hex(), r.hex()) not in table:
                problems.append("pow call (%r, %r) = %r is not an entry of the per-individual oracle tapes" % (x, y, r))
                break
        for pb in problems:
            ctx.mismatches.append({"what": "implementation observation inconsistent: " + pb, "correspondence": "c04", "case": jsonable(spec)})
        mt = jsonable(spec)
        mt["costs_signed"] = [list(p) + [mk] for (p, mk) in res]
        mt["vectors"] = vecs
        mt["observed"] = [[ids, code] for ids, code in steps]
        cases.append(enc_case(spec, res, tapes, vecs))
        expected.append(enc_obs(steps))
        meta.append(mt)
        # statistics
        st[spec["comparator"]] += 1
        st["pow_calls"] += len(calls)
        if spec.get("flavour") == "evaluated":
            st["evaluated_flavour"] += 1
        if from_corpus:
            st["corpus_cases"] += 1
        prev = []
        nontrivial = False
        if spec.get("shared_vectors"):
            st["shared_vector_histories"] += 1
        if any(op[0] == "batch" for op in spec["ops"]):
            st["histories_with_bulk_entry_points"] += 1
        st["individuals_built_by_copy"] += sum(1 for d in spec["inds"] if d.get("copy_of") is not None)
        st["eq_but_not_exactly_equal_pairs"] += sum(1 for a in range(len(vecs)) for b in range(a) if vecs[a] != vecs[b] and vec_eq(vecs[a], vecs[b]))
        css = [list(p) + [mk] for (p, mk) in res]
        seen = set()

        def eq(a, b):           # Individual.__eq__ between two different objects of the case
            return a != b and vec_eq(vecs[a], vecs[b])
        for op, (ids, code) in zip(spec["ops"], steps):
            st["max_archive"] = max(st["max_archive"], len(ids))
            for j in ids:
                st["max_members_sharing_a_vector"] = max(st["max_members_sharing_a_vector"], sum(1 for q in ids if q == j or eq(q, j)))
            if op[0] == "add":
                st["adds"] += 1
                gone = [k for k, j in enumerate(prev) if j not in ids]
                i = op[1]
                if i in seen:
                    st["same_object_offered_again"] += 1
                seen.add(i)
                if code == 1:
                    others = [j for j in ids[:-1] if eq(j, i)]
                    if others:
                        st["inserted_next_to_eq_member"] += 1
                        st["inserted_next_to_exactly_equal_vector_member"] += any(vecs[j] == vecs[i] for j in others)
                        st["inserted_next_to_eq_member_other_costs"] += any(not same(css[j], css[i]) for j in others)
                elif any(eq(j, i) for j in ids):
                    st["rejected_with_eq_member_present"] += 1
                for k in gone:
                    st["evictions_with_earlier_eq_member_kept"] += any(eq(prev[q], prev[k]) and prev[q] in ids for q in range(k))
                    st["evictions_with_later_eq_member_kept"] += any(eq(prev[q], prev[k]) and prev[q] in ids for q in range(k + 1, len(prev)))
                if code == 1:
                    st["inserted"] += 1
                else:
                    st["rejected"] += 1
                    if prev:
                        nontrivial = True
                    if gone:
                        st["evicted_then_rejected"] += 1
                if len(gone) == 1:
                    st["evict1"] += 1
                    nontrivial = True
                elif len(gone) >= 2:
                    st["evict2plus"] += 1
                    nontrivial = True
                    if gone[-1] - gone[0] >= len(gone):
                        st["evict_nonadjacent"] += 1
            elif op[0] == "batch":
                st["batches"] += 1
                st["batch_elements"] += len(op[1])
                st["max_batch"] = max(st["max_batch"], len(op[1]))
                st["entry_points"][op[2]] = st["entry_points"].get(op[2], 0) + 1
                new = [j for j in ids if j not in prev]
                for i in op[1]:
                    if i in seen:
                        st["same_object_offered_again"] += 1
                    seen.add(i)
                if not new:
                    st["batches_with_nothing_inserted"] += 1
                # an element of the batch that is not a member afterwards (rejected, or inserted and evicted by a later
                # one) and is followed in the batch by an element that was inserted and stayed
                kept_pos = [q for q, i in enumerate(op[1]) if i in new]
                drop_pos = [q for q, i in enumerate(op[1]) if i not in ids]
                if kept_pos and drop_pos and min(drop_pos) < max(kept_pos):
                    st["batches_with_a_dropped_element_before_an_inserted_one"] += 1
                    nontrivial = True
                if op[1] and op[1][0] not in ids and len(op[1]) > 1:
                    st["batches_starting_with_a_rejected_element"] += 1
                if [j for j in prev if j not in ids] or (prev and drop_pos):
                    nontrivial = True
            elif op[0] == "truncate":
                st["truncates"] += 1
                if len(ids) < len(prev):
                    st["truncate_dropping"] += 1
                    nontrivial = True
                    st["truncate_drops_member_with_eq_member_kept"] += any(eq(a, b) for a in prev if a not in ids for b in ids)
            else:
                st["removes"] += 1
                st["remove_hits"] += code == 1
                if code == 1 and op[1] not in prev:
                    st["remove_of_non_member_hits_eq_member"] += 1
                if code == 1 and op[1] in ids:
                    st["remove_hits_earlier_eq_member_than_itself"] += 1
            prev = ids
        n_ops = len(spec["ops"])
        len_hist[n_ops] = len_hist.get(n_ops, 0) + 1
        ctx.count((spec["comparator"], tuple(spec.get("eps") or ()), tuple(tuple(p) + (int(mk),) for p, mk in res),
                   tuple(op_key(o) for o in spec["ops"]), tuple(spec["feat"]),
                   tuple(tuple(v) for v in vecs) if spec.get("vec") is not None else None), nontrivial=nontrivial)
        if len(ctx.samples) < 4 and nontrivial and 4 <= n_ops <= 9:
            ctx.sample(mt)
        # direct oracle
        used = sorted(set(i for op in spec["ops"] for i in offered_of(op)))
        if spec["comparator"] == "epsilon" and not eps_preconditions(spec, res, used):
            st["eps_oracle_skipped_unseparated"] += 1
            return
        f = oracle(spec, res, steps)
        if f is not None:
            fail(spec, f)
            return
        adds = pure_adds(spec)
        flat = [i for op in adds for i in offered_of(op)]
        if len(flat) >= 2 and len(set(flat)) >= 2:
            final = cost_set(res, steps[len(adds) - 1][0])
            for rnd in range(2):
                flat2 = list(flat)
                rng.shuffle(flat2)
                # the same solutions in another order, offered one by one or (second round) through any entry points
                perm = [["add", i] for i in flat2] if rnd == 0 and not spec.get("entry_points") else regroup(rng, flat2)
                st["permutations_regrouped_into_batches"] += any(o[0] == "batch" for o in perm)
                try:
                    psteps, _, _ = run_impl(art, spec, objs, ops_list=perm)
                except Exception as e:
                    st["impl_exceptions"] += 1
                    ctx.oracle_failures.append({"what": "an operation of the permuted history raised %r instead of inserting or rejecting the solution" % (e,),
                                                "input": dict(jsonable(spec), ops=perm), "match": {"kind": "exception", "comparator": spec["comparator"]}})
                    break
                st["permutations_checked"] += 1
                got = cost_set(res, psteps[-1][0])
                if got != final:
                    fail(spec, {"kind": "order_dependent",
                                "what": "the same additions in another order leave a different set of cost vectors: %r versus %r" % (
                                    sorted(map(list, final)), sorted(map(list, got)))},
                         extra={"ops": adds, "permuted_ops": perm})
                    break

    for spec in load_corpus():
        do_case(spec, from_corpus=True)
    for _ in range(n_cases):
        spec = gen_history(rng, nmax, shared=rng.random() < 0.35)
        if rng.random() < 0.45:
            batchify(rng, spec)
        do_case(spec)

    ctx.coq_compare("c04", HEADER, "c04_case", "c04_obs", "c04_run", "c04_obs_eqb", cases, expected, meta,
                    shard=ctx.pick(60, 150))
    ctx.rule = ("histories of 1..%d Archive.add calls (random grid vectors, perturbed / duplicated / re-offered earlier solutions, coordinatewise "
                "min / max of earlier solutions, shuffled anti-chains with a sweeping newcomer and its duplicate; feasible / infeasible / integer "
                "markers; costs_signed set directly or via calc_signed_costs), for ParetoDominance and EpsilonDominance (epsilons %r), with "
                "occasional Archive.remove and a final Archive.truncate (sometimes followed by more additions); in 45 %% of the histories the runs "
                "of consecutive additions are re-grouped into add / append / extend (list, tuple, generator, iterator) / += (list, tuple, "
                "generator, single solution) calls with batches of 1..8 solutions, each modelled as a fold of add; in 35 %% of the histories the "
                "design vectors of the individuals come from 1-3 base points (exactly equal, within / at / just outside the 1e-10 of "
                "Individual.__eq__, Individual.copy() of an earlier individual) independently of the costs, with more remove operations, "
                "otherwise the vectors are pairwise distinct; a history is non-trivial when at "
                "least one addition evicted a member or was rejected by a non-empty archive, or a truncate dropped a member; distinct = distinct "
                "(comparator, epsilons, cost vectors, operation list, features, design vectors)") % (nmax, EPS_CHOICES)
    ctx.extra.update({"statistics": st, "history_length_histogram": {str(k): v for k, v in sorted(len_hist.items())},
                      "grids": {n: g for n, g, _ in GRIDS}, "feature_grid": [str(x) for x in FGRID],
                      "design_vector_grid": VGRID, "design_vector_offsets": VDELTA})


def replay(ctx, data):
    """./check C04 --replay f : re-execute the stored failing inputs on the implementation and on the model"""
    art = _artap()
    for item in (data.get("failing_inputs") or []) + [m for m in data.get("correspondence_mismatches", []) if isinstance(m.get("case"), dict)]:
        spec = item.get("input") or item.get("case")
        spec = dict(spec)
        spec["feat"] = [float(x) for x in spec["feat"]]
        objs = make_individuals(art, spec)
        res = resolved(objs)
        steps, calls, problems = run_impl(art, spec, objs)
        print("input:", json.dumps(jsonable(spec)))
        print("implementation:", steps, problems)
        print("oracle:", oracle(spec, res, steps))
        out = ctx.coq_eval("c04_replay", HEADER, ["c04_run (%s)" % enc_case(spec, res, ind_tapes(spec, res), resolved_vecs(objs))])
        print("model:", out[0] if out else "?")
    return 0


LEVEL_TEXT = ("Machine-checked Coq theorems over a line-by-line model of Archive.add (snapshot loop, deletion at index - deleted, both breaks) "
              "for histories of any length over any strictly-weakly-ordered cost type (instantiated at binary64 with the order proved from the IEEE "
              "spec): under the invariant 'members pairwise non-dominated with pairwise distinct cost vectors' one addition equals the set-level "
              "update and reports success exactly when it appended; after any history the archive is exactly the set of maximal offered cost "
              "vectors, one representative each; members mutually non-dominated; every offered solution is covered by a member; order "
              "independence; truncate keeps the largest feature values. Proved once for any comparator satisfying the laws of C01 and "
              "instantiated for the Pareto comparator and (under C01's separation hypothesis over the offered vectors) the epsilon comparator. "
              "The model is tied to archive.py on every run by evaluating it in Coq on generated histories for both comparators and comparing "
              "contents and return values after every operation; a third of the histories offer several individuals with the same design vector "
              "(exactly or within the tolerance of Individual.__eq__, copies, the same object twice) and differing or coinciding costs, so that "
              "any dependence of add / truncate on Individual.__eq__ / __hash__ instead of object identity and costs shows up.")
LEVEL_NOTE = ("Trusted: Coq kernel + vm_compute; FloatAxioms.ltb_spec/eqb_spec; the hand-written model, the Python harness and tools/py2coq.py (translator of the two comparators, Archive.add and Archive.truncate); math.pow results are "
              "an oracle (per-individual tapes); sorted() modelled as a stable sort; Individual.__eq__ (only Archive.remove uses it, outside the property "
              "text) modelled by C20's vector equality. The theorems speak about cost vectors and object identities and hold whatever the design "
              "vectors are. Epsilon comparator: theorems need the separation hypothesis, "
              "canonical markers and a tie-consistent oracle (not proved for the implementation: conditional). append / extend / += are tied by the correspondence only (a fold of add). Correspondence is sampled (generated + corpus histories), the theorems are unbounded.")
