"""C18 - swarm invariants: personal best never regresses, velocity clamped, position put on the
violated bound with the velocity reversed / damped, leaders archive bounded and mutually non-dominated.

Correspondence with Model/Swarm.v (driver Run/C18Run.v) through the public update methods of
OMOPSO / SMPSO / PSOGA, called directly on generated swarms and observed in situ during short runs,
plus the history of `algorithm.leaders`; and the direct oracle (the property clauses evaluated on the
implementation's own outputs)."""
import math

from harness.core import fl, zl, nl, bl, ll, pl, FLOAT_AXIOMS

PROP = "C18"
THEOREMS = {"Artap.Props.C18": [
    "C18_pbest_never_regresses", "C18_pbest_never_regresses_pareto", "C18_pbest_textbook", "C18_pbest_sweep",
    "C18_velocity_clamped", "C18_velocity_clamped_swarm", "C18_velocity_clamped_float",
    "C18_position_on_violated_bound", "C18_velocity_reversed", "C18_velocity_damped", "C18_position_in_box",
    "C18_leaders_bounded", "C18_leaders_mutually_nondominated", "C18_leaders_pareto", "C18_leaders_eps",
    "C18_leaders_eps_float"]}
AXIOMS_OK = FLOAT_AXIOMS
# second tie to the code (tools/py2coq.py + coq/theories/GenProofs): translated on every run and proved equal to the model:
#   SwarmGen   (GenProofs/SwarmEquiv.v): SwarmAlgorithm.speed_constriction (whole function) and, in body mode, the loop body of
#              SwarmAlgorithm.update_particle_best (= Model/Swarm.v pbest_step), of OMOPSO / SMPSO / PSOGA.update_position (= Model/Variation.v
#              position_update, one particle) and of the inner `for i` loop of SwarmAlgorithm / PSOGA.update_velocity (one coordinate:
#              speed_constriction (raw_velocity ...)); the loop headers and the code around the loops are pinned textually only
#   ArchiveGen (GenProofs/ArchiveEquiv.v): Archive.add, Archive.truncate (getter fixed to 'crowding_distance') = Model/Archive.v
#   ClipGen    (GenProofs/ClipEquiv.v): Operator.clip = Model/Variation.v clip; algorithm_swarm.py does not call clip and no C18 theorem uses it
from harness.core import translated_specs
TRANSLATED = translated_specs("ClipGen", "SwarmGen", "ArchiveGen", "SwarmWholeGen")
TRUSTED = [
    "Coq 8.16.1 kernel, vm_compute for model evaluation (no native_compute)",
    "FloatAxioms (ltb_spec, eqb_spec, opp_spec) and the primitive float operations (standard library) for the binary64 instance",
    "hand-written model Model/Swarm.v (+ Model/Archive.v, Model/Variation.v position_update, Model/Dominance.v) tied to "
    "algorithm_swarm.py / archive.py by this correspondence run",
    "oracle inputs of the model, recorded from the implementation run: random.uniform draws (the four coefficients after "
    "round(.,1)), the value of khi(c1,c2) (computed with **; the driver checks it is 1.0 when c1+c2 <= 4), the leader returned "
    "by select_leader(), the crowding distances read by truncate, the math.pow tie-break sum of each leader candidate",
    "C18_leaders_eps assumes the scaling x -> x/eps of the archive's epsilon comparator is weakly monotone "
    "(H_sc_mono: not a<b implies not a/eps<b/eps); true for IEEE division by a positive constant, not proved in Coq",
    "C18_velocity_clamped assumes the computed half range is not below its own negation (delta >= -delta); discharged "
    "for binary64 from delta >= 0 in C18_velocity_clamped_float; (ub-lb)/2 >= 0 for ub >= lb is IEEE monotonicity, not proved",
]
ASSUMPTIONS = [
    "positions, velocities, bounds, costs and crowding distances are non-NaN binary64 floats (NaN arises only from "
    "inf-inf or 0*inf, i.e. after overflow); Python `<` on them equals PrimFloat.ltb",
    "feasibility markers are integers/bools",
    "the box clauses (velocity within +-delta, position in the box / on the violated bound) are stated for lb <= ub",
]

HEADER = ("From Artap Require Import Run.C18Run.\nFrom Coq Require Import List ZArith Floats.\n"
          "Import ListNotations.\nOpen Scope float_scope.\n")

INF = math.inf
BOUNDS = [(0.0, 1.0), (-2.0, 3.0), (2.0, 10.0), (1.5, 1.5), (0.0, 0.0), (-1e300, 1e300), (1.0, 1.0 + 2 ** -52),
          (-0.0, 0.0), (-5.0, -1.0), (0.1, 0.30000000000000004), (0.0, 1e-300), (-1.0, 1.0), (2.0, 20.0)]
INVERTED = [(3.0, -2.0), (1.0, 0.0), (0.0, -0.0)]
# red team round 5: boxes of integer-valued parameters (declared 'parameter_type': 'integer' / 'real' / not at all), whole-number bounds as
# Python ints and as floats; ranges 3 mod 4 (half range k+0.5, k odd: 3.5, 1.5, 5.5, 7.5), 1 mod 4 (k even: 0.5, 2.5, 4.5), even ranges, width 0
IBOUNDS = [(0, 7), (2, 5), (0, 3), (0.0, 7.0), (2.0, 5.0), (-3, 0), (1, 12), (0, 11), (-7, 8), (10, 13), (-2.0, 1.0),
           (0, 1), (0, 5), (-4, 1), (0, 9), (3.0, 8.0), (0, 2), (0, 4), (0, 8), (12, 60), (-5, 5), (3, 3), (0.0, 6.0)]
PTYPES = ["integer", "integer", "integer", "integer", "real", None]
COST_SMALL = [0.0, 1.0, 2.0, 3.0]
COST_GRID = [0.0, 1.0, 2.0, 3.0, 0.5, 1.5, -1.0, 2.5, 0.1, 0.2, 0.30000000000000004, 0.3, 1e-7, -0.0, 7.25, 1e6]
MARKERS = [True, True, True, True, False, 0, 1, 2, -1]
CROWD = [INF, INF, 0.0, 0.5, 1.0, 2.0, 1.5, 0.25]


# ------------------------------------------------------------------------------------------------
# textbook definitions used by the direct oracle (written from the property text, not from the code)
def tb_dominates(p, q):
    """p, q: costs_signed lists (objectives + marker).  True iff p dominates q."""
    pm, qm = abs(p[-1]), abs(q[-1])
    if pm < qm:
        return True
    if qm < pm:
        return False
    a, b = p[:-1], q[:-1]
    n = min(len(a), len(b))
    return all(a[i] <= b[i] for i in range(n)) and any(a[i] < b[i] for i in range(n))


def fbits(x):
    return float(x).hex()


def same_bits(a, b):
    return len(a) == len(b) and all(fbits(x) == fbits(y) for x, y in zip(a, b))


# ------------------------------------------------------------------------------------------------
# encoders
def enc_scost(cs):
    return pl(ll([float(x) for x in cs[:-1]], fl), zl(int(cs[-1])))


def enc_fl(v):
    return ll([float(x) for x in v], fl)


def enc_params(bounds):
    return ll([pl(fl(lb), fl(ub)) for lb, ub in bounds])


def js(v):
    return [float(x) for x in v]


def run(ctx):
    import atexit
    import logging
    import shutil
    import random as pyrandom
    import artap.algorithm_swarm as sw
    import artap.archive as arch
    import artap.operators as ops
    from artap.problem import Problem
    from artap.individual import Individual

    rng = ctx.rng
    ALGS = [sw.OMOPSO, sw.SMPSO, sw.PSOGA]
    stats = {"pbest_cases": 0, "velocity_cases": 0, "position_cases": 0, "leaders_cases": 0, "runs": 0,
             "pbest_kept": 0, "pbest_replaced": 0, "pbest_shared_dicts": 0, "pbest_best_is_current": 0,
             "vel_clamped_hi": 0, "vel_clamped_lo": 0, "vel_unclamped": 0, "vel_zero_width": 0,
             "pos_over_ub": 0, "pos_under_lb": 0, "pos_inside": 0, "pos_zero_width": 0, "pos_inverted_box": 0,
             "leaders_adds": 0, "leaders_rejected": 0, "leaders_truncations_cutting": 0, "leaders_tie_breaks": 0,
             "leaders_generations": 0, "in_situ_cases": 0, "histories": 0, "history_calls": 0, "box_changes_in_place": {}, "box_changes_by_kind": {},
             "runs_repeated_on_one_object_after_a_box_change": 0, "sc_mono_pairs_checked": 0, "delta_nonneg_checked": 0, "by_algorithm": {a.__name__: 0 for a in ALGS},
             "typed": {"velocity_cases": 0, "position_cases": 0, "components": {}, "int_valued_vectors": 0, "type_changed_in_place_before_the_call": 0,
                       "clamped_at_half_range_k_plus_half_k_odd": {}, "clamped_at_half_range_k_plus_half_k_even": {}}}

    # --------------------------------------------------------------------------------------------
    # harness-side observation: the swarm module's `uniform`, the archive module's `choice`/`sample`,
    # the `math` module seen by operators.py (pow tape of the epsilon tie-break)
    class Hooks:
        usink = None          # where recorded uniform() results go
        powtape = None

    def h_uniform(a, b):
        r = rng.random()
        k = rng.random()
        v = a if k < 0.04 else b if k < 0.08 else a + (b - a) * r
        if Hooks.usink is not None:
            Hooks.usink.append(v)
        return v

    def h_choice(seq):
        return seq[rng.randrange(len(seq))]

    def h_sample(seq, k):
        return rng.sample(list(seq), k)

    class MathShim:
        def __getattr__(self, name):
            return getattr(math, name)

        def pow(self, x, y):
            r = math.pow(x, y)
            if Hooks.powtape is not None:
                Hooks.powtape.append((x, y, r))
            return r

    saved = (sw.uniform, arch.choice, arch.sample, ops.math, ops.EpsilonDominance.compare,
             arch.Archive.add, arch.Archive.truncate)
    sw.uniform, arch.choice, arch.sample, ops.math = h_uniform, h_choice, h_sample, MathShim()

    # leaders-archive recorder (class level wrappers, filtered by identity)
    class LRec:
        target = None         # the Archive instance being watched
        events = None         # list of ('add', ind, result) / ('trunc', size, [(ind, key)], [ind after])
        compares = None       # (p, q, powtape, verdict) of the watched archive's comparator

    o_add, o_trunc, o_ecmp = arch.Archive.add, arch.Archive.truncate, ops.EpsilonDominance.compare

    def w_add(self, individual):
        r = o_add(self, individual)
        if self is LRec.target:
            LRec.events.append(("add", individual, r))
        return r

    def w_trunc(self, size, getter, larger_preferred=True):
        if self is LRec.target:
            before = [(i, i.features[getter]) for i in self._contents]
        o_trunc(self, size, getter, larger_preferred)
        if self is LRec.target:
            LRec.events.append(("trunc", size, before, list(self._contents), getter, larger_preferred))

    def w_ecmp(self, p, q):
        if LRec.target is not None and self is LRec.target._dominance:
            Hooks.powtape = []
            try:
                v = o_ecmp(self, p, q)
            finally:
                tape, Hooks.powtape = Hooks.powtape, None
            LRec.compares.append((list(p), list(q), tape, v))
            return v
        return o_ecmp(self, p, q)

    arch.Archive.add, arch.Archive.truncate, ops.EpsilonDominance.compare = w_add, w_trunc, w_ecmp

    def make_problem(bounds, nobj, fn, ptypes=None):
        class C18Problem(Problem):
            def set(self, **kw):
                self.name = "c18"
                self.parameters = [{"name": "x%d" % i, "bounds": [lb, ub]} for i, (lb, ub) in enumerate(bounds)]
                for q, t in zip(self.parameters, ptypes or []):
                    if t is not None:
                        q["parameter_type"] = t
                self.costs = [{"name": "f%d" % i, "criteria": "minimize"} for i in range(nobj)]

            def evaluate(self, individual):
                return fn(individual)
        p = C18Problem()
        p.logger.setLevel(logging.CRITICAL)
        atexit.unregister(p.cleanup)             # the temp directory (named by class + microsecond) is not used by the swarm code
        shutil.rmtree(p.working_dir, ignore_errors=True)
        return p

    # --------------------------------------------------------------------------------------------
    # case stores
    PB = {"cases": [], "exp": [], "meta": []}
    VL = {"cases": [], "exp": [], "meta": []}
    PS = {"cases": [], "exp": [], "meta": []}
    LD = {"cases": [], "exp": [], "meta": []}

    def fail(what, inp, match):
        ctx.oracle_failures.append({"what": what, "input": inp, "match": match})

    # ---------- update_particle_best -------------------------------------------------------------
    def observe_pbest(alg, population, origin):
        """Calls alg.update_particle_best(population) (the real method), records case + expectation,
        and runs the direct oracle."""
        dicts = []                                   # feature dicts in order of first appearance
        for p in population:
            if not any(p.features is d for d in dicts):
                dicts.append(p.features)
        idx = lambda p: next(i for i, d in enumerate(dicts) if d is p.features)
        parts = [(list(p.costs_signed), js(p.vector), idx(p)) for p in population]
        store0 = [(list(d["best_cost"]), js(d["best_vector"])) for d in dicts]
        call = getattr(alg, "_c18_orig_update_particle_best", alg.update_particle_best)
        call(population)
        store1 = [(list(d["best_cost"]), js(d["best_vector"])) for d in dicts]
        PB["cases"].append("{| pb_pop := %s; pb_store := %s |}" % (
            ll(["{| p_cost := %s; p_vec := %s; p_feat := %s |}" % (enc_scost(c), enc_fl(v), nl(f)) for c, v, f in parts]),
            ll([pl(enc_scost(c), enc_fl(v)) for c, v in store0])))
        PB["exp"].append("(Some %s)" % ll([pl(enc_scost(c), enc_fl(v)) for c, v in store1]))
        meta = {"kind": "update_particle_best", "origin": origin, "algorithm": type(alg).__name__,
                "particles": [{"costs_signed": js(c[:-1]) + [int(c[-1])], "vector": v, "features_dict": f} for c, v, f in parts],
                "best_before": [{"best_cost": js(c[:-1]) + [int(c[-1])], "best_vector": v} for c, v in store0],
                "best_after": [{"best_cost": js(c[:-1]) + [int(c[-1])], "best_vector": v} for c, v in store1]}
        PB["meta"].append(meta)
        stats["pbest_cases"] += 1
        stats["by_algorithm"][type(alg).__name__] += 1
        if len(dicts) < len(population):
            stats["pbest_shared_dicts"] += 1
        # direct oracle: particle by particle (in the order the method visits them), the best of the
        # particle's dict becomes the particle's position unless the best before that visit dominates it
        want = [(list(c), list(v)) for c, v in store0]
        moved = False
        for c, v, f in parts:
            if tb_dominates(want[f][0], c):
                stats["pbest_kept"] += 1
            else:
                if want[f][0] != c or want[f][1] != v:
                    moved = True
                want[f] = (list(c), list(v))
                stats["pbest_replaced"] += 1
            if store0[f][0] == c:
                stats["pbest_best_is_current"] += 1
        for f in range(len(dicts)):
            got_c, got_v = store1[f]
            if [float(x) for x in got_c] != [float(x) for x in want[f][0]] or got_v != want[f][1]:
                fail("update_particle_best: personal best of features dict %d is %r / %r, the property requires %r / %r "
                     "(replaced by the new position unless the old best dominates it)" % (f, js(got_c), got_v, js(want[f][0]), want[f][1]),
                     meta, {"kind": "pbest", "algorithm": type(alg).__name__})
                break
        ctx.count(("pb", PB["cases"][-1]), nontrivial=moved or any(tb_dominates(b[0], p[0]) for p in parts for b in store0))
        if origin == "generated":
            ctx.sample(meta, limit=2)

    def declared(alg):
        """the declared box = what problem.parameters says NOW (the user may have changed it in place since the algorithm
        object was built); never the algorithm's own idea of it"""
        return [tuple(p["bounds"]) for p in alg.problem.parameters]

    def ptypes_of(alg):
        """the declared parameter types NOW (None = not declared); update_velocity / update_position of the unchanged code never read them"""
        return [p.get("parameter_type") for p in alg.problem.parameters]

    def history_of(alg):
        h = getattr(alg, "_c18_history", None)
        return None if h is None else list(h)

    # ---------- update_velocity ------------------------------------------------------------------
    def observe_velocity(alg, individuals, origin):
        kind = "VPsoga" if isinstance(alg, sw.PSOGA) else "VBase"
        bounds = declared(alg)
        pre = [(js(i.vector), js(i.features["best_vector"])) for i in individuals]
        recs = []
        stray = []
        cls_select = type(alg).select_leader
        cls_khi = type(alg).khi

        def sel():
            g = cls_select(alg)
            recs.append({"leader": js(g.vector), "u": [], "khi": []})
            Hooks.usink = recs[-1]["u"]
            return g

        def khi(c1, c2):
            r = cls_khi(c1, c2)
            (recs[-1]["khi"] if recs else stray).append(r)
            return r
        alg.select_leader, alg.khi = sel, khi
        Hooks.usink = stray
        try:
            getattr(alg, "_c18_orig_update_velocity", alg.update_velocity)(individuals)
        finally:
            Hooks.usink = None
            del alg.select_leader, alg.khi
        post = [js(i.features["velocity"]) for i in individuals]
        if getattr(alg, "_c18_history", None) is not None:
            alg._c18_history.append("update_velocity (box %r)" % ([list(b) for b in bounds],))
        ok = len(recs) == len(individuals) and not stray
        swarm = []
        mswarm = []
        for (x, b), r in zip(pre, recs):
            u = r["u"]
            if len(u) < 4 or any(fbits(k) != fbits(r["khi"][0]) for k in r["khi"]):
                ok = False
                break
            r1, r2, c1, c2 = (round(z, 1) for z in u[:4])
            khi_v = r["khi"][0] if r["khi"] else 1.0
            swarm.append("{| v_draws := {| d_r1 := %s; d_r2 := %s; d_c1 := %s; d_c2 := %s; d_khi := %s; d_w := %s |}; "
                         "v_vec := %s; v_best := %s; v_leader := %s |}" % (
                             fl(r1), fl(r2), fl(c1), fl(c2), fl(khi_v), enc_fl(u[4:]), enc_fl(x), enc_fl(b), enc_fl(r["leader"])))
            mswarm.append({"vector": x, "best_vector": b, "leader_vector": r["leader"], "r1": r1, "r2": r2, "c1": c1, "c2": c2,
                           "khi": khi_v, "inertia_draws": u[4:]})
        meta = {"kind": "update_velocity", "origin": origin, "algorithm": type(alg).__name__, "bounds": [list(b) for b in bounds],
                "parameter_types": ptypes_of(alg), "particles": mswarm, "velocity_after": post, "history_of_this_algorithm_object": history_of(alg)}
        if not ok:
            ctx.mismatches.append({"what": "update_velocity no longer draws select_leader / 4 uniforms / khi per particle as modelled",
                                   "correspondence": "c18_vel", "case": meta})
            return
        VL["cases"].append("{| vl_kind := %s; vl_params := %s; vl_swarm := %s |}" % (kind, enc_params(bounds), ll(swarm)))
        VL["exp"].append("(Some %s)" % ll([enc_fl(v) for v in post]))
        VL["meta"].append(meta)
        stats["velocity_cases"] += 1
        stats["by_algorithm"][type(alg).__name__] += 1
        # direct oracle: every component within +- half the parameter range
        interesting = False
        for pi, v in enumerate(post):
            for i, vi in enumerate(v):
                lb, ub = bounds[i]
                if not (lb <= ub):
                    continue
                delta = (ub - lb) / 2.0
                stats["delta_nonneg_checked"] += 1
                if not (delta >= 0.0):               # the arithmetic assumption of C18_velocity_clamped_float on this box
                    ctx.notes.append("ASSUMPTION FAILS: lb=%r <= ub=%r but (ub-lb)/2 = %r < 0" % (lb, ub, delta))
                if lb == ub:
                    stats["vel_zero_width"] += 1
                if not (-delta <= vi <= delta):
                    fail("update_velocity: velocity component %d of particle %d is %r, outside +-(ub-lb)/2 = +-%r" % (i, pi, vi, delta),
                         meta, {"kind": "velocity_clamp", "algorithm": type(alg).__name__})
                    break
                if abs(vi) == delta and delta % 1.0 == 0.5:
                    t = alg.problem.parameters[i].get("parameter_type") or "undeclared"
                    k = "clamped_at_half_range_k_plus_half_k_%s" % ("odd" if delta % 2.0 == 1.5 else "even")
                    stats["typed"][k][t] = stats["typed"][k].get(t, 0) + 1
                if vi == delta and delta > 0:
                    stats["vel_clamped_hi"] += 1
                    interesting = True
                elif vi == -delta and delta > 0:
                    stats["vel_clamped_lo"] += 1
                    interesting = True
                else:
                    stats["vel_unclamped"] += 1
        ctx.count(("vl", VL["cases"][-1]), nontrivial=interesting)
        if origin == "generated":
            ctx.sample(meta, limit=3)

    # ---------- update_position ------------------------------------------------------------------
    def observe_position(alg, individuals, origin):
        damp = isinstance(alg, sw.SMPSO)
        bounds = declared(alg)
        pre = [(js(i.vector), js(i.features["velocity"])) for i in individuals]
        getattr(alg, "_c18_orig_update_position", alg.update_position)(individuals)
        post = [(js(i.vector), js(i.features["velocity"])) for i in individuals]
        if getattr(alg, "_c18_history", None) is not None:
            alg._c18_history.append("update_position (box %r)" % ([list(b) for b in bounds],))
        PS["cases"].append("{| ps_damp := %s; ps_params := %s; ps_swarm := %s |}" % (
            bl(damp), enc_params(bounds), ll([pl(enc_fl(x), enc_fl(v)) for x, v in pre])))
        PS["exp"].append("(Some %s)" % ll([pl(enc_fl(x), enc_fl(v)) for x, v in post]))
        meta = {"kind": "update_position", "origin": origin, "algorithm": type(alg).__name__, "bounds": [list(b) for b in bounds],
                "parameter_types": ptypes_of(alg),
                "before": [{"vector": x, "velocity": v} for x, v in pre], "after": [{"vector": x, "velocity": v} for x, v in post],
                "history_of_this_algorithm_object": history_of(alg)}
        PS["meta"].append(meta)
        stats["position_cases"] += 1
        stats["by_algorithm"][type(alg).__name__] += 1
        interesting = False
        bad = None
        for pi, ((x0, v0), (x1, v1)) in enumerate(zip(pre, post)):
            for i in range(min(len(bounds), len(x0))):
                lb, ub = bounds[i]
                if not (lb <= ub):
                    stats["pos_inverted_box"] += 1
                    continue
                if lb == ub:
                    stats["pos_zero_width"] += 1
                s = x0[i] + v0[i]
                bounced = v0[i] * 0.001 if damp else -v0[i]
                if s > ub:
                    stats["pos_over_ub"] += 1
                    interesting = True
                    want = (ub, bounced)
                elif s < lb:
                    stats["pos_under_lb"] += 1
                    interesting = True
                    want = (lb, bounced)
                else:
                    stats["pos_inside"] += 1
                    want = (s, v0[i])
                if not (x1[i] == want[0] and v1[i] == want[1]) or not (lb <= x1[i] <= ub):
                    bad = ("update_position (%s): coordinate %d of particle %d: x=%r v=%r bounds=[%r, %r] gives x'=%r v'=%r, "
                           "the property requires x'=%r v'=%r" % (type(alg).__name__, i, pi, x0[i], v0[i], lb, ub, x1[i], v1[i], want[0], want[1]))
                    break
            if bad:
                break
        if bad:
            fail(bad, meta, {"kind": "position", "algorithm": type(alg).__name__})
        ctx.count(("ps", PS["cases"][-1]), nontrivial=interesting)
        if origin == "generated":
            ctx.sample(meta, limit=4)

    # ---------- leaders archive ------------------------------------------------------------------
    def tie_of(cs, eps):
        d = 0.0
        for i, c in enumerate(cs[:-1]):
            e = float(eps[i % len(eps)])
            d += math.pow(c - (c / e) * e, 2.0)
        return d

    def start_leaders(alg):
        LRec.target, LRec.events, LRec.compares = alg.leaders, [], []

    def finish_leaders(alg, size, origin, extra_meta):
        events, compares = LRec.events, LRec.compares
        LRec.target, LRec.events, LRec.compares = None, None, None
        eps = list(alg.leaders._dominance.epsilons)
        inds = []                                    # python individuals, case-local ids by first appearance

        def lid(ind):
            for k, j in enumerate(inds):
                if j is ind:
                    return k
            inds.append(ind)
            return len(inds) - 1
        gens, trace, cur = [], [], []
        jgens = []
        ok = True
        rejected = 0
        for ev in events:
            if ev[0] == "add":
                cur.append(lid(ev[1]))
                stats["leaders_adds"] += 1
                if not ev[2]:
                    stats["leaders_rejected"] += 1
                    rejected += 1
            else:
                _, sz, before, after, getter, larger = ev
                if sz != size or getter != "crowding_distance" or larger is not True:
                    ok = False
                keys = [(lid(i), float(k)) for i, k in before]
                if any(math.isnan(k) for _, k in keys):
                    return None                      # NaN crowding distance (inf - inf costs): outside the model's order
                gens.append((cur, keys))
                trace.append([lid(i) for i in after])
                jgens.append({"offered": cur, "crowding_at_truncate": keys, "leaders_after": trace[-1]})
                if len(before) > sz:
                    stats["leaders_truncations_cutting"] += 1
                cur = []
        if cur:
            ok = False                               # additions not followed by a truncate
        final = [lid(i) for i in alg.leaders]
        if trace and final != trace[-1]:
            ok = False
        costs = [list(i.costs_signed) for i in inds]
        ties = [tie_of(c, eps) for c in costs]
        # the arithmetic assumption of C18_leaders_eps, checked on the values of this case: x -> x/eps never reverses an order
        for k in range(max((len(c) for c in costs), default=1) - 1):
            e = float(eps[k % len(eps)]) or 1e-3
            col = sorted(float(c[k]) for c in costs if len(c) - 1 > k)
            for a, b in zip(col, col[1:]):
                stats["sc_mono_pairs_checked"] += 1
                if a / e > b / e:
                    ctx.notes.append("ASSUMPTION FAILS: %r <= %r but %r/%r > %r/%r" % (a, b, a, e, b, e))
        # cross-check the harness's tie-break sums against the recorded math.pow tape
        for p, q, tape, v in compares:
            if tape:
                stats["leaders_tie_breaks"] += 1
                d1 = d2 = 0.0
                for k, (x, y, r) in enumerate(tape):
                    if k % 2 == 0:
                        d1 += r
                    else:
                        d2 += r
                if y != 2.0 or fbits(d1) != fbits(tie_of(p, eps)) or fbits(d2) != fbits(tie_of(q, eps)):
                    ok = False
        meta = {"kind": "leaders", "origin": origin, "algorithm": type(alg).__name__, "max_population_size": size, "epsilons": eps,
                "individuals": [js(c[:-1]) + [int(c[-1])] for c in costs], "generations": jgens}
        meta.update(extra_meta)
        if not ok:
            ctx.mismatches.append({"what": "leaders archive is no longer driven as modelled (add* then truncate(max_population_size, "
                                           "'crowding_distance') per generation; tie-break sums = sum of pow(c-(c/eps)*eps, 2))",
                                   "correspondence": "c18_leaders", "case": meta})
        else:
            LD["cases"].append("{| ld_size := %s; ld_eps := %s; ld_inds := %s; ld_ties := %s; ld_gens := %s |}" % (
                nl(size), enc_fl(eps), ll([enc_scost(c) for c in costs]), enc_fl(ties),
                ll([pl(ll(g, nl), ll([pl(nl(i), fl(k)) for i, k in keys])) for g, keys in gens])))
            LD["exp"].append(ll([ll(t, nl) for t in trace]))
            LD["meta"].append(meta)
            stats["leaders_cases"] += 1
            stats["leaders_generations"] += len(gens)
            stats["by_algorithm"][type(alg).__name__] += 1
        # direct oracle: after every generation at most `size` leaders, mutually non-dominated
        for gi, t in enumerate(trace):
            if len(t) > size:
                fail("%s: %d leaders after generation %d, more than max_population_size=%d" % (type(alg).__name__, len(t), gi, size),
                     meta, {"kind": "leaders_bound", "algorithm": type(alg).__name__})
                break
            dom = [(a, b) for a in t for b in t if a != b and tb_dominates(costs[a], costs[b])]
            if dom:
                a, b = dom[0]
                fail("%s: after generation %d leader %d %r dominates leader %d %r" % (type(alg).__name__, gi, a, js(costs[a][:-1]), b, js(costs[b][:-1])),
                     meta, {"kind": "leaders_nondominated", "algorithm": type(alg).__name__})
                break
        if len(alg.leaders) > size:
            fail("%s: algorithm.leaders holds %d members, more than max_population_size=%d" % (type(alg).__name__, len(alg.leaders), size),
                 meta, {"kind": "leaders_bound", "algorithm": type(alg).__name__})
        if ok:
            ctx.count(("ld", LD["cases"][-1]), nontrivial=any(len(b) > size for _, b in gens) or rejected > 0)
            if origin == "run":
                ctx.sample({k: meta[k] for k in ("kind", "algorithm", "max_population_size", "individuals", "generations")}, limit=5)
        return meta

    # --------------------------------------------------------------------------------------------
    # generators
    def gen_bounds(n, degenerate):
        out = []
        for _ in range(n):
            r = rng.random()
            if degenerate and r < 0.15:
                out.append(rng.choice(INVERTED))
            elif r < 0.75:
                out.append(rng.choice(BOUNDS))
            else:
                a = round(rng.uniform(-10, 10), 1)
                out.append((a, a + rng.choice([0.0, 0.5, 1.0, 3.0, 100.0])))
        return out

    def gen_coord(lb, ub):
        r = rng.random()
        lo, hi = (lb, ub) if lb <= ub else (ub, lb)
        if r < 0.35:
            return lo + (hi - lo) * rng.random() if math.isfinite(hi - lo) else rng.uniform(-1e3, 1e3)
        if r < 0.45:
            return rng.choice([lb, ub])
        if r < 0.55:
            return math.nextafter(rng.choice([lb, ub]), rng.choice([-INF, INF]))
        if r < 0.75:
            return rng.choice([-1, 1]) * rng.choice([1e3, 1e6, 1e150, 12345.678])
        if r < 0.82:
            return rng.choice([0.0, -0.0])
        return round(rng.uniform(lo - 5, hi + 5), 2) if math.isfinite(hi - lo) else rng.uniform(-1e6, 1e6)

    def gen_velocity(lb, ub, x):
        r = rng.random()
        w = ub - lb if math.isfinite(ub - lb) else 1e150
        if r < 0.3:        # land on / next to a bound
            t = rng.choice([lb, ub])
            t = rng.choice([t, math.nextafter(t, INF), math.nextafter(t, -INF)])
            return t - x
        if r < 0.45:
            return rng.choice([0.0, -0.0])
        if r < 0.6:
            return rng.choice([-1, 1]) * rng.choice([w / 2, w, 2 * w, w / 4])
        if r < 0.75:
            return rng.choice([-1, 1]) * rng.choice([1e6, 1e150, 1e-300, 5e-324])
        return round(rng.uniform(-abs(w) - 1, abs(w) + 1), 2) if abs(w) < 1e6 else rng.uniform(-1e3, 1e3)

    def gen_costs(m, grid, marker=None):
        return [rng.choice(grid) for _ in range(m)] + [rng.choice(MARKERS) if marker is None else marker]

    def new_alg(cls, bounds, nobj=2, fn=None, ptypes=None):
        return cls(make_problem(bounds, nobj, fn or (lambda ind: [0.0] * nobj), ptypes))

    def new_particle(cls, vec):
        return sw.IndividualSwarm(list(vec)) if cls is not sw.SMPSO or rng.random() < 0.5 else Individual(list(vec))

    # ---------- generated: update_particle_best --------------------------------------------------
    def gen_pbest_case():
        cls = rng.choice(ALGS)
        n = rng.choice([1, 2, 2, 3])
        m = rng.choice([1, 2, 2, 3])
        alg = new_alg(cls, gen_bounds(n, False), m)
        k = rng.choice([1, 1, 2, 3, 4, 5])
        grid = COST_SMALL if rng.random() < 0.7 else COST_GRID
        same_marker = rng.random() < 0.7
        pop = []
        for _ in range(k):
            p = new_particle(cls, [rng.choice([0.0, 0.5, 1.0, -3.0, 7.5, 1e6]) for _ in range(n)])
            p.costs_signed = gen_costs(m, grid, True if same_marker else None)
            if pop and rng.random() < 0.25:          # shared features dict, as PSOGA.run creates them
                p.features = rng.choice(pop).features
            else:
                r = rng.random()
                if r < 0.2:                           # best equal to current (as init_pbest leaves it: same objects)
                    p.features["best_cost"], p.features["best_vector"] = p.costs_signed, p.vector
                elif r < 0.35:                        # equal values, distinct objects
                    p.features["best_cost"], p.features["best_vector"] = list(p.costs_signed), list(p.vector)
                else:
                    bc = list(p.costs_signed)
                    if r < 0.7:                       # perturb one or two objectives: dominating / dominated / incomparable
                        for _ in range(rng.choice([1, 1, 2])):
                            bc[rng.randrange(m)] = rng.choice(grid)
                    else:
                        bc = gen_costs(m, grid, True if same_marker else None)
                    p.features["best_cost"] = bc
                    p.features["best_vector"] = [rng.choice([0.0, 0.25, 2.0, -1.0]) for _ in range(n)]
            pop.append(p)
        observe_pbest(alg, pop, "generated")

    # ---------- generated: update_velocity -------------------------------------------------------
    def fill_leaders(alg, n, bounds):
        k = rng.choice([1, 1, 2, 3, 4])
        for j in range(k):
            g = sw.IndividualSwarm([gen_coord(*bounds[i]) for i in range(n)])
            g.costs_signed = [float(j), float(k - j), True]
            g.features["crowding_distance"] = rng.choice(CROWD)
            alg.leaders.add(g)

    def gen_velocity_case(degenerate):
        cls = rng.choice(ALGS)
        n = rng.choice([1, 2, 2, 3, 4])
        bounds = gen_bounds(n, degenerate)
        alg = new_alg(cls, bounds)
        fill_leaders(alg, n, bounds)
        pop = []
        for _ in range(rng.choice([1, 1, 2, 3])):
            p = new_particle(cls, [gen_coord(*bounds[i]) for i in range(n)])
            r = rng.random()
            if r < 0.25:
                p.features["best_vector"] = p.vector                       # best equal to current (alias)
            elif r < 0.4:
                p.features["best_vector"] = list(p.vector)
            else:
                p.features["best_vector"] = [gen_coord(*bounds[i]) for i in range(n)]
            p.features["velocity"] = [gen_velocity(*bounds[i], p.vector[i]) for i in range(n)]
            pop.append(p)
        observe_velocity(alg, pop, "generated")

    # ---------- red team round 5: typed parameters ------------------------------------------------
    # Boxes of parameters declared 'parameter_type': 'integer' / 'real' / undeclared with whole-number bounds (ints or floats), half
    # ranges k+0.5 (k odd and even) and whole, particles far outside the box so that the clamp is hit, vectors / bests / leaders of
    # Python ints (what artap's generators produce for integer parameters) or floats, the declared type changed IN PLACE between
    # construction and the call.  The unchanged update_velocity / update_position never read 'parameter_type' and compute in floats
    # whatever the vectors hold: the model (on float(x)) and the oracle clause (|v| <= (ub-lb)/2) stay as they are.
    def typed_box(n):
        bounds, types = [], []
        for _ in range(n):
            if rng.random() < 0.8:
                bounds.append(rng.choice(IBOUNDS[:11]) if rng.random() < 0.6 else rng.choice(IBOUNDS))
                types.append(rng.choice(PTYPES))
            else:
                bounds.append(gen_bounds(1, False)[0])
                types.append(rng.choice(["real", None, None, "integer"]))
        return bounds, types

    def typed_coord(lb, ub, as_int):
        r = rng.random()
        if r < 0.5:                                  # far outside: the social / cognitive terms exceed the half range
            x = rng.choice([lb - 1, ub + 1]) + rng.choice([-1, 1]) * rng.choice([10, 100, 1000, 10 ** 6])
        elif r < 0.7:
            x = rng.choice([lb, ub])
        else:
            x = gen_coord(lb, ub)
        if as_int and math.isfinite(x) and abs(x) < 1e15:
            return int(round(x))
        return float(x)

    def typed_swarm(cls, alg, bounds, types, n, velocity_only):
        as_int = [t == "integer" and rng.random() < 0.6 for t in types]
        k = rng.choice([1, 2, 3])
        for j in range(k):
            g = sw.IndividualSwarm([typed_coord(*bounds[i], as_int[i]) for i in range(n)])
            g.costs_signed = [float(j), float(k - j), True]
            g.features["crowding_distance"] = rng.choice(CROWD)
            alg.leaders.add(g)
        pop = []
        for _ in range(rng.choice([1, 2, 3, 4])):
            p = new_particle(cls, [typed_coord(*bounds[i], as_int[i]) for i in range(n)])
            r = rng.random()
            p.features["best_vector"] = p.vector if r < 0.2 else list(p.vector) if r < 0.3 else [typed_coord(*bounds[i], as_int[i]) for i in range(n)]
            p.features["velocity"] = [float(gen_velocity(*bounds[i], p.vector[i])) if rng.random() < 0.7 else rng.choice([0.0, 1.0, -1.0, 2.0, -3.0])
                                      for i in range(n)]       # floats, as update_velocity leaves them (an int 0 reversed by `*= -1` stays +0)
            pop.append(p)
        stats["typed"]["int_valued_vectors"] += sum(any(type(x) is int for x in p.vector) for p in pop)
        for t in types:
            stats["typed"]["components"][t or "undeclared"] = stats["typed"]["components"].get(t or "undeclared", 0) + 1
        return pop

    def retype_in_place(alg, types):
        """rule 9: the declared type changes between construction and the call (assigned, removed, or the dict replaced)"""
        for i, q in enumerate(alg.problem.parameters):
            r = rng.random()
            if r < 0.4:
                q["parameter_type"] = "integer"
            elif r < 0.55:
                q.pop("parameter_type", None)
            elif r < 0.7:
                alg.problem.parameters[i] = dict(q, parameter_type=rng.choice(["integer", "real"]))
        stats["typed"]["type_changed_in_place_before_the_call"] += 1

    def gen_typed_case(what):
        cls = rng.choice(ALGS)
        n = rng.choice([1, 2, 3, 4])
        bounds, types = typed_box(n)
        alg = new_alg(cls, bounds, ptypes=types)
        pop = typed_swarm(cls, alg, bounds, types, n, what == "vel")
        if rng.random() < 0.3:
            retype_in_place(alg, types)
        if what == "vel":
            stats["typed"]["velocity_cases"] += 1
            observe_velocity(alg, pop, "generated, typed parameters")
            if rng.random() < 0.3:                  # the same long-lived object again: position update, type change, velocity update
                observe_position(alg, pop, "generated, typed parameters")
                retype_in_place(alg, types)
                observe_velocity(alg, pop, "generated, typed parameters")
        else:
            stats["typed"]["position_cases"] += 1
            observe_position(alg, pop, "generated, typed parameters")

    # ---------- generated: update_position -------------------------------------------------------
    def gen_position_case(degenerate):
        cls = rng.choice(ALGS)
        n = rng.choice([1, 2, 2, 3, 4])
        bounds = gen_bounds(n, degenerate)
        alg = new_alg(cls, bounds)
        pop = []
        for _ in range(rng.choice([1, 1, 2, 3])):
            extra = rng.choice([0, 0, 0, 1]) if degenerate else 0          # vector longer than the parameter list: zip stops
            vec = [gen_coord(*bounds[i]) for i in range(n)] + [1.25] * extra
            p = new_particle(cls, vec)
            p.features["velocity"] = [gen_velocity(*bounds[i], vec[i]) for i in range(n)] + [0.5] * extra
            p.features["best_vector"] = list(vec)
            pop.append(p)
        observe_position(alg, pop, "generated")

    # ---------- histories on ONE problem and ONE long-lived algorithm object ------------------------
    # build; update velocities / positions; the user changes the declared box IN PLACE on problem.parameters (tightened,
    # widened, shifted; the bounds list rebound, its items assigned, or the parameter dict replaced in the list); update
    # again on the same object; optionally a second algorithm object built on the same problem after the change.
    # Every call is judged, by the model and by the oracle, on the box problem.parameters declares when it is made.
    def moved(lb, ub, how):
        w = ub - lb
        if not (math.isfinite(w) and 0.0 < w and abs(lb) < 1e100 and abs(ub) < 1e100 and w >= 1e-9 * max(1.0, abs(lb), abs(ub))):
            return (lb, ub) if how != "shift" or not math.isfinite(lb + 1.0) or abs(lb) > 1e100 else (lb + 1.0, ub + 1.0)
        if how == "tighten":
            return (lb + w / 4, ub - w / 4)
        if how == "tighten_much":
            return (lb + 0.45 * w, ub - 0.45 * w)
        if how == "widen":
            return (lb - w, ub + w)
        k = rng.choice([2.0, -2.0, 0.5])          # shift: away from the old box, or overlapping it
        return (lb + k * w, ub + k * w)

    def change_box(problem, how, mode, only=None):
        new = []
        for i, p in enumerate(problem.parameters):
            lb, ub = p["bounds"]
            nb = moved(lb, ub, how) if (only is None or i in only) else (lb, ub)
            new.append(nb)
            if nb == (lb, ub):
                continue
            if mode == "rebind":
                p["bounds"] = [nb[0], nb[1]]
            elif mode == "item":
                p["bounds"][0] = nb[0]
                p["bounds"][1] = nb[1]
            else:
                q = dict(p)
                q["bounds"] = [nb[0], nb[1]]
                problem.parameters[i] = q
        stats["box_changes_in_place"][mode] = stats["box_changes_in_place"].get(mode, 0) + 1
        stats["box_changes_by_kind"][how] = stats["box_changes_by_kind"].get(how, 0) + 1
        return new

    def fresh_particles(cls, bounds, n, with_velocity):
        pop = []
        for _ in range(rng.choice([1, 2, 3])):
            vec = [gen_coord(*bounds[i]) for i in range(n)]
            p = new_particle(cls, vec)
            r = rng.random()
            p.features["best_vector"] = p.vector if r < 0.25 else list(p.vector) if r < 0.4 else [gen_coord(*bounds[i]) for i in range(n)]
            if with_velocity:
                p.features["velocity"] = [gen_velocity(*bounds[i], vec[i]) for i in range(n)]
            pop.append(p)
        return pop

    def gen_history_case():
        cls = rng.choice(ALGS)
        n = rng.choice([1, 2, 2, 3])
        bounds = gen_bounds(n, False)
        alg = new_alg(cls, bounds)
        alg._c18_history = ["built on box %r" % ([list(b) for b in bounds],)]
        fill_leaders(alg, n, bounds)
        algs = [alg]
        plan = rng.choice([["vel", "change", "vel", "pos"], ["vel", "pos", "change", "vel", "pos"], ["change", "vel", "pos"],
                           ["pos", "change", "pos", "vel"], ["vel", "change", "vel", "change", "vel", "pos"],
                           ["vel", "pos", "change", "second", "vel", "pos", "vel", "pos"], ["change", "second", "pos", "vel", "pos"]])
        stats["histories"] += 1
        for step in plan:
            if step == "change":
                how = rng.choice(["tighten", "tighten_much", "widen", "shift", "shift"])
                mode = rng.choice(["rebind", "item", "dict"])
                only = None if rng.random() < 0.6 else set(rng.sample(range(n), rng.randint(1, n)))
                new = change_box(alg.problem, how, mode, only)
                for a in algs:
                    a._c18_history.append("problem.parameters[i]['bounds'] changed in place (%s, %s) to %r" % (how, mode, [list(b) for b in new]))
            elif step == "second":
                b = cls(alg.problem)                 # a second algorithm object on the same problem, built after the change
                b._c18_history = ["second algorithm object, built on the same problem when its box was %r" % ([list(x) for x in declared(alg)],)]
                fill_leaders(b, n, declared(alg))
                algs.append(b)
            else:
                for a in (algs if rng.random() < 0.7 else algs[:1]):
                    now = declared(a)
                    pop = fresh_particles(cls, now, n, step == "pos")
                    stats["history_calls"] += 1
                    (observe_velocity if step == "vel" else observe_position)(a, pop, "history")

    # ---------- generated: update_global_best on hand-made swarms --------------------------------
    near = []
    for base in (0.9, 0.85, 0.95, 1.9, 1.7, 3.7, 0.45):
        b2 = math.nextafter(base, INF)
        if base / 0.1 == b2 / 0.1:
            near.append((base, b2))
    stats["collapsing_adjacent_pairs_available"] = len(near)

    def gen_global_best_case():
        cls = rng.choice(ALGS)
        m = rng.choice([1, 2, 2, 2, 3])
        size = rng.choice([1, 2, 2, 3, 4, 6])
        alg = new_alg(cls, [(0.0, 1.0)], m)
        alg.options["max_population_size"] = size
        grid = COST_SMALL if rng.random() < 0.6 else COST_GRID
        if near and rng.random() < 0.3:
            grid = list(grid) + [x for pr in near for x in pr]
        start_leaders(alg)
        for _ in range(rng.choice([1, 2, 3, 4])):
            swarm = []
            antichain = m >= 2 and rng.random() < 0.4     # mostly incomparable offers: the archive outgrows `size` and is cut
            for _ in range(rng.choice([1, 2, 3, 4, 5, 6, 8])):
                p = sw.IndividualSwarm([rng.random()])
                if swarm and rng.random() < 0.2:
                    p.costs_signed = list(rng.choice(swarm).costs_signed)
                elif antichain:
                    t = rng.choice([0.0, 0.5, 1.0, 1.5, 2.0, 2.5, 3.0, 3.5, 4.0])
                    p.costs_signed = [t, 4.0 - t] + [rng.choice(COST_SMALL) for _ in range(m - 2)] + [True]
                else:
                    p.costs_signed = gen_costs(m, grid, True if rng.random() < 0.85 else None)
                swarm.append(p)
            if cls is sw.PSOGA and len(swarm) > 1 and rng.random() < 0.5:
                swarm[-1].features = swarm[0].features              # shared dict: one crowding distance for both
            alg.update_global_best(swarm)
        finish_leaders(alg, size, "update_global_best", {})

    # ---------- short runs of the three algorithms, every update method observed in situ ----------
    def gen_run(cls, again=None):
        n = rng.choice([1, 2, 2, 3])
        m = rng.choice([1, 2, 2, 3])
        bounds = []
        for _ in range(n):
            bounds.append(rng.choice([(0.0, 1.0), (-2.0, 3.0), (2.0, 10.0), (1.5, 1.5), (-1.0, 1.0), (0.0, 0.0)]))
        mode = rng.choice(["grid", "grid", "function", "constant", "coarse"])
        grid = COST_SMALL if rng.random() < 0.5 else COST_GRID

        def fn(ind):
            x = ind.vector
            if mode == "grid":
                return [rng.choice(grid) for _ in range(m)]
            if mode == "constant":
                return [1.0] * m
            if mode == "coarse":
                return [float(round(sum((xi - j) ** 2 for xi in x))) for j in range(m)]
            return [sum((xi - j) ** 2 for xi in x) for j in range(m)]
        alg = new_alg(cls, bounds, m, fn)
        size = rng.choice([1, 2, 3, 4, 5, 6])
        gens = rng.choice([1, 2, 3, 4])
        alg.options["max_population_size"] = size
        alg.options["max_population_number"] = gens
        for name, obs in (("update_velocity", observe_velocity), ("update_position", observe_position),
                          ("update_particle_best", observe_pbest)):
            setattr(alg, "_c18_orig_" + name, getattr(alg, name))

            def wrapper(individuals, _obs=obs):
                stats["in_situ_cases"] += 1
                _obs(alg, individuals, "run")
            setattr(alg, name, wrapper)
        if any(lb == ub for lb, ub in bounds):
            # the polynomial / non-uniform mutators divide by ub - lb (outside this property): switch mutation off
            alg.options["prob_mutation"] = 0.0
            if getattr(alg, "mutator", None) is not None:
                alg.mutator.probability = 0.0
        pyrandom.seed(rng.getrandbits(48))
        alg._c18_history = ["built on box %r" % ([list(b) for b in bounds],)]
        start_leaders(alg)
        extra = {"bounds": [list(b) for b in bounds], "population_number": gens, "cost_mode": mode}
        try:
            if again and again["when"] == "before":
                new = change_box(alg.problem, again["how"], again["mode"])
                alg._c18_history.append("problem.parameters[i]['bounds'] changed in place (%s, %s) to %r" % (again["how"], again["mode"], [list(b) for b in new]))
            alg._c18_history.append("run()")
            alg.run()
            if again and again["when"] == "between":
                # the SAME algorithm object (its leaders archive, its operators, whatever it remembers) runs again after
                # the user changed the declared box in place; the in-situ observers judge every call on the current box
                new = change_box(alg.problem, again["how"], again["mode"])
                alg._c18_history.append("problem.parameters[i]['bounds'] changed in place (%s, %s) to %r" % (again["how"], again["mode"], [list(b) for b in new]))
                alg._c18_history.append("run() again on the same algorithm object")
                stats["runs_repeated_on_one_object_after_a_box_change"] += 1
                alg.run()
            if again:
                extra["bounds_changed_in_place"] = dict(again, new_box=[list(b) for b in declared(alg)])
        except ZeroDivisionError:
            stats["runs_aborted_zero_division"] = stats.get("runs_aborted_zero_division", 0) + 1
        except Exception as e:          # never on the unchanged code; e.g. a mutator fed a particle that was left outside the current box
            if len(ctx.mismatches) < 30:
                ctx.mismatches.append({"what": "%s.run() raised %r" % (cls.__name__, e), "correspondence": "c18_run",
                                       "case": dict(extra, history_of_this_algorithm_object=history_of(alg))})
            stats["runs"] += 1
            LRec.target, LRec.events, LRec.compares = None, None, None
            return
        stats["runs"] += 1
        finish_leaders(alg, size, "run", extra)

    # ---------- corpus: boundary cases read off the code, run first -------------------------------
    def corpus():
        up = math.nextafter
        for cls in ALGS:
            # update_position: landing exactly on a bound (no bounce), one ulp beyond (bounce), zero-width boxes, signed zeros
            for bounds, parts in [
                ([(0.0, 10.0)], [([8.0], [2.0]), ([8.0], [up(2.0, INF)]), ([1.0], [-1.0]), ([1.0], [up(-1.0, -INF)]), ([4.0], [3.0])]),
                ([(5.0, 5.0)], [([5.0], [0.0]), ([5.0], [1.0]), ([5.0], [-1.0]), ([5.0], [-0.0]), ([1e6], [-1e6])]),
                ([(-0.0, 0.0)], [([0.0], [-0.0]), ([-0.0], [0.0]), ([-0.0], [-0.0]), ([5e-324], [-5e-324])]),
                ([(0.0, 1.0), (2.0, 3.0)], [([0.5, 2.5], [1e150, -1e150]), ([0.5, 2.5], [0.5, 0.5]), ([0.0, 3.0], [0.0, 0.0])]),
                ([(-1e300, 1e300)], [([1e300], [1e300]), ([-1e300], [-1e300]), ([0.0], [1e300])]),
            ]:
                alg = new_alg(cls, bounds)
                pop = []
                for vec, vel in parts:
                    q = sw.IndividualSwarm(list(vec))
                    q.features["velocity"] = list(vel)
                    q.features["best_vector"] = list(vec)
                    pop.append(q)
                observe_position(alg, pop, "corpus")
            # red team round 5: integer-typed parameters, half ranges 3.5 / 1.5 / 1.5 / 24 / (undeclared) 3.5 / 0.5 / 2.5, particles far
            # outside on both sides (every component hits the clamp), int and float vectors
            for ib, it in [([(0, 7), (2, 5), (0, 3), (12, 60), (0.0, 7.0)], ["integer", "integer", "integer", "integer", None]),
                           ([(0.0, 7.0), (2.0, 5.0), (0, 1), (0, 5), (0, 7)], ["integer", "integer", "integer", "integer", "real"])]:
                alg = new_alg(cls, ib, ptypes=it)
                for j, gv in enumerate([[b[1] for b in ib], [b[0] for b in ib]]):
                    g = sw.IndividualSwarm(list(gv))
                    g.costs_signed = [float(j), float(1 - j), True]
                    g.features["crowding_distance"] = INF
                    alg.leaders.add(g)
                pop = []
                for vec in ([1000] * 5, [-1000] * 5, [1e6, -1e6, 1e6, -1e6, 1e6], [3, 3, 1, 30, 3.5], [-50, 50, -50, 50, -50.5]):
                    q = sw.IndividualSwarm(list(vec))
                    q.features["velocity"] = [0] * 5
                    q.features["best_vector"] = [b[0] for b in ib] if vec[0] > 0 else [b[1] for b in ib]
                    pop.append(q)
                observe_velocity(alg, pop, "corpus")
                observe_position(alg, pop, "corpus")
                observe_velocity(alg, pop, "corpus")
            # update_particle_best: identical, dominating, dominated, incomparable, marker decides, shared dict chain
            for parts, shared in [
                ([([1.0, 2.0, True], [1.0, 2.0, True])], False),
                ([([1.0, 2.0, True], [1.0, 3.0, True])], False),
                ([([1.0, 3.0, True], [1.0, 2.0, True])], False),
                ([([1.0, 3.0, True], [2.0, 2.0, True])], False),
                ([([0.0, 0.0, True], [5.0, 5.0, False])], False),
                ([([5.0, 5.0, False], [0.0, 0.0, True])], False),
                ([([1.0, 1.0, 1], [1.0, 1.0, -1])], False),
                ([([1.0, 1.0, 2], [3.0, 3.0, 1])], False),
                ([([0.0, -0.0, True], [-0.0, 0.0, True])], False),
                ([([1.0], [1.0 + 2 ** -52])], False),
                ([([0.0, 5.0, True], [1.0, 1.0, True]), ([2.0, 2.0, True], None), ([1.0, 1.0, True], None)], True),
                ([([3.0, 3.0, True], [1.0, 1.0, True]), ([0.0, 0.0, True], None), ([2.0, 2.0, True], None)], True),
            ]:
                alg = new_alg(cls, [(0.0, 1.0)], 2)
                pop = []
                for k, (cur, best) in enumerate(parts):
                    cur = list(cur) if len(cur) > 1 else list(cur) + [True]
                    q = sw.IndividualSwarm([float(k)])
                    q.costs_signed = cur
                    if best is None:
                        q.features = pop[0].features
                    else:
                        q.features["best_cost"] = list(best) if len(best) > 1 else list(best) + [True]
                        q.features["best_vector"] = [9.0]
                    pop.append(q)
                observe_pbest(alg, pop, "corpus")
            # leaders: archive of size 1 and 2 fed with a chain, duplicates and an anti-chain
            for size, gens in [
                (1, [[[3.0, 3.0], [2.0, 2.0], [2.0, 2.0]], [[1.0, 1.0]], [[1.0, 1.0], [0.0, 5.0]]]),
                (2, [[[0.0, 4.0], [1.0, 3.0], [2.0, 2.0], [3.0, 1.0], [4.0, 0.0]], [[2.0, 2.0], [1.5, 1.5]], [[0.0, 0.0]]]),
                (3, [[[1.0, 1.0]] * 4, [[1.0, 1.0 + 2 ** -52], [1.0 - 2 ** -53, 1.0]]]),
            ]:
                alg = new_alg(cls, [(0.0, 1.0)], 2)
                alg.options["max_population_size"] = size
                start_leaders(alg)
                for g in gens:
                    swarm = []
                    for c in g:
                        q = sw.IndividualSwarm([0.5])
                        q.costs_signed = list(c) + [True]
                        swarm.append(q)
                    alg.update_global_best(swarm)
                finish_leaders(alg, size, "corpus", {})

    # --------------------------------------------------------------------------------------------
    try:
        corpus()
        n_pb = ctx.pick(500, 5000)
        n_vl = ctx.pick(500, 5000)
        n_ps = ctx.pick(600, 5000)
        n_gb = ctx.pick(300, 3000)
        n_run = ctx.pick(40, 400)
        for _ in range(n_pb):
            gen_pbest_case()
        for i in range(n_vl):
            gen_velocity_case(i % 5 == 4)
        for i in range(n_ps):
            gen_position_case(i % 5 == 4)
        for _ in range(n_gb):
            gen_global_best_case()
        for _ in range(n_run):
            for cls in ALGS:
                gen_run(cls)
        for k in range(ctx.pick(12, 120)):
            for cls in ALGS:
                gen_run(cls, {"when": "between" if k % 3 else "before", "how": ["tighten", "shift", "tighten_much", "widen"][k % 4],
                              "mode": ["rebind", "item", "dict"][(k // 2) % 3]})
        for _ in range(ctx.pick(150, 1500)):
            gen_history_case()
        for i in range(ctx.pick(240, 2400)):
            gen_typed_case("pos" if i % 4 == 3 else "vel")
    finally:
        (sw.uniform, arch.choice, arch.sample, ops.math, ops.EpsilonDominance.compare,
         arch.Archive.add, arch.Archive.truncate) = saved
        LRec.target = None

    ctx.coq_compare("c18_pbest", HEADER, "pb_case", "pb_obs", "pb_run", "pb_obs_eqb", PB["cases"], PB["exp"], PB["meta"], shard=400)
    ctx.coq_compare("c18_vel", HEADER, "vel_case", "vel_obs", "vel_run", "vel_obs_eqb", VL["cases"], VL["exp"], VL["meta"], shard=400)
    ctx.coq_compare("c18_pos", HEADER, "pos_case", "pos_obs", "pos_run", "pos_obs_eqb", PS["cases"], PS["exp"], PS["meta"], shard=400)
    ctx.coq_compare("c18_leaders", HEADER, "ld_case", "ld_obs", "ld_run", "ld_obs_eqb", LD["cases"], LD["exp"], LD["meta"], shard=200)

    ctx.rule = ("a case = one call of update_particle_best / update_velocity / update_position on a swarm (generated, or observed in "
                "situ inside OMOPSO/SMPSO/PSOGA.run) or one leaders-archive history (update_global_best calls on generated swarms, or a "
                "whole run); non-trivial = some best is kept or moved / some component is clamped / some coordinate leaves the box / "
                "some candidate is rejected or the archive is cut; distinct = distinct encoded case")
    ctx.extra.update({"input_distribution": stats,
                      "bounds_templates": [list(b) for b in BOUNDS], "typed_parameter_bounds_templates": [list(b) for b in IBOUNDS], "inverted_boxes_in_degenerate_stream": [list(b) for b in INVERTED]})


LEVEL_TEXT = ("Machine-checked Coq theorems over an executable model of update_particle_best, speed_constriction / update_velocity "
              "(base class and PSOGA), the three update_position variants and the leaders archive (Archive.add* + truncate per "
              "generation), for every swarm size, dimension, box with lb <= ub, every value of any strictly-weakly-ordered number type "
              "(instantiated at binary64) and every sequence of generations: the personal best is replaced exactly when the comparator's "
              "verdict is not 'old best dominates', the constricted velocity lies between -delta and +delta, a coordinate leaving the box "
              "lands on the violated bound with the velocity reversed (OMOPSO, PSOGA) or multiplied by 0.001 (SMPSO) and every moved "
              "position is in the box, the leaders archive never exceeds max_population_size and its members are mutually non-dominated. "
              "The model is tied to algorithm_swarm.py / archive.py on every run by evaluating it in Coq on generated swarms and on the "
              "update calls and leader histories observed inside short runs of the three algorithms, compared bit for bit.")
LEVEL_NOTE = ("Trusted: Coq kernel + vm_compute; FloatAxioms; the hand-written model and the Python harness; random draws, khi, the "
              "selected leader, crowding distances and the math.pow tie-break sums are oracle inputs. Assumed, not proved, for "
              "binary64: weak monotonicity of x -> x/eps (leaders, epsilon comparator) and delta = (ub-lb)/2 >= 0 for lb <= ub. "
              "NaN values are outside the model. Correspondence is sampled, the theorems are unbounded.")
