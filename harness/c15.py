"""C15 - single-objective benchmarks: correspondence with Model/Bench.v (Interval point goals, regime R4)
and the direct oracle (finite real for Python / numpy floats, optimum value at the documented coordinates,
random + local search for a box point better than the documented optimum)."""
import math
import numbers
from fractions import Fraction

from harness.core import REAL_AXIOMS, translated_specs

PROP = "C15"
# second tie (notes/TRANSLATOR.md, "Benchmark functions"): `evaluate` and the declared data of `set` of all 23 classes
# (and atom_nd) are translated from the current source by tools/py2coq_bench.py on every run and proved equal to the
# models of Model/Bench.v, for every vector length / dimension (GenProofs/BenchEquivA.v, BenchEquivB.v, BenchRobustEquiv.v)
TRANSLATED = translated_specs("BenchGenA", "BenchGenB", "BenchRobustGen")

THEOREMS = {"Artap.Props.C15": [
    "C15_analytic_benchmarks",        # 12 classes, both clauses, every dimension: hand proofs (Reals axioms only)
    "C15_interval_benchmarks",        # 10 classes, both clauses: Interval branch-and-bound + induction / case analysis
    "C15_xsy3_benchmark",             # the randomised XinSheYang3, for every tape of draws in [0,1]
    "C15_exact_optima",               # exact optimum values where the documented coordinates are exact reals
    "C15_well_defined",               # denominators non-zero, sqrt arguments non-negative
    "C15_schwefel_every_dimension",   # Schwefel (full-precision alpha, fix F9): >= 0 on the box in every dimension
    "C15_perm_binary64_range",        # Perm's real value fits binary64 on the whole box for dimension <= 80, not at a corner for 81 (finding F10)
    "C15_prefix_code_refuted",        # the pre-fix formulas / declarations of F3, F4, F5 violate the clauses
]}

# Reals axioms + what the Interval tactic's computations rest on (primitive 63-bit integers and floats of the
# standard library, used by Interval's fast arithmetic); every name is declared by Coq's standard library
AXIOMS_OK = REAL_AXIOMS + [r"(Coq\.)?(Floats\.)?FloatAxioms\.\w+", r"(Coq\.)?(Floats\.)?PrimFloat\.\w+",
                           r"(Coq\.)?(Numbers\.Cyclic\.Int63\.)?PrimInt63\.\w+", r"(Coq\.)?(Numbers\.Cyclic\.Int63\.)?Uint63\.\w+",
                           r"(Coq\.)?(Numbers\.Cyclic\.Int63\.)?Uint63Axioms\.\w+", r"(Coq\.)?(Floats\.)?FloatOps\.\w+",
                           r"Rdefinitions\.\w+", r"Raxioms\.\w+", r"Rtrigo1\.\w+|PI_\w+"]
TRUSTED = [
    "Coq 8.16.1 kernel; vm_compute inside the Interval tactic (no native_compute)",
    "axioms of Coq's classical real numbers and logic (ClassicalDedekindReals.sig_forall_dec, sig_not_dec, "
    "functional_extensionality_dep; Classical_Prop.classic under C15_analytic_benchmarks, C15_interval_benchmarks, "
    "C15_schwefel_every_dimension, C15_prefix_code_refuted) "
    "and, through the Interval library's primitive-float/int arithmetic, the standard library's primitive 63-bit integers and floats "
    "with their specification axioms (printed by Print Assumptions as PrimInt63.*, Uint63.*, PrimFloat.*, FloatAxioms.*; "
    "C15_schwefel_every_dimension: the integer ones only); all are declared by the standard library",
    "Interval 4.x, Flocq, Coquelicot as installed (their proofs are checked by the same kernel)",
    "C15_perm_binary64_range: two integer comparisons by vm_compute on Z (no axioms beyond the reals)",
    "hand-written models Model/Bench.v tied to benchmark_functions.py / benchmark_robust.py by this correspondence run "
    "(value at sampled points within 1e-9 relative; declared box, direction, optimum, coordinates, accepted dimensions)",
    "the draws of random.uniform inside XinSheYang3 are an oracle tape; assumed to lie in [0,1]",
    "float operations are modelled by the real operations they round (x**2. = x^2, np.pi = PI): the theorems are about the "
    "real-valued formulas; 'one finite float result' is sampled by the oracle, not proved",
]
ASSUMPTIONS = [
    "coordinates are finite non-NaN binary64 values inside the declared box",
    "binary64 evaluation of each formula is within 1e-9 (relative, plus 1e-9 absolute) of its real value on the sampled points",
]

HEADER = "From Artap Require Import Run.C15Run.\nLocal Open Scope R_scope.\n"

DIMS = [1, 2, 3, 5, 10, 30]
# oracle-only stream at large accepted dimensions (Schwefel: 4000, beyond the n = 3676 where the truncated alpha of F9 mattered)
LARGE_DIMS = {"default": [100], "Schwefel": [100, 4000]}
TOL = 1e-3

# class name, module, Coq function, Coq bench record, takes a `dimension` argument
SPECS = [
    ("Rosenbrock", "bf", "rosenbrock", "rosenbrock_b", True),
    ("Ackley", "bf", "ackley", "ackley_b", True),
    ("Sphere", "bf", "sphere", "sphere_b", True),
    ("Schwefel", "bf", "schwefel", "schwefel_b", True),
    ("ModifiedEasom", "bf", "easom", "easom_b", True),
    ("EqualityConstr", "bf", "eqconstr", "eqconstr_b", True),
    ("Griewank", "bf", "griewank", "griewank_b", True),
    ("Michaelwicz", "bf", "michalewicz", "michalewicz_b", True),
    ("Perm", "bf", "perm", "perm_b", True),
    ("Rastrigin", "bf", "rastrigin", "rastrigin_b", True),
    ("SixHump", "bf", "sixhump", "sixhump_b", False),
    ("Schubert", "bf", "schubert", "schubert_b", False),
    ("Zakharov", "bf", "zakharov", "zakharov_b", True),
    ("XinSheYang", "bf", "xsy1", "xsy1_b", True),
    ("XinSheYang2", "bf", "xsy2", "xsy2_b", True),
    ("XinSheYang3", "bf", "xsy3", "xsy3_b", True),
    ("Booth", "bf", "booth", "booth_b", False),
    ("GramacyLee", "bf", "gramacylee", "gramacylee_b", False),
    ("AlpineFunction", "bf", "alpine", "alpine_b", True),
    ("Synthetic1D", "br", "synthetic1d", "synthetic1d_b", False),
    ("Synthetic2D", "br", "synthetic2d", "synthetic2d_b", False),
    ("Synthetic5D", "br", "synthetic5d", "synthetic5d_b", False),
    ("Synthetic10D", "br", "synthetic10d", "synthetic10d_b", False),
]

# points where the documented optimum is attained, for the classes that document no coordinates
# (literature values; the oracle checks them on the implementation, Props/C15.v proves them for the model)
WITNESS = {
    ("Michaelwicz", 5): [2.202906, 1.570796, 1.284992, 1.923058, 1.720470],
    ("Michaelwicz", 10): [2.202906, 1.570796, 1.284992, 1.923058, 1.720470, 1.570796, 1.454414, 1.756087, 1.655717, 1.570796],
    ("Schubert", 2): [-7.083506, 4.858057],
}


def rl(x):
    """exact rational value of a float as a Coq R term."""
    f = Fraction(x)
    if f.denominator == 1:
        return "(%d)" % f.numerator
    return "(%d / %d)" % (f.numerator, f.denominator)


def tol_of(y):
    return Fraction(1, 10 ** 9) * (1 + abs(Fraction(y)))


def frl(f):
    return "(%d / %d)" % (f.numerator, f.denominator)


MAX_BINARY64 = Fraction(1.7976931348623157e308)


def perm_value_exceeds_binary64(x):
    """exact rational arithmetic: does the real value of Perm at x (sum over i = 1..n, j of (j+1+10)(x_j^i - 1/(j+1)^i)^2,
    all terms non-negative) exceed the largest finite binary64?  Largest powers first, so it stops early."""
    n = len(x)
    xs = [Fraction(v) for v in x]
    total = Fraction(0)
    for i in range(n, 0, -1):
        for j, d in enumerate(xs):
            total += (j + 1 + 10) * (d ** i - Fraction(1, (j + 1) ** i)) ** 2
            if total > MAX_BINARY64:
                return True
    return False


class UniformTape:
    """replaces `uniform` inside artap.benchmark_functions; records (a, b, value)."""

    def __init__(self, rng):
        self.rng = rng
        self.tape = []
        self.force = None

    def __call__(self, a, b):
        r = self.rng.random()
        if self.force is not None:
            v = self.force
        elif r < 0.05:
            v = 0.0
        elif r < 0.1:
            v = 1.0 - 2.0 ** -53
        else:
            v = a + (b - a) * self.rng.random()
        self.tape.append((a, b, v))
        return v


def clip(v, lo, hi):
    return lo if v < lo else hi if v > hi else v


def run(ctx):
    import warnings
    warnings.filterwarnings("ignore")
    import logging
    logging.disable(logging.CRITICAL)
    import numpy as np
    import artap.benchmark_functions as bf
    import artap.benchmark_robust as br
    from artap.individual import Individual
    import time as _time
    t_start = _time.process_time()
    rng = ctx.rng
    mods = {"bf": bf, "br": br}
    tape = UniformTape(rng)
    bf.uniform = tape                        # XinSheYang3 calls the module-level name `uniform`

    n_random = ctx.pick(30, 100)
    n_near = ctx.pick(10, 30)
    goals_per_cfg = ctx.pick(3, 20)          # Coq point goals per configuration besides the optimum
    # Perm in 30 dimensions: 900 terms with powers up to 30 - a point goal costs 30 s; its formula is tied in n <= 10
    slow_cfg_goals = {("Perm", 30): ctx.pick(0, 2)}
    n_search_rand = ctx.pick(150, 1500)
    n_search_local = ctx.pick(120, 600)

    goals, meta = [], []
    seen_goals = set()
    stats = {"configurations": 0, "rejected_dimensions": [], "points": 0, "numpy_differs_from_python": 0,
             "per_class_points": {}, "point_kinds": {}, "xsy3_tape_entries": 0, "eqconstr_on_constraint": 0,
             "eqconstr_off_constraint": 0, "eqconstr_near_threshold_skipped": 0, "search_evaluations": 0,
             "best_margin_to_optimum": {}}

    def fail(what, cls, n, kind, inp, **extra):
        d = {"what": what, "input": inp, "match": {"kind": kind, "class": cls, "dimension": n}}
        d.update(extra)
        ctx.oracle_failures.append(d)

    def evaluate(p, cls, n, x, as_numpy):
        """one call of the implementation; returns (value or None, tape of draws)."""
        vec = [np.float64(v) for v in x] if as_numpy else [float(v) for v in x]
        tape.tape = []
        inp = {"class": cls, "dimension": n, "x": list(map(float, x)), "coordinate_type": "numpy.float64" if as_numpy else "float"}

        def perm_excused(observed):
            # open known finding F10: Perm's real value at this point is not representable in binary64 (dimension >= 81).
            # Only this exact situation is excused; every other crash / non-finite result stays an ordinary failure.
            if cls == "Perm" and perm_value_exceeds_binary64(x):
                stats["perm_value_exceeds_binary64"] = stats.get("perm_value_exceeds_binary64", 0) + 1
                ctx.oracle_failures.append({
                    "what": "Perm(dimension=%d): the real value at this box point exceeds the largest binary64 (1.7976931348623157e308); "
                            "evaluate %s instead of returning one finite real" % (n, observed),
                    "input": inp, "observed": observed, "required": "one finite real cost",
                    "match": {"kind": "perm_value_exceeds_binary64", "class": "Perm"}})
                return True
            return False
        try:
            out = p.evaluate(Individual(vec))
        except Exception as e:
            if isinstance(e, OverflowError) and perm_excused("raises %r" % (e,)):
                return None, []
            fail("evaluate raises %r for %s coordinates" % (e, "numpy.float64" if as_numpy else "Python float"),
                 cls, n, "crash", inp)
            return None, []
        draws = list(tape.tape)
        ok = isinstance(out, (list, tuple)) and len(out) == 1
        y = out[0] if ok else None
        if ok and (isinstance(y, bool) or isinstance(y, np.ndarray) or not isinstance(y, (numbers.Real, np.floating, np.integer))):
            ok = False
        if ok and not math.isfinite(float(y)):
            if perm_excused("returns %r" % (out,)):
                return None, draws
            ok = False
        if not ok:
            fail("evaluate does not return one finite real cost: %r" % (out,), cls, n, "not_finite_real", inp, observed=repr(out))
            return None, draws
        for (a, b, v) in draws:
            if (a, b) != (0, 1):
                fail("XinSheYang3 draws uniform(%r, %r), the model assumes uniform(0, 1)" % (a, b), cls, n, "draw_range", {"class": cls})
        return float(y), draws

    def model_term(spec, x, draws):
        f = spec[2]
        xs = "[" + "; ".join(rl(v) for v in x) + "]"
        if f == "xsy3":
            return "xsy3 [%s] %s" % ("; ".join(rl(d[2]) for d in draws), xs)
        return "%s %s" % (f, xs)

    def add_goal(spec, n, kind, x, y, draws, ctype):
        stmt = "Rabs (%s - %s) <= %s" % (model_term(spec, x, draws), rl(y), frl(tol_of(y)))
        if stmt in seen_goals:
            return
        seen_goals.add(stmt)
        goals.append((stmt, "c15_eqc." if spec[2] == "eqconstr" else "c15_point."))
        meta.append({"class": spec[0], "dimension": n, "point_kind": kind, "x": [float(v) for v in x], "coordinate_type": ctype,
                     "implementation_value": y, "uniform_draws": [d[2] for d in draws]})

    def better(direction, a, b, margin=0.0):
        """a is better than b by more than margin."""
        return a < b - margin if direction == "minimize" else a > b + margin

    def check_clauses(cls, n, kind, x, direction, opt, y_py, y_np):
        """the bound clause at any box point, the value clause at the documented coordinates (implementation only)."""
        # clause: nothing in the box is better than the documented optimum
        for y, ctype in ((y_py, "float"), (y_np, "numpy.float64")):
            if y is not None and better(direction, y, opt, TOL):
                fail("a point of the box has value %r, better (%s) than the documented optimum %r by more than 1e-3" % (y, direction, opt),
                     cls, n, "better_than_optimum",
                     {"class": cls, "dimension": n, "x": x, "coordinate_type": ctype}, observed=y, required="%s %r" % (">= " if direction == "minimize" else "<=", opt))
        # clause: the documented optimum is taken at the documented coordinates
        if kind in ("optimum", "optimum_witness"):
            for y, ctype in ((y_py, "float"), (y_np, "numpy.float64")):
                if y is not None and abs(y - opt) > TOL:
                    fail("value %r at the documented optimal coordinates differs from the documented optimum %r by more than 1e-3" % (y, opt),
                         cls, n, "optimum_value",
                         {"class": cls, "dimension": n, "x": x, "coordinate_type": ctype}, observed=y, required=opt)

    for spec in SPECS:
        cls, modn, fcoq, bcoq, ndim = spec
        klass = getattr(mods[modn], cls)
        for d in (DIMS if ndim else [None]):
            try:
                p = klass(**{"dimension": d}) if ndim else klass()
            except Exception as e:
                stats["rejected_dimensions"].append([cls, d, type(e).__name__])
                bq = bcoq if fcoq != "xsy3" else "(xsy3_b (repeat 0 %d))" % d
                goals.append(("~ b_dims %s %d" % (bq, d), "c15_data."))
                meta.append({"class": cls, "dimension": d, "point_kind": "constructor rejects this dimension"})
                continue
            box = [(float(q["bounds"][0]), float(q["bounds"][1])) for q in p.parameters]
            n = len(box)
            direction = p.costs[0]["criteria"]
            opt = float(p.global_optimum)
            coords = getattr(p, "global_optimum_coords", None)
            coords = [float(v) for v in coords] if coords is not None else None
            stats["configurations"] += 1

            # ---- declared data against the model's record
            bq = bcoq if fcoq != "xsy3" else "(xsy3_b (repeat 0 %d))" % n
            eps12 = "(1 / 1000000000000)"
            parts = ["b_dims %s %d" % (bq, n),
                     "b_dir %s = %s" % (bq, {"minimize": "Minimize", "maximize": "Maximize"}.get(direction, "Unknown_direction")),
                     "length (b_box %s %d) = %d%%nat" % (bq, n, n),
                     "Rabs (b_opt %s %d - %s) <= %s" % (bq, n, rl(opt), eps12)]
            # all coordinates in the thorough tier; first / second / middle / last ones in the quick tier
            sel = set(range(n)) if (ctx.thorough or n <= 5) else {0, 1, n // 2, n - 1}
            for i, (lo, hi) in enumerate(box):
                if i not in sel:
                    continue
                parts.append("Rabs (fst (nth %d (b_box %s %d) (0,0)) - %s) <= %s * (1 + Rabs %s)" % (i, bq, n, rl(lo), eps12, rl(lo)))
                parts.append("Rabs (snd (nth %d (b_box %s %d) (0,0)) - %s) <= %s * (1 + Rabs %s)" % (i, bq, n, rl(hi), eps12, rl(hi)))
            if coords is None:
                parts.append("b_coords %s %d = None" % (bq, n))
            else:
                parts.append("match b_coords %s %d with Some c => length c = %d%%nat /\\ %s | None => False end" % (
                    bq, n, len(coords), " /\\ ".join("Rabs (nth %d c 0 - %s) <= %s" % (i, rl(v), eps12) for i, v in enumerate(coords) if i in sel)))
            goals.append((" /\\ ".join("(%s)" % q for q in parts), "c15_data."))
            meta.append({"class": cls, "dimension": n, "point_kind": "declared data (dimension, direction, box, optimum, coordinates)",
                         "box": box[:3], "direction": direction, "optimum": opt, "coords": coords})
            if coords is not None and (len(coords) != n or any(not (lo <= v <= hi) for v, (lo, hi) in zip(coords, box))):
                fail("documented optimal coordinates are outside the declared box", cls, n, "coords_outside_box",
                     {"class": cls, "dimension": n, "coords": coords, "box": box})

            # ---- points
            mid = [(lo + hi) / 2 for lo, hi in box]
            centre = coords if coords is not None else WITNESS.get((cls, n), mid)
            pts = []
            if coords is not None:
                pts.append(("optimum", list(coords)))
            elif (cls, n) in WITNESS:
                pts.append(("optimum_witness", list(WITNESS[(cls, n)])))
            if n <= 3:
                for mask in range(2 ** n):
                    pts.append(("corner", [box[i][(mask >> i) & 1] for i in range(n)]))
            else:
                pts.append(("corner", [b[0] for b in box]))
                pts.append(("corner", [b[1] for b in box]))
                pts.append(("corner", [box[i][i % 2] for i in range(n)]))
                for _ in range(3):
                    pts.append(("corner", [b[rng.randrange(2)] for b in box]))
            pts.append(("mid", mid))
            for _ in range(min(n, 3)):
                i = rng.randrange(n)
                q = list(mid)
                q[i] = box[i][rng.randrange(2)]
                pts.append(("edge_mid", q))
            if all(lo <= 0.0 <= hi for lo, hi in box):
                pts.append(("zero", [0.0] * n))
                pts.append(("neg_zero", [-0.0] * n))
            for _ in range(3):     # integer / half-integer lattice: cos(2 pi c) = +-1, ties
                pts.append(("lattice", [clip(round(rng.uniform(lo, hi) * 2) / 2, lo, hi) for lo, hi in box]))
            for _ in range(n_random):
                pts.append(("random", [rng.uniform(lo, hi) for lo, hi in box]))
            for _ in range(n_near):
                s = 10 ** rng.uniform(-6, -1.5)
                pts.append(("near_optimum", [clip(c + rng.gauss(0, 1) * s * (hi - lo), lo, hi) for c, (lo, hi) in zip(centre, box)]))
            if cls == "EqualityConstr":
                # the constraint manifold sum c^2 = 1 (where the function is not 0), and both sides of the isclose threshold
                extra = []
                for _ in range(n_random):
                    v = [abs(rng.gauss(0, 1)) + (0.2 if rng.random() < 0.5 else 0) for _ in range(n)]
                    r = math.sqrt(sum(c * c for c in v))
                    extra.append(("on_constraint", [c / r for c in v]))
                for _ in range(n_near):
                    v = [max(c + rng.gauss(0, 1) * 0.05 * c, 1e-3) for c in coords]
                    r = math.sqrt(sum(c * c for c in v))
                    extra.append(("on_constraint_near_optimum", [c / r for c in v]))
                for scale in (1 + 2e-10, 1 - 2e-10, 1 + 4e-9, 1 - 4e-9, 1 + 1e-6, 1 - 1e-6):
                    extra.append(("threshold", [c * math.sqrt(scale) for c in coords]))
                for kind, q in extra:
                    q = [clip(c, 0.0, 1.0) for c in q]
                    s2 = math.fsum(c * c for c in q)
                    if 0.8e-9 <= abs(s2 - 1) <= 1.25e-9:
                        stats["eqconstr_near_threshold_skipped"] += 1
                        continue
                    pts.append((kind, q))
                kept = []
                for kind, q in pts:
                    s2 = math.fsum(c * c for c in q)
                    if 0.8e-9 <= abs(s2 - 1) <= 1.25e-9:
                        stats["eqconstr_near_threshold_skipped"] += 1
                        continue
                    stats["eqconstr_on_constraint" if abs(s2 - 1) < 1e-9 else "eqconstr_off_constraint"] += 1
                    kept.append((kind, q))
                pts = kept

            evaluated = []      # (kind, x, y_py, draws_py, y_np, draws_np)
            for kind, x in pts:
                if any(not (lo <= v <= hi) for v, (lo, hi) in zip(x, box)):
                    raise AssertionError("generator produced a point outside the box")
                y_py, dr_py = evaluate(p, cls, n, x, False)
                y_np, dr_np = evaluate(p, cls, n, x, True)
                stats["points"] += 1
                stats["point_kinds"][kind] = stats["point_kinds"].get(kind, 0) + 1
                stats["per_class_points"][cls] = stats["per_class_points"].get(cls, 0) + 1
                stats["xsy3_tape_entries"] += len(dr_py) + len(dr_np)
                ctx.count((cls, n, tuple(x), "py"), nontrivial=True)
                ctx.count((cls, n, tuple(x), "np"), nontrivial=True)
                if y_py is not None and y_np is not None and y_py != y_np and fcoq != "xsy3":
                    stats["numpy_differs_from_python"] += 1
                evaluated.append((kind, x, y_py, dr_py, y_np, dr_np))
                check_clauses(cls, n, kind, x, direction, opt, y_py, y_np)
                if len(ctx.samples) < 4 and kind == "random" and n in (2, 3) and y_py is not None:
                    ctx.sample({"class": cls, "dimension": n, "x": x, "value_python_floats": y_py, "value_numpy_floats": y_np})

            # ---- which points become Coq goals
            idx = list(range(len(evaluated)))
            chosen = [i for i in idx if evaluated[i][0] in ("optimum", "optimum_witness")]
            rest = [i for i in idx if i not in chosen]
            rng.shuffle(rest)
            if cls == "EqualityConstr":   # make sure both branches are tied
                on = [i for i in rest if evaluated[i][0].startswith("on_constraint") or evaluated[i][0] == "threshold"]
                chosen += on[:2]
            chosen += rest[:slow_cfg_goals.get((cls, n), goals_per_cfg)]
            if (cls, n) in slow_cfg_goals and not ctx.thorough:
                chosen = []
            for i in sorted(set(chosen)):
                kind, x, y_py, dr_py, y_np, dr_np = evaluated[i]
                if y_py is not None:
                    add_goal(spec, n, kind, x, y_py, dr_py, "float")
                if y_np is not None:
                    add_goal(spec, n, kind, x, y_np, dr_np, "numpy.float64")

            # ---- search for a better point than the documented optimum (random + local), numpy and Python floats alternating
            def val(x, k=[0]):
                k[0] += 1
                stats["search_evaluations"] += 1
                y, _ = evaluate(p, cls, n, x, as_numpy=bool(k[0] & 1))
                return y

            def project(x):
                x = [clip(v, lo, hi) for v, (lo, hi) in zip(x, box)]
                if cls == "EqualityConstr":
                    r = math.sqrt(sum(c * c for c in x))
                    if r > 0:
                        x = [clip(c / r, 0.0, 1.0) for c in x]
                return x

            cand = [(y, x) for (_, x, y, _, _, _) in evaluated if y is not None]
            for _ in range(n_search_rand):
                x = project([rng.uniform(lo, hi) for lo, hi in box])
                y = val(x)
                if y is not None:
                    cand.append((y, x))
            cand.sort(key=lambda t: t[0], reverse=(direction != "minimize"))
            starts = [c[1] for c in cand[:3]] + [list(centre)]
            best = cand[0] if cand else None
            for s0 in starts:
                x0 = project(list(s0))
                y0 = val(x0)
                if y0 is None:
                    continue
                step = 0.1
                for it in range(n_search_local):
                    if rng.random() < 0.5:
                        i = rng.randrange(n)
                        x1 = list(x0)
                        x1[i] += rng.gauss(0, 1) * step * (box[i][1] - box[i][0])
                    else:
                        x1 = [v + rng.gauss(0, 1) * step * (hi - lo) / math.sqrt(n) for v, (lo, hi) in zip(x0, box)]
                    x1 = project(x1)
                    y1 = val(x1)
                    if y1 is not None and better(direction, y1, y0):
                        x0, y0 = x1, y1
                        step = min(step * 1.3, 0.3)
                    else:
                        step = max(step * 0.85, 1e-7)
                if best is None or better(direction, y0, best[0]):
                    best = (y0, x0)
            if best is not None:
                margin = (opt - best[0]) if direction == "minimize" else (best[0] - opt)
                stats["best_margin_to_optimum"]["%s/%d" % (cls, n)] = round(margin, 9)
                if better(direction, best[0], opt, TOL):
                    fail("search found a box point with value %r, better (%s) than the documented optimum %r by more than 1e-3" % (best[0], direction, opt),
                         cls, n, "better_than_optimum", {"class": cls, "dimension": n, "x": best[1]}, observed=best[0],
                         required="%s %r" % (">=" if direction == "minimize" else "<=", opt))

    # ---- large dimensions (oracle only, no Coq goals): the constructors accept any dimension, the property quantifies
    # over every accepted one.  A few points per class: documented optimum, corners, mid point, random points.
    stats["large_dimension_points"] = 0
    for spec in SPECS:
        cls, modn, fcoq, bcoq, ndim = spec
        if not ndim or cls == "Michaelwicz":
            continue
        klass = getattr(mods[modn], cls)
        for d in LARGE_DIMS.get(cls, LARGE_DIMS["default"]):
            p = klass(dimension=d)
            box = [(float(q["bounds"][0]), float(q["bounds"][1])) for q in p.parameters]
            n = len(box)
            direction = p.costs[0]["criteria"]
            opt = float(p.global_optimum)
            coords = [float(v) for v in p.global_optimum_coords]
            pts = [("optimum", coords), ("corner", [b[0] for b in box]), ("corner", [b[1] for b in box]),
                   ("corner", [box[i][i % 2] for i in range(n)]), ("mid", [(lo + hi) / 2 for lo, hi in box])]
            pts += [("random", [rng.uniform(lo, hi) for lo, hi in box]) for _ in range(ctx.pick(3, 10))]
            for kind, x in pts:
                y_py, _ = evaluate(p, cls, n, x, False)
                y_np, _ = evaluate(p, cls, n, x, True)
                stats["large_dimension_points"] += 1
                ctx.count((cls, n, kind, hash(tuple(x)), "large"), nontrivial=True)
                check_clauses(cls, n, kind, x, direction, opt, y_py, y_np)

    # ---- purity probe: the models are functions of the point, the implementation must be one too: no state shared
    # between overlapping evaluations on one problem object (parallel evaluation runs threads on a shared problem),
    # no mutation of the caller's list / numpy array
    from harness import core as _core
    stats["purity_probes"] = 0
    tape.force = 0.5                # XinSheYang3: the same draw in every (nested) call, so that results are comparable
    for spec in SPECS:
        cls, modn, fcoq, bcoq, ndim = spec
        klass = getattr(mods[modn], cls)
        for d in (([5] if cls == "Michaelwicz" else ctx.pick([3], [2, 3, 10])) if ndim else [None]):
            p = klass(**{"dimension": d}) if ndim else klass()
            box = [(float(q["bounds"][0]), float(q["bounds"][1])) for q in p.parameters]

            def call(vec, p=p):
                ind = Individual([0.0])
                ind.vector = vec
                return list(p.evaluate(ind))
            for _ in range(ctx.pick(2, 6)):
                xa, xb = [[rng.uniform(lo, hi) for lo, hi in box] for _ in range(2)]
                if cls == "EqualityConstr":     # on the constraint manifold, where the value is not the constant 0
                    xa, xb = [[abs(c) / math.sqrt(sum(v * v for v in q)) for c in q] for q in (xa, xb)]
                    xa, xb = [[clip(c, 0.0, 1.0) for c in q] for q in (xa, xb)]
                stats["purity_probes"] += 1
                ctx.count(("purity", cls, len(box), tuple(xa), tuple(xb)))
                try:
                    whys = _core.purity_probe(call, xa, xb, rng)
                except Exception as e:
                    whys = ["purity probe: evaluate raises %r" % (e,)]
                for why in whys:
                    fail("%s: %s" % (cls, why), cls, len(box), "bench_purity", {"class": cls, "dimension": len(box), "x": xa, "other": xb})
                    ctx.mismatches.append({"what": "implementation is not a function of the point (the model is): " + why,
                                           "correspondence": "c15-purity", "case": {"class": cls, "dimension": len(box), "x": xa, "other": xb}})
    tape.force = None

    stats["implementation_cpu_s"] = round(_time.process_time() - t_start, 2)
    total = len(goals)
    # `Require Import Interval` costs ~7 s of CPU per generated file: few, large shards
    shard = max(8, -(-total // ctx.pick(6, 16)))
    ctx.coq_goals("c15", HEADER, goals, meta, shard=shard, timeout=ctx.pick(600, 1800))
    ctx.rule = ("one case = one evaluate() call on a box point of one (class, dimension): documented optimum, corners, mid and edge points, "
                "zero, half-integer lattice points, %d uniform points, %d points near the optimum (EqualityConstr: also the constraint manifold "
                "and both sides of its isclose threshold), each as Python floats and as numpy.float64; distinct = distinct (class, dimension, point, "
                "coordinate type); Coq point goals: the optimum plus %s of the other points per configuration, and the declared data of every configuration"
                % (n_random, n_near, str(goals_per_cfg)))
    stats["coq_goals"] = total
    stats["goal_shard_size"] = shard
    ctx.extra.update(stats)


LEVEL_TEXT = ("Machine-checked Coq theorems (Reals; hand proofs plus the verified Interval branch-and-bound) over real-valued models of all "
              "23 single-objective benchmark classes, mirroring the coded formulas: for every accepted dimension (induction over the vector) and "
              "every point of the declared box, the documented optimum is taken within 1e-3 at the documented coordinates (exactly where they are "
              "exact reals) and no box point is better than it by more than 1e-3 in the declared direction; denominators and sqrt arguments are "
              "shown well defined on the box. The models (formula, box, direction, optimum, coordinates, accepted dimensions) are tied to the code "
              "on every run by Interval point goals at sampled points for Python and numpy float inputs; a direct oracle searches the "
              "implementation for a better point and probes re-entrancy / argument mutation.")
LEVEL_NOTE = ("All 23 classes fully proved, both clauses (C15_analytic_benchmarks: 12 classes by hand; C15_interval_benchmarks: 10 classes; "
              "C15_xsy3_benchmark for every tape of draws in [0,1]); nothing partial. Dimension bounds that are part of the statements: Schwefel "
              "n <= 3 000 000 for the value clause only (the documented coordinates 420.9687 are rounded: 2.7e-10 per coordinate; "
              "C15_schwefel_every_dimension gives f >= 0 for every n, model of the code after fix F9), EqualityConstr n <= 10^6 (isclose slack "
              "1e-9). Michalewicz 5/10 and Schubert document no coordinates: the value clause is existential there. 'Returns one finite float' "
              "is sampled by the oracle only (the R model cannot overflow); for Perm it cannot hold beyond dimension 80: "
              "C15_perm_binary64_range proves the real value fits binary64 on the whole box for every dimension <= 80 and exceeds it at a "
              "corner of the 81-dimensional box (dimensions >= 82 are not stated; open known finding F10: "
              "Perm(dimension >= 81) raises OverflowError / returns inf at box points; the oracle excuses exactly the points whose exact "
              "rational value exceeds the largest binary64). Correspondence is sampled; theorems are unbounded in the box. See notes/C15.md.")
