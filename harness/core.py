"""Shared machinery of the /verif checks.

Every property module (harness/cXX.py) exposes

    PROP        "C01"
    THEOREMS    {"Artap.Props.C01": ["C01_pareto_spec", ...]}   property theorems (Print Assumptions)
    AXIOMS_OK   regexes of axiom names that may appear under those theorems
    TRUSTED     list of strings copied into evidence.trusted_base
    run(ctx)    generates cases, runs the implementation, calls ctx.coq_* and the
                direct oracle, and records everything on ctx

and this file provides: the Coq build + assumption scan, case-file emission and
sharded `coqc` evaluation of the model, literal encoders, evidence writing, the
known-findings protocol and the VIOLATION / KNOWN-FINDING reporting.
"""
import fcntl
import hashlib
import json
import math
import os
import random
import re
import shutil
import subprocess
import sys
import threading
import time
import traceback
from concurrent.futures import ThreadPoolExecutor

VERIF = os.path.dirname(os.path.dirname(os.path.abspath(__file__)))
REPO = os.environ.get("VERIF_REPO", "/repo")
COQ = os.path.join(VERIF, "coq")
NCPU = min(16, os.cpu_count() or 4)
# the second pass under python -O runs concurrently with the main pass: each of the two evaluates its Coq shards with half
# of the workers, so that the number (and memory) of concurrent coqc processes stays what it was with one pass
if not os.environ.get("VERIF_NO_OPT_PASS"):
    NCPU = max(2, NCPU // 2)
COQ_FLAGS = ["-Q", os.path.join(COQ, "theories"), "Artap", "-w", "-notation-overridden,-deprecated,-inexact-float"]

FORBIDDEN = re.compile(
    r"\b(Admitted|admit|Axiom|Axioms|Parameter|Parameters|Conjecture|Conjectures|Hypothesis|Variable|Variables|Hypotheses)\b"
    r"|Unset\s+Guard|bypass_check|type-in-type|impredicative-set|Admit\s+Obligations|Unset\s+Positivity|Unset\s+Universe")


# axioms of the standard library's primitive floats/ints that may appear under a theorem
# instantiated at PrimFloat.float (they are declared by Coq, not by this development)
FLOAT_AXIOMS = [r"FloatAxioms\.\w+", r"PrimFloat\.\w+", r"PrimInt63\.\w+", r"Uint63\.\w+", r"Uint63Axioms\.\w+"]
# the axioms of Coq's classical real numbers (Reals), used by the R-valued models
REAL_AXIOMS = [r"ClassicalDedekindReals\.\w+", r"FunctionalExtensionality\.functional_extensionality_dep",
               r"functional_extensionality_dep", r"sig_forall_dec", r"sig_not_dec", r"Classical_Prop\.classic", r"classic"]

# --------------------------------------------------------------------------
# literal encoders (Python value -> Coq text)
# --------------------------------------------------------------------------
def fl(x):
    """binary64 -> Coq PrimFloat literal (bit exact, hex)."""
    x = float(x)
    if math.isnan(x):
        return "nan"
    if math.isinf(x):
        return "infinity" if x > 0 else "neg_infinity"
    h = x.hex()
    return "(%s)" % h if h.startswith("-") else h


def zl(n):
    n = int(n)
    return "(%d)%%Z" % n


def nl(n):
    n = int(n)
    assert n >= 0
    return "%d%%nat" % n


def bl(b):
    return "true" if b else "false"


def ql(x):
    """exact rational of a float / Fraction / int -> Coq Q literal."""
    from fractions import Fraction
    f = Fraction(x)
    return "(%d # %d)%%Q" % (f.numerator, f.denominator)


def ll(items, enc=None):
    if enc is not None:
        items = [enc(i) for i in items]
    return "[" + "; ".join(items) + "]"


def pl(*items):
    return "(" + ", ".join(items) + ")"


def optl(x, enc):
    return "None" if x is None else "(Some %s)" % enc(x)


def sl(s):
    return '"%s"%%string' % s.replace('"', '""')


# --------------------------------------------------------------------------
# purity probe: the models of evaluation functions are mathematical functions of the point, so the
# implementation must behave as one: no state carried between (or shared by overlapping) evaluations
# on one problem object, and no mutation of the caller's vector.
# --------------------------------------------------------------------------
class ProbeVector(list):
    """A list that counts element reads and runs `hook()` once, just before read number k."""

    def __init__(self, data, k=None, hook=None):
        super().__init__(data)
        self.reads, self._k, self._hook = 0, k, hook

    def _tick(self):
        if self._k is not None and self.reads == self._k and self._hook is not None:
            h, self._hook = self._hook, None
            h()
        self.reads += 1

    def __getitem__(self, i):
        self._tick()
        r = super().__getitem__(i)
        return list(r) if isinstance(i, slice) else r

    def __iter__(self):
        for i in range(len(self)):
            self._tick()
            yield super().__getitem__(i)


def purity_probe(call, x, other, rng=None, max_k=8):
    """call(vec) -> list of floats: evaluates the implementation on the vector object `vec`.
    Returns descriptions of purity failures: result for x changed by an evaluation of `other` nested
    between two element reads (what a thread switch does under parallel evaluation), or the
    caller's vector (list or numpy array) modified by the evaluation."""
    import numpy as np
    fails = []
    hx = lambda r: [float(v).hex() for v in r]
    base = hx(call([float(v) for v in x]))
    pv = ProbeVector([float(v) for v in x])
    if hx(call(pv)) != base:
        return fails            # the probe object itself changes the behaviour: not usable here
    n = pv.reads
    ks = sorted(set(list(range(min(n, 3))) + list(range(max(0, n - 3), n)) +
                    ([rng.randrange(n) for _ in range(max_k)] if rng and n else [])))[:max_k + 6]
    for k in ks:
        pv = ProbeVector([float(v) for v in x], k, lambda: call([float(v) for v in other]))
        r = hx(call(pv))
        if r != base:
            fails.append("evaluation is not re-entrant: the result for x changes when another point is evaluated on the same "
                         "problem object between element reads %d and %d of x (as a thread switch does under parallel "
                         "evaluation): %s instead of %s" % (k - 1, k, [float.fromhex(v) for v in r], [float.fromhex(v) for v in base]))
            break
    lst = [float(v) for v in x]
    call(lst)
    if hx(lst) != hx(x):
        fails.append("evaluation modifies the caller's list: %r became %r" % (list(x), lst))
    arr = np.array([float(v) for v in x], dtype=np.float64)
    r = hx(call(arr))
    if hx(arr) != hx(x):
        fails.append("evaluation modifies the caller's numpy array in place: %r became %r" % (list(x), arr.tolist()))
    if r != base and hx(call(np.array([float(v) for v in x], dtype=np.float64))) != r:
        fails.append("evaluation of a numpy-array point is not repeatable")
    return fails


# --------------------------------------------------------------------------
class Violation(Exception):
    pass


class Ctx:
    def __init__(self, mod, tier, seed):
        self.mod = mod
        self.prop = mod.PROP
        self.tier = tier
        self.seed = seed
        self.rng = random.Random((seed * 1000003) ^ int(hashlib.sha1(self.prop.encode()).hexdigest()[:8], 16))
        # VERIF_WORK relocates the scratch directory (regression runs of several patched trees in parallel)
        self.work = os.path.join(os.environ["VERIF_WORK"], self.prop) if os.environ.get("VERIF_WORK") else os.path.join(VERIF, ".work", self.prop)
        shutil.rmtree(self.work, ignore_errors=True)
        os.makedirs(self.work, exist_ok=True)
        self.t0 = time.time()
        self.thorough = tier == "thorough"
        # results
        self.evaluations = 0
        self.distinct = set()
        self.rule = ""
        self.samples = []
        self.extra = {}
        self.mismatches = []        # correspondence failures: dicts
        self.oracle_failures = []   # direct-oracle failures on the implementation: dicts
        self.proof_failures = []    # theorem names / messages
        self.obligations = 0
        self.discharged = 0
        self.axioms = []
        self.notes = []
        self.shards = 0
        self.coq_time = 0.0
        self.trusted_extra = []     # additions to evidence.trusted_base made by core (translator)

    # -- bookkeeping helpers -------------------------------------------------
    def count(self, key=None, nontrivial=True):
        self.evaluations += 1
        if nontrivial and key is not None:
            self.distinct.add(key if isinstance(key, (str, int, tuple)) else json.dumps(key, sort_keys=True, default=str))

    def sample(self, s, limit=4):
        if len(self.samples) < limit:
            self.samples.append(s)

    def pick(self, quick, thorough):
        return thorough if self.thorough else quick

    # -- Coq evaluation --------------------------------------------------------
    def _coqc(self, path, timeout, extra_flags=(), _retry=True):
        """one coqc call; a call that hits its time limit is repeated once with three times the limit (a loaded
        machine must not turn into a correspondence failure)"""
        t = time.time()
        try:
            p = subprocess.run(["coqc"] + COQ_FLAGS + list(extra_flags) + [path], capture_output=True, text=True, timeout=timeout,
                               cwd=os.path.dirname(path))
            out, err, rc = p.stdout, p.stderr, p.returncode
        except subprocess.TimeoutExpired as e:
            out, err, rc = (e.stdout or b"").decode() if isinstance(e.stdout, bytes) else (e.stdout or ""), "TIMEOUT", 124
        self.coq_time += time.time() - t
        if rc == 124 and _retry:
            self.notes.append("coqc hit its %d s limit on %s and was repeated with %d s" % (timeout, os.path.basename(path), 3 * timeout))
            return self._coqc(path, 3 * timeout, extra_flags, _retry=False)
        if rc < 0 and _retry:
            # killed by a signal (the kernel's out-of-memory killer on an overloaded machine): not a verdict of Coq
            self.notes.append("coqc was killed by signal %d on %s and was repeated once" % (-rc, os.path.basename(path)))
            time.sleep(20)
            return self._coqc(path, 2 * timeout, extra_flags, _retry=False)
        return rc, out, err

    def coq_compare(self, name, header, case_type, obs_type, run, eqb, cases, expected, meta=None,
                    shard=400, timeout=600):
        """cases/expected: lists of Coq terms (strings).  Evaluates `run case` in Coq (vm_compute) and
        compares with `expected` through `eqb`; returns the list of mismatching indices and records
        them (with the model's own output) on the context.  meta[i] is the JSON-able description of
        case i used in replay files."""
        assert len(cases) == len(expected)
        n = len(cases)
        files = []
        for k in range(0, max(n, 1), shard):
            path = os.path.join(self.work, "%s_%03d.v" % (name, k // shard))
            with open(path, "w") as f:
                f.write("(* generated by harness/%s.py seed=%d cases %d..%d *)\n" % (self.prop.lower(), self.seed, k, min(n, k + shard) - 1))
                f.write(header + "\n")
                f.write("Definition cases : list (%s) := [\n  %s\n].\n" % (case_type, ";\n  ".join(cases[k:k + shard])))
                f.write("Definition expected : list (%s) := [\n  %s\n].\n" % (obs_type, ";\n  ".join(expected[k:k + shard])))
                f.write("Set Printing Width 1000000.\nSet Printing Depth 1000000.\n")
                f.write("Eval vm_compute in (mismatches (%s) (%s) cases expected).\n" % (run, eqb))
            files.append((k, path))
        bad = []
        with ThreadPoolExecutor(NCPU) as ex:
            results = list(ex.map(lambda kp: (kp[0], kp[1], self._coqc(kp[1], timeout)), files))
        self.shards += len(files)
        for k, path, (rc, out, err) in results:
            m = re.search(r"=\s*\[([0-9;\s]*)\]\s*:\s*list nat", out.replace("%nat", ""))
            if rc != 0 or m is None:
                self.mismatches.append({"what": "model evaluation failed", "file": path, "rc": rc,
                                        "stderr": err[-2000:], "stdout": out[-500:]})
                continue
            idx = [int(x) + k for x in m.group(1).replace("\n", " ").split(";") if x.strip()]
            bad.extend(idx)
        # model's side for the mismatching cases
        if bad:
            show = bad[:20]
            path = os.path.join(self.work, "%s_bad.v" % name)
            with open(path, "w") as f:
                f.write(header + "\nSet Printing Width 1000000.\nSet Printing Depth 1000000.\n")
                for i in show:
                    f.write("Eval vm_compute in (%s (%s)).\n" % (run, cases[i]))
            rc, out, err = self._coqc(path, timeout)
            outs = re.findall(r"=\s*(.*?)\n\s*:\s", out, re.S)
            for j, i in enumerate(show):
                self.mismatches.append({
                    "what": "model %s disagrees with the implementation" % run,
                    "correspondence": name, "case_index": i,
                    "case": meta[i] if meta else cases[i],
                    "implementation": expected[i],
                    "model": outs[j].strip() if j < len(outs) else "?"})
            for i in bad[20:]:
                self.mismatches.append({"what": "model %s disagrees with the implementation" % run,
                                        "correspondence": name, "case_index": i,
                                        "case": meta[i] if meta else cases[i]})
        return bad

    def coq_goals(self, name, header, goals, meta=None, shard=40, timeout=900):
        """goals: list of (statement, proof script) for R-valued point checks.  Each is compiled as
        `Goal stmt. Proof. script Qed.`; shards that fail are re-run goal by goal to locate the
        failing ones.  Returns indices of failing goals."""
        files = []
        n = len(goals)
        for k in range(0, n, shard):
            path = os.path.join(self.work, "%s_%03d.v" % (name, k // shard))
            with open(path, "w") as f:
                f.write(header + "\n")
                for (stmt, script) in goals[k:k + shard]:
                    f.write("Goal %s.\nProof. %s Qed.\n" % (stmt, script))
            files.append((k, path))
        with ThreadPoolExecutor(NCPU) as ex:
            results = list(ex.map(lambda kp: (kp[0], kp[1], self._coqc(kp[1], timeout)), files))
        self.shards += len(files)
        bad = []
        retry = []
        for k, path, (rc, out, err) in results:
            if rc != 0:
                retry.extend(range(k, min(n, k + shard)))
        if retry:
            def one(i):
                path = os.path.join(self.work, "%s_g%05d.v" % (name, i))
                with open(path, "w") as f:
                    f.write(header + "\nGoal %s.\nProof. %s Qed.\n" % goals[i])
                return i, self._coqc(path, timeout)
            with ThreadPoolExecutor(NCPU) as ex:
                for i, (rc, out, err) in ex.map(one, retry):
                    if rc != 0:
                        bad.append(i)
                        self.mismatches.append({"what": "model point goal not provable: model value differs from the implementation",
                                                "correspondence": name, "case_index": i,
                                                "case": meta[i] if meta else goals[i][0],
                                                "goal": goals[i][0], "stderr": err[-600:]})
        return bad

    def coq_eval(self, name, header, exprs, timeout=300):
        """Evaluate arbitrary closed terms; returns the printed values (strings)."""
        path = os.path.join(self.work, "%s_eval.v" % name)
        with open(path, "w") as f:
            f.write(header + "\nSet Printing Width 1000000.\nSet Printing Depth 1000000.\n")
            for e in exprs:
                f.write("Eval vm_compute in (%s).\n" % e)
        rc, out, err = self._coqc(path, timeout)
        if rc != 0:
            raise RuntimeError("coq_eval failed: " + err[-1000:])
        return [o.strip() for o in re.findall(r"=\s*(.*?)\n\s*:\s", out, re.S)]


# --------------------------------------------------------------------------
# Coq build and proof obligations
# --------------------------------------------------------------------------
GENPROOFS = os.path.join(COQ, "theories", "GenProofs")


def coq_sources():
    """The committed development built by `make`.  theories/GenProofs is not part of it: those proofs
    are about definitions generated from $VERIF_REPO on every run (see translated_obligations)."""
    out = []
    for root, dirs, files in os.walk(os.path.join(COQ, "theories")):
        if os.path.abspath(root) == GENPROOFS:
            dirs[:] = []
            continue
        for f in files:
            if f.endswith(".v"):
                out.append(os.path.relpath(os.path.join(root, f), COQ))
    return sorted(out)


def write_coqproject():
    txt = "-Q theories Artap\n-arg -w -arg -notation-overridden,-deprecated,-inexact-float\n" + "\n".join(coq_sources()) + "\n"
    path = os.path.join(COQ, "_CoqProject")
    old = open(path).read() if os.path.exists(path) else None
    if old != txt:
        open(path, "w").write(txt)
        return True
    return False


def targets_of(mod):
    """The .vo files (relative to coq/) a property check needs: its Props and Run modules."""
    targets = ["theories/" + m.split(".", 1)[1].replace(".", "/") + ".vo" for m in mod.THEOREMS]
    for extra in getattr(mod, "RUN_MODULES", ["Run.%sRun" % mod.PROP]):
        f = "theories/" + extra.replace(".", "/") + ".v"
        if os.path.exists(os.path.join(COQ, f)):
            targets.append(f + "o")
    # the committed modules that the per-run equivalence proofs (GenProofs) import
    for entry in getattr(mod, "TRANSLATED", []) or []:
        path = os.path.join(COQ, "theories", entry["equiv"])
        if os.path.exists(path):
            for line in re.findall(r"From\s+Artap\s+Require\s+(?:Import|Export)?\s*([^.]*(?:\.[A-Za-z][^.]*)*)\.", open(path).read()):
                for m in line.split():
                    f = "theories/" + m.replace(".", "/") + ".v"
                    if os.path.exists(os.path.join(COQ, f)) and f + "o" not in targets:
                        targets.append(f + "o")
    return targets


def build(jobs=min(16, os.cpu_count() or 4), timeout=3600, only=None, keep_going=False):
    """Full .vo build through coq_makefile (no -vos).  Serialised by a lock so that
    concurrent checks do not run two makes in the same directory."""
    lock = open(os.path.join(COQ, ".build.lock"), "w")
    fcntl.flock(lock, fcntl.LOCK_EX)
    try:
        changed = write_coqproject()
        if changed or not os.path.exists(os.path.join(COQ, "Makefile")):
            subprocess.run(["coq_makefile", "-f", "_CoqProject", "-o", "Makefile"], cwd=COQ, check=True,
                           capture_output=True)
        cmd = ["make", "-j%d" % jobs] + (["-k"] if keep_going else [])
        if only:
            cmd += only
        p = subprocess.run(cmd, cwd=COQ, capture_output=True, text=True, timeout=timeout)
        return p.returncode, p.stdout[-4000:] + p.stderr[-6000:]
    finally:
        fcntl.flock(lock, fcntl.LOCK_UN)
        lock.close()


def _scan_text(src, txt):
    hits = []
    txt_nc = re.sub(r"\(\*.*?\*\)", lambda m: " " * len(m.group(0)), txt, flags=re.S)
    # Variable/Hypothesis/Context are fine inside Sections: check nesting line by line
    depth = 0
    for ln, line in enumerate(txt_nc.split("\n"), 1):
        if re.match(r"\s*(Section|Module)\s", line):
            depth += 1
        if re.match(r"\s*End\s", line):
            depth -= 1
        for m in FORBIDDEN.finditer(line):
            w = m.group(0)
            if w in ("Variable", "Variables", "Hypothesis", "Hypotheses") and depth > 0:
                continue
            hits.append("%s:%d: %s" % (src, ln, line.strip()[:100]))
    return hits


def scan_forbidden():
    hits = []
    for src in coq_sources():
        hits += _scan_text(src, open(os.path.join(COQ, src)).read())
    return hits


def proof_obligations(ctx):
    mod = ctx.mod
    # build only what this property needs (its Props and Run files and their dependencies), so that
    # a broken file of another property cannot mask or fake a result here; setup.sh builds everything
    targets = targets_of(mod)
    # the translated obligations run in a thread of their own: translation and compilation of the generated
    # definitions overlap with the build; the equivalence proofs wait for the build (they import its .vo files)
    acc, th, build_done = None, None, threading.Event()
    if getattr(mod, "TRANSLATED", None):
        acc = _Acc(ctx)
        th = threading.Thread(target=_run_translated, args=(acc, build_done), daemon=True)
        th.start()
    try:
        rc, log = build(only=targets)
    finally:
        build_done.set()
    if rc != 0:
        ctx.proof_failures.append({"what": "Coq development does not build", "log": log[-3000:]})
    hits = scan_forbidden()
    if hits:
        ctx.proof_failures.append({"what": "forbidden vernacular in the development", "hits": hits[:20]})
    thms = [(m, t) for m, ts in mod.THEOREMS.items() for t in ts]
    ctx.obligations = len(thms)
    path = os.path.join(ctx.work, "assumptions.v")
    with open(path, "w") as f:
        for m in mod.THEOREMS:
            f.write("Require %s.\n" % m)
        for m, t in thms:
            f.write('Goal True. idtac "@@BEGIN %s". exact I. Qed.\nPrint Assumptions %s.%s.\n' % (t, m, t))
        f.write('Goal True. idtac "@@END". exact I. Qed.\n')
    rcc, out, err = ctx._coqc(path, 600)
    per = {}
    if rcc != 0:
        # find which theorems are missing: re-run one by one
        for m, t in thms:
            p1 = os.path.join(ctx.work, "assume_%s.v" % t)
            open(p1, "w").write("Require %s.\nPrint Assumptions %s.%s.\n" % (m, m, t))
            r1, o1, e1 = ctx._coqc(p1, 300)
            if r1 != 0:
                ctx.proof_failures.append({"what": "theorem no longer checks", "theorem": "%s.%s" % (m, t), "stderr": e1[-500:]})
            else:
                per[t] = _parse_axioms(o1)
    else:
        blocks = re.split(r"@@BEGIN (\S+)", out)
        for i in range(1, len(blocks) - 1, 2):
            per[blocks[i]] = _parse_axioms(blocks[i + 1].split("@@END")[0])
    allowed = [re.compile(a) for a in getattr(mod, "AXIOMS_OK", [])]
    ok = 0
    axioms = set()
    for t, ax in per.items():
        bad = [a for a in ax if not any(r.fullmatch(a) for r in allowed)]
        axioms |= ax
        if bad:
            ctx.proof_failures.append({"what": "theorem depends on an axiom outside the property's whitelist",
                                       "theorem": t, "axioms": sorted(bad)})
        else:
            ok += 1
    ctx.discharged = 0 if (rc != 0 or hits) else ok
    ctx.axioms = sorted(axioms)
    if th is not None:
        t_join = time.time()
        th.join()
        ctx.obligations += acc.obligations
        ctx.discharged += acc.discharged
        ctx.proof_failures += acc.proof_failures
        ctx.axioms = sorted(set(ctx.axioms) | set(acc.axioms))
        ctx.trusted_extra += acc.trusted_extra
        ctx.extra.update(acc.extra)
        # wall time added to the check: what the main flow still had to wait for after its own work
        ctx.extra["translated_added_wall_s"] = round(time.time() - t_join, 2)


class _Acc:
    """what translated_obligations produces; merged into the Ctx by proof_obligations"""

    def __init__(self, ctx):
        self.mod, self.work, self._coqc = ctx.mod, ctx.work, ctx._coqc
        self.obligations = self.discharged = 0
        self.proof_failures, self.axioms, self.extra, self.trusted_extra = [], [], {}, []


def _run_translated(acc, build_done):
    try:
        translated_obligations(acc, build_done)
    except Exception as e:      # fail closed, but let the correspondence and the oracle run
        acc.proof_failures.append({"what": "translated obligations crashed: %r" % (e,),
                                   "traceback": traceback.format_exc()[-2000:]})


# --------------------------------------------------------------------------
# second tie between code and model: definitions regenerated from the source on every run
# --------------------------------------------------------------------------
def translated_specs(*modules):
    """TRANSLATED entries of a property module, loaded from coq/theories/GenProofs/specs/<Module>.json
    (one file per generated module, shared by every property that uses the function and by the
    command line of tools/py2coq.py)."""
    return [json.load(open(os.path.join(GENPROOFS, "specs", m + ".json"))) for m in modules]


def _py2coq():
    import importlib.util
    spec = importlib.util.spec_from_file_location("py2coq", os.path.join(VERIF, "tools", "py2coq.py"))
    m = importlib.util.module_from_spec(spec)
    spec.loader.exec_module(m)
    return m


def reference_path(qual):
    return os.path.join(GENPROOFS, "reference", qual + ".py.txt")


def _source_diff(qual, current):
    """unified diff of the function's source against the reference copy the proofs were written for"""
    import difflib
    ref = reference_path(qual)
    if not os.path.exists(ref):
        return "(no reference copy %s)" % ref
    old = open(ref).read()
    if old == current:
        return "(source of %s is identical to the reference copy)" % qual
    return "".join(difflib.unified_diff(old.splitlines(True), current.splitlines(True),
                                        "reference/%s.py.txt" % qual, "%s (current source)" % qual))[:6000]


def translated_obligations(ctx, build_done=None):
    """For every entry of the property module's TRANSLATED list: regenerate the Gallina definitions
    from $VERIF_REPO's source (tools/py2coq.py, fail-closed), compile them, compile the committed proof
    that they equal the hand-written model (coq/theories/GenProofs/<Name>Equiv.v) against them, and
    check the assumptions of the equivalence theorems.  Everything is written to .work/CXX/gen (logical
    path ArtapGen), so concurrent checks with different VERIF_REPO do not interfere.  A failure is a
    proof failure of the check: an edit of a translated function either keeps the equivalence proof
    going (harmless rewrite) or breaks an obligation, independent of any generator."""
    entries = getattr(ctx.mod, "TRANSLATED", None)
    if not entries:
        return
    t0 = time.time()
    gen = os.path.join(ctx.work, "gen")
    os.makedirs(gen, exist_ok=True)
    flags = ["-Q", gen, "ArtapGen"]
    ctx.trusted_extra.append(
        "tools/py2coq*.py (translator; front-ends py2coq, py2coq_bench, py2coq_eff, py2coq_heap, py2coq_run, py2coq_var, py2coq_swarm, py2coq_np): the generated definitions are what the Python source of the translated "
        "functions means under the translator's stated assumptions (notes/TRANSLATOR.md: float `/` is `div`, no "
        "operator overloading, attribute reads are plain reads, numeric literals by name, markers as integers); "
        "they are proved equal to the hand-written model on every run, and the model is compared with the running "
        "code by the correspondence")
    allowed = [re.compile(a) for a in getattr(ctx.mod, "AXIOMS_OK", [])]
    record = []
    ctx.extra["translated_functions"] = record
    try:
        py2coq = _py2coq()
    except Exception as e:
        ctx.obligations += sum(len(en["theorems"]) for en in entries)
        ctx.proof_failures.append({"what": "translator tools/py2coq.py cannot be loaded: %r" % (e,)})
        return
    shutil.copy(os.path.join(GENPROOFS, "GenTactics.v"), os.path.join(gen, "GenTactics.v"))
    jobs = []           # (entry, info, generated path or None)
    hits = _scan_text("GenProofs/GenTactics.v", open(os.path.join(GENPROOFS, "GenTactics.v")).read())
    for en in entries:
        ctx.obligations += len(en["theorems"])
        names = ", ".join((it[0] + "." if it[0] else "") + it[1] for it in en["functions"])
        try:
            text, info = py2coq.translate_spec(REPO, en)
        except Exception as e:  # Unsupported, SyntaxError, missing file ...: fail closed
            info = []
            try:
                info = py2coq.function_infos(REPO, en)
            except Exception:
                pass
            ctx.proof_failures.append({
                "what": "source of %s no longer translates (%s): the translated definition can no longer be shown "
                        "equal to the model %s" % (names, e, en.get("model", "")),
                "theorem": ", ".join(en["theorems"]), "translator_error": str(e),
                "source_diff": {i["function"]: _source_diff(i["function"], i["source"]) for i in info}})
            record.append({"module": en["module"], "source": en["source"], "functions": names, "status": "does not translate",
                           "sha1": {i["function"]: i["sha1"] for i in info}})
            continue
        path = os.path.join(gen, en["module"] + ".v")
        open(path, "w").write(text)
        hits += _scan_text(path, text)
        eq_src = os.path.join(COQ, "theories", en["equiv"])
        eq_dst = os.path.join(gen, os.path.basename(en["equiv"]))
        shutil.copy(eq_src, eq_dst)
        hits += _scan_text(en["equiv"], open(eq_src).read())
        jobs.append((en, info, path, eq_dst))
    if hits:
        ctx.proof_failures.append({"what": "forbidden vernacular in the generated definitions / GenProofs", "hits": hits[:20]})
    # stage 1: GenTactics and the generated files; stage 2: equivalence files; stage 3: assumptions
    with ThreadPoolExecutor(NCPU) as ex:
        r1 = list(ex.map(lambda pth: ctx._coqc(pth, 300, flags), [os.path.join(gen, "GenTactics.v")] + [j[2] for j in jobs]))
    tact_ok = r1[0][0] == 0
    if not tact_ok:
        ctx.proof_failures.append({"what": "GenProofs/GenTactics.v does not compile", "stderr": r1[0][2][-1500:]})
    t_wait = time.time()
    if build_done is not None:
        build_done.wait()
    t_wait = time.time() - t_wait
    stage2 = []
    for (en, info, path, eq_dst), (rc, out, err) in zip(jobs, r1[1:]):
        if rc != 0:
            ctx.proof_failures.append({
                "what": "the definition translated from %s does not type-check in Coq" % en["source"],
                "theorem": ", ".join(en["theorems"]), "file": path, "stderr": err[-1500:],
                "source_diff": {i["function"]: _source_diff(i["function"], i["source"]) for i in info}})
            record.append({"module": en["module"], "source": en["source"], "status": "generated file does not compile",
                           "sha1": {i["function"]: i["sha1"] for i in info}})
        elif tact_ok:
            stage2.append((en, info, path, eq_dst))
    with ThreadPoolExecutor(NCPU) as ex:
        r2 = list(ex.map(lambda j: ctx._coqc(j[3], 600, flags), stage2))
    stage3 = []
    for (en, info, path, eq_dst), (rc, out, err) in zip(stage2, r2):
        changed = [i["function"] for i in info if not os.path.exists(reference_path(i["function"]))
                   or open(reference_path(i["function"])).read() != i["source"]]
        if rc != 0:
            ctx.proof_failures.append({
                "what": "the definition translated from the current source of %s no longer equals the model %s "
                        "(equivalence proof %s fails)" % (", ".join(i["function"] for i in info), en.get("model", ""), en["equiv"]),
                "theorem": ", ".join(en["theorems"]), "generated": path, "stderr": err[-1500:],
                "source_diff": {i["function"]: _source_diff(i["function"], i["source"]) for i in info}})
            record.append({"module": en["module"], "source": en["source"], "status": "equivalence proof fails",
                           "sha1": {i["function"]: i["sha1"] for i in info}, "changed_since_reference": changed})
        else:
            stage3.append((en, info, path, eq_dst, changed))

    def assumptions(j):
        en = j[0]
        modname = "ArtapGen." + os.path.splitext(os.path.basename(en["equiv"]))[0]
        p3 = os.path.join(gen, "assume_%s.v" % en["module"])
        with open(p3, "w") as f:
            f.write("Require %s.\n" % modname)
            for t in en["theorems"]:
                f.write('Goal True. idtac "@@BEGIN %s". exact I. Qed.\nPrint Assumptions %s.%s.\n' % (t, modname, t))
            f.write('Goal True. idtac "@@END". exact I. Qed.\n')
        return ctx._coqc(p3, 300, flags)
    with ThreadPoolExecutor(NCPU) as ex:
        r3 = list(ex.map(assumptions, stage3))
    for (en, info, path, eq_dst, changed), (rc, out, err) in zip(stage3, r3):
        per = {}
        if rc == 0:
            blocks = re.split(r"@@BEGIN (\S+)", out)
            for i in range(1, len(blocks) - 1, 2):
                per[blocks[i]] = _parse_axioms(blocks[i + 1].split("@@END")[0])
        ok = 0
        for t in en["theorems"]:
            if t not in per:
                ctx.proof_failures.append({"what": "equivalence theorem missing from %s" % en["equiv"], "theorem": t,
                                           "stderr": err[-800:]})
                continue
            # the binary64 instance of a generated definition mentions the primitive float type and
            # operations (declared by Coq, listed by Print Assumptions): whitelisted per entry
            allowed_t = allowed + [re.compile(a) for a in en.get("axioms_ok", [])]
            bad = [a for a in per[t] if not any(r.fullmatch(a) for r in allowed_t)]
            ctx.axioms = sorted(set(ctx.axioms) | per[t])
            if bad:
                ctx.proof_failures.append({"what": "equivalence theorem depends on an axiom outside the property's whitelist",
                                           "theorem": t, "axioms": sorted(bad)})
            else:
                ok += 1
        if not hits:
            ctx.discharged += ok
        record.append({"module": en["module"], "source": en["source"], "equiv": en["equiv"], "theorems": en["theorems"],
                       "model": en.get("model", ""), "status": "proved equal to the model" if ok == len(en["theorems"]) else "failed",
                       "sha1": {i["function"]: i["sha1"] for i in info},
                       "changed_since_reference": changed})
    ctx.extra["translated_s"] = round(time.time() - t0 - t_wait, 2)


def _parse_axioms(text):
    if "Closed under the global context" in text and "Axioms:" not in text:
        return set()
    ax = set()
    for m in re.finditer(r"^([A-Za-z_][\w.']*)\s*:(?!=)", text, re.M):
        if m.group(1) not in ("Axioms",):
            ax.add(m.group(1).split(".")[-1] if False else m.group(1))
    return ax


# --------------------------------------------------------------------------
# known findings, reporting, evidence
# --------------------------------------------------------------------------
def EVIDENCE_DIR():
    """/verif/evidence, unless VERIF_NO_EVIDENCE=1 (regression runs against patched trees must not overwrite the
    evidence of the real tree): then the evidence of the run goes next to its scratch files."""
    if os.environ.get("VERIF_NO_EVIDENCE") and os.environ.get("VERIF_WORK"):
        return os.path.join(os.environ["VERIF_WORK"], "evidence")
    return os.path.join(VERIF, "evidence")


def known_findings(prop):
    path = os.path.join(VERIF, "KNOWN_FINDINGS.json")
    if not os.path.exists(path):
        return []
    return [f for f in json.load(open(path))["findings"] if f["property"] == prop]


def _matches(entry, failure):
    m = entry.get("match", {})
    fm = failure.get("match", {})
    return bool(m) and all(fm.get(k) == v for k, v in m.items())


def write_evidence(ctx, violations):
    mod = ctx.mod
    cov = {
        "obligations": ctx.obligations,
        "discharged": ctx.discharged,
        "checker_cmd": "make -C /verif/coq (coqc 8.16.1, full .vo build) && coqc Print Assumptions on %s" % ", ".join(mod.THEOREMS),
        "trusted_base": list(getattr(mod, "TRUSTED", [])) + list(ctx.trusted_extra) + ["axioms reported by Print Assumptions: " + (", ".join(ctx.axioms) if ctx.axioms else "none (closed under the global context)")],
        "theorems": [t for ts in mod.THEOREMS.values() for t in ts]
                    + [t for en in (getattr(mod, "TRANSLATED", None) or []) for t in en["theorems"]],
        "evaluations": ctx.evaluations,
        "distinct_nontrivial": len(ctx.distinct),
        "rule": ctx.rule,
        "samples": ctx.samples,
        "correspondence_mismatches": len(ctx.mismatches),
        "oracle_failures": len(ctx.oracle_failures),
        "coq_shards": ctx.shards,
        "coq_eval_s": round(ctx.coq_time, 2),
    }
    cov.update(ctx.extra)
    ev = {
        "property_id": ctx.prop, "tier": ctx.tier, "seed": ctx.seed, "level": "proof",
        "coverage": cov,
        "assumptions": list(getattr(mod, "ASSUMPTIONS", [])) + ctx.notes,
        "wall_s": round(time.time() - ctx.t0, 2),
        "violations": violations,
    }
    os.makedirs(EVIDENCE_DIR(), exist_ok=True)
    with open(os.path.join(EVIDENCE_DIR(), "%s.json" % ctx.prop), "w") as f:
        json.dump(ev, f, indent=1, default=str)


def report(ctx):
    """Apply the VIOLATION / KNOWN-FINDING protocol; returns the exit code."""
    known = [k for k in known_findings(ctx.prop) if k.get("status") == "open"]
    violations = 0
    rdir = os.path.join(EVIDENCE_DIR(), "replays")
    os.makedirs(rdir, exist_ok=True)
    lines = []
    unlisted = []
    seen_known = set()
    for fail in ctx.oracle_failures:
        hit = next((k for k in known if _matches(k, fail)), None)
        if hit is not None:
            key = json.dumps(hit.get("match"), sort_keys=True)
            if key not in seen_known:
                seen_known.add(key)
                lines.append("KNOWN-FINDING: property=%s %s" % (ctx.prop, hit["what"]))
        else:
            unlisted.append(fail)
    broken = bool(ctx.mismatches or ctx.proof_failures)
    # correspondence failures that are explained by a known finding (marked by the module) do not count
    unexplained = [m for m in ctx.mismatches if not m.get("explained_by_known")]
    if unlisted:
        violations = len(unlisted)
        path = os.path.join(rdir, "%s_%s_seed%d.json" % (ctx.prop, ctx.tier, ctx.seed))
        json.dump({"property": ctx.prop, "kind": "failing-input",
                   "failing_inputs": unlisted[:10],
                   "correspondence_mismatches": ctx.mismatches[:10],
                   "proof_failures": ctx.proof_failures[:10],
                   "replay_cmd": "cd /verif && ./check %s --replay %s" % (ctx.prop, path)},
                  open(path, "w"), indent=1, default=str)
        lines.append("VIOLATION property=%s replay=%s" % (ctx.prop, path))
    elif unexplained or ctx.proof_failures:
        violations = len(unexplained) + len(ctx.proof_failures)
        path = os.path.join(rdir, "%s_%s_seed%d.json" % (ctx.prop, ctx.tier, ctx.seed))
        json.dump({"property": ctx.prop, "kind": "no-failing-input-found",
                   "no_longer_checks": [m.get("what", "") + ((" [" + str(m.get("correspondence", m.get("theorem", ""))) + "]")) for m in (ctx.proof_failures + unexplained)[:10]],
                   "correspondence_mismatches": unexplained[:10],
                   "proof_failures": ctx.proof_failures[:10],
                   "replay_cmd": "cd /verif && ./check %s --replay %s" % (ctx.prop, path)},
                  open(path, "w"), indent=1, default=str)
        lines.append("VIOLATION property=%s replay=%s no-failing-input-found" % (ctx.prop, path))
    write_evidence(ctx, violations)
    for l in lines:
        print(l)
    print("%s %s: obligations %d/%d, %d cases (%d distinct non-trivial), %d correspondence mismatches, %d oracle failures, %.1fs"
          % (ctx.prop, ctx.tier, ctx.discharged, ctx.obligations, ctx.evaluations, len(ctx.distinct),
             len(ctx.mismatches), len(ctx.oracle_failures), time.time() - ctx.t0))
    return 1 if violations else 0


def main(mod, argv):
    import argparse
    ap = argparse.ArgumentParser()
    ap.add_argument("--tier", default=os.environ.get("VERIF_TIER", "quick"))
    ap.add_argument("--replay", default=None)
    ap.add_argument("--seed", type=int, default=int(os.environ.get("VERIF_SEED", "0") or 0))
    a = ap.parse_args(argv)
    tier = "thorough" if a.tier.startswith("t") else "quick"
    ctx = Ctx(mod, tier, a.seed)
    if a.replay:
        data = json.load(open(a.replay))
        if hasattr(mod, "replay"):
            return mod.replay(ctx, data)
        print(json.dumps(data, indent=1)[:4000])
        return 0
    if os.environ.get("VERIF_OPT_CHILD"):
        return _opt_child_main(ctx)
    child = _spawn_opt_child(ctx)
    try:
        proof_obligations(ctx)
    except Exception as e:  # a crashing harness must not look like a pass
        ctx.mismatches.append({"what": "check crashed: %r" % (e,), "traceback": traceback.format_exc()[-3000:]})
    _run_confirmed(ctx)
    _join_opt_child(ctx, child)
    return report(ctx)


def _run_confirmed(ctx):
    """mod.run(ctx); a module whose cases depend on process timing (C11: writers killed at timed points, lock holders,
    watchdogs) sets RERUN_TO_CONFIRM: when its pass reports failures, the identical pass (same seed, same cases) is run
    a second time and the failures count only if the second pass fails too.  A change of artap that breaks the property
    fails both passes; a timing artefact of the harness does not repeat.  What the first pass reported is kept in the
    evidence (`assumptions`) either way."""
    mod = ctx.mod

    def once():
        try:
            mod.run(ctx)
        except Exception as e:  # a crashing harness must not look like a pass
            ctx.mismatches.append({"what": "check crashed: %r" % (e,), "traceback": traceback.format_exc()[-3000:]})

    n_m0, n_o0 = len(ctx.mismatches), len(ctx.oracle_failures)
    once()
    if not getattr(mod, "RERUN_TO_CONFIRM", False):
        return
    first_m, first_o = ctx.mismatches[n_m0:], ctx.oracle_failures[n_o0:]
    if not first_m and not first_o:
        return
    summary = "; ".join(sorted({str(x.get("what", x))[:160] for x in (first_m + first_o) if isinstance(x, dict)})[:5])
    del ctx.mismatches[n_m0:]
    del ctx.oracle_failures[n_o0:]
    ctx.rng = random.Random((ctx.seed * 1000003) ^ int(hashlib.sha1(ctx.prop.encode()).hexdigest()[:8], 16))
    once()
    again = len(ctx.mismatches) - n_m0 + len(ctx.oracle_failures) - n_o0
    ctx.notes.append("the first pass reported %d correspondence mismatches and %d oracle failures (%s); the identical pass was "
                     "repeated to confirm them: %s" % (len(first_m), len(first_o), summary,
                                                       "it failed again (%d entries), reported" % again if again
                                                       else "it was clean, so they are taken for timing artefacts of the harness"))


# -- second pass under `python -O` ------------------------------------------------------------------------------
# The correspondence and the direct oracle of every check run a second time in a child interpreter started with -O
# (PYTHONOPTIMIZE=1), concurrently with the main pass: `assert` statements and `if __debug__:` blocks of artap are
# compiled away there, so behaviour that hides in an assert (a state update written inside a sanity check) shows up
# as an ordinary failing input.  The child skips the proof obligations (they do not depend on the interpreter),
# writes its failures to a file, and the parent merges them (tagged with the environment) before reporting.
_OPT_CODE = ("import sys; from harness import core; import importlib; "
             "m = importlib.import_module('harness.%s'); sys.exit(core.main(m, sys.argv[1:]))")


def _spawn_opt_child(ctx):
    if os.environ.get("VERIF_NO_OPT_PASS") or not getattr(ctx.mod, "OPT_PASS", True):
        return None
    cwork = ctx.work.rstrip("/") + "_optO"
    shutil.rmtree(cwork, ignore_errors=True)
    os.makedirs(cwork, exist_ok=True)
    env = dict(os.environ, VERIF_OPT_CHILD="1", VERIF_WORK=cwork, VERIF_NO_EVIDENCE="1", PYTHONOPTIMIZE="1")
    log = open(os.path.join(cwork, "child.log"), "w")
    cmd = [sys.executable, "-O", "-c", _OPT_CODE % ctx.mod.__name__.split(".")[-1],
           "--tier", ctx.tier, "--seed", str(ctx.seed)]
    try:
        proc = subprocess.Popen(cmd, env=env, cwd=VERIF, stdout=log, stderr=subprocess.STDOUT)
    except OSError as e:
        ctx.notes.append("second pass under python -O could not be started: %r" % (e,))
        return None
    return proc, cwork, log


def _opt_child_main(ctx):
    res = {"crashed": None}
    try:
        rc, log = build(only=targets_of(ctx.mod))     # waits for / shares the parent's locked incremental build
    except Exception as e:
        res["crashed"] = "%r\n%s" % (e, traceback.format_exc()[-3000:])
    _run_confirmed(ctx)
    res.update({"mismatches": ctx.mismatches[:200], "oracle_failures": ctx.oracle_failures[:500],
                "n_mismatches": len(ctx.mismatches), "n_oracle_failures": len(ctx.oracle_failures),
                "evaluations": ctx.evaluations, "distinct": len(ctx.distinct), "seconds": time.time() - ctx.t0,
                "skipped": ctx.extra.get("python_O_skipped"), "notes": [n for n in ctx.notes if "repeated to confirm" in n]})
    with open(os.path.join(os.environ["VERIF_WORK"], "result.json"), "w") as f:
        json.dump(res, f, default=str)
    return 0


def _join_opt_child(ctx, child):
    if child is None:
        return
    proc, cwork, log = child
    env_tag = "python -O (PYTHONOPTIMIZE=1: assert statements and __debug__ blocks compiled away)"
    try:
        proc.wait(timeout=max(1800, 3 * (time.time() - ctx.t0)))
    except subprocess.TimeoutExpired:
        proc.kill()
        ctx.notes.append("second pass under python -O did not finish in time and was dropped")
        log.close()
        shutil.rmtree(cwork, ignore_errors=True)
        return
    log.close()
    try:
        res = json.load(open(os.path.join(cwork, "result.json")))
    except Exception:
        tail = open(os.path.join(cwork, "child.log")).read()[-2000:]
        ctx.mismatches.append({"what": "the pass under python -O crashed before writing its result", "environment": env_tag,
                               "log": tail})
        shutil.rmtree(cwork, ignore_errors=True)
        return
    if res.get("crashed"):
        ctx.mismatches.append({"what": "the pass under python -O crashed", "environment": env_tag, "traceback": res["crashed"]})
    for m in res.get("mismatches", []):
        if isinstance(m, dict):
            m["environment"] = env_tag
        ctx.mismatches.append(m)
    for f in res.get("oracle_failures", []):
        if isinstance(f, dict):
            f["environment"] = env_tag
        ctx.oracle_failures.append(f)
    ctx.evaluations += int(res.get("evaluations", 0))
    ctx.extra["python_O_pass"] = {"cases": res.get("evaluations"), "distinct": res.get("distinct"),
                                  "correspondence_mismatches": res.get("n_mismatches"),
                                  "oracle_failures": res.get("n_oracle_failures"), "seconds": round(res.get("seconds", 0), 1)}
    if res.get("skipped"):
        ctx.extra["python_O_pass"]["skipped"] = res["skipped"]
    for n in res.get("notes") or []:
        ctx.notes.append("[python -O pass] " + n)
    ctx.notes.append("the correspondence and the direct oracle also ran in a second interpreter under %s: %s cases, "
                     "%s correspondence mismatches, %s oracle failures" % (env_tag, res.get("evaluations"),
                                                                           res.get("n_mismatches"), res.get("n_oracle_failures")))
    shutil.rmtree(cwork, ignore_errors=True)
