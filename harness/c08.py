"""C08 - variation, sampling and search never leave the declared parameter box.

Correspondence with Model/Variation.v (+ Model/VariationRun.v) and direct oracle.

Operator level   PmMutator / UniformMutator / NonUniformMutation .mutate, SimulatedBinaryCrossover.cross and the
                 three swarm update_position methods are run on generated boxes / parents (in every representation
                 of a real vector: floats, numpy floats, float ndarray, Python / numpy ints, integer ndarray) with the module
                 `random` of artap.operators and `Operator.clip` replaced by recording wrappers.  The recorded
                 tape (every draw, every first argument of clip, in call order) is the oracle input of the model;
                 the children are compared bit for bit.
Generators       RandomGenerator.generate (VectorAndNumbers.gen_vector / gen_number) with the uniform draws
                 scripted; the exact-rational model is compared under 4 ulp (+ one precision step where the
                 float quotient is within rounding error of a tie).  The DoE generators (full factorial,
                 Plackett-Burman, Box-Behnken, LHS, Halton, uniform grid) are run through their Generator
                 wrappers and checked by the direct oracle (and by the level / unit-interval model).
Run level        NSGAII, EpsMOEA, OMOPSO, SMPSO, PSOGA short runs with every vector the objective sees logged;
                 direct oracle = box membership of each; correspondence = the generation-step model replayed on
                 the recorded selections / tapes / velocities / re-rolls reproduces the evaluated vectors.
"""
import json
import math
import os
from fractions import Fraction

from harness.core import fl, zl, nl, bl, ql, ll, pl, optl, FLOAT_AXIOMS

PROP = "C08"
THEOREMS = {"Artap.Props.C08": [
    "C08_clip_in_box", "C08_pm_in_box", "C08_uniform_in_box", "C08_nonuniform_in_box", "C08_sbx_in_box",
    "C08_mutation_in_box_outer", "C08_sbx_in_box_outer", "C08_position_in_box",
    "C08_two_level_in_box", "C08_three_level_in_box",
    "C08_step_in_box_nsga2", "C08_step_in_box_epsmoea", "C08_step_in_box_omopso", "C08_step_in_box_smpso", "C08_step_in_box_psoga",
    "C08_run_in_box_nsga2", "C08_run_in_box_epsmoea", "C08_run_in_box_omopso", "C08_run_in_box_smpso", "C08_run_in_box_psoga",
    "C08_gen_number_in_box", "C08_gen_vector_in_box", "C08_scaled_design_in_box", "C08_uniform_grid_in_box",
    "C08_three_level_mid_in_box",
    "C08_run_nsga2_designs_in_box", "C08_run_epsmoea_designs_in_box", "C08_run_omopso_designs_in_box",
    "C08_run_smpso_designs_in_box", "C08_run_psoga_designs_in_box",
    "C08_float_clip_in_box", "C08_float_sbx_in_box", "C08_float_run_in_box_nsga2", "C08_float_run_in_box_psoga"]}
AXIOMS_OK = FLOAT_AXIOMS
# second tie to the code (tools/py2coq.py + coq/theories/GenProofs): the source of Operator.clip and of VectorAndNumbers.gen_number (uniform / real branch) is translated on every run and proved equal to Model/Variation.v clip / gen_number
from harness.core import translated_specs
TRANSLATED = translated_specs("ClipGen", "GenNumberGen", "VariationGen", "GenNumberIntGen")
TRUSTED = [
    "Coq 8.16.1 kernel, vm_compute for model evaluation (no native_compute)",
    "FloatAxioms.ltb_spec / eqb_spec and the primitive float operations (standard library) for the float order instance",
    "hand-written model Model/Variation.v tied to operators.py / utils.py / algorithm_swarm.py by this correspondence run",
    "the pre-clip value of a mutated / crossed coordinate (float formula with pow) and every random draw are oracle tapes "
    "recorded from the implementation; the theorems hold for every tape",
]
ASSUMPTIONS = [
    "bounds, parents, draws and pre-clip values are non-NaN binary64 floats (Python min/max on NaN differ from the model's order; "
    "NaN is never fed and an implementation-produced NaN is reported by the direct oracle)",
    "lb <= ub for every parameter; ub - lb finite (no overflow of the range)",
    "real-valued parameters (parameter_type 'integer' truncates after rounding and is outside the property)",
    "design vectors are lists (of Python / numpy floats or ints) or float ndarrays for every operator, and also integer ndarrays for "
    "SBX and the three mutators (ints are embedded exactly). The swarm position update is NOT claimed for a particle whose position is "
    "an integer ndarray: update_position works in place on individual.vector and numpy truncates x + v and the reset to a non-integer "
    "bound ([1,-1] + [-0.3,0.2] in the box [0.5,4.5] x [-3.5,-0.5] gives [0,0]); no shipped path creates such a position (it needs a "
    "user-written generator object returning integer arrays); the combination is run and counted, not judged (lead's ruling, round 3)",
]

HEADER = ("From Artap Require Import Run.C08Run.\nFrom Coq Require Import List ZArith QArith Floats.\nImport ListNotations.\n"
          "Open Scope float_scope.\n")

EPS = 2.0 ** -52
TOL_DEFAULT = 1e-12
POSITION_INT_NDARRAY_IN_DOMAIN = False     # see position_case and ASSUMPTIONS: update_position on an integer-ndarray position


# --------------------------------------------------------------------------------------------------------------
# recording shims
# --------------------------------------------------------------------------------------------------------------
class RandShim:
    """Stands in for the module `random` inside artap.operators: random()/uniform(0,1) are recorded (and
    scripted when a source is installed); everything else goes to the real module."""

    def __init__(self, real, tape):
        self._real = real
        self._tape = tape
        self.source = None          # callable returning the next draw in [0,1), or None = real generator

    def _next(self):
        v = self._real.random() if self.source is None else self.source()
        self._tape.append(("D", v))
        return v

    def random(self):
        return self._next()

    def uniform(self, a, b):
        return a + (b - a) * self._next()        # CPython's Random.uniform

    def __getattr__(self, name):
        return getattr(self._real, name)


class Recorder:
    """Installs the random shim and the clip wrapper in artap.operators; `tape` is shared and in call order."""

    def __init__(self, ops):
        self.ops = ops
        self.tape = []
        self.clips = []
        self.real_random = ops.random
        self.shim = RandShim(ops.random, self.tape)
        self.orig_clip = ops.Operator.__dict__["clip"]

    def __enter__(self):
        ops = self.ops
        orig = ops.Operator.clip
        tape, clips = self.tape, self.clips

        def clip(value, min_value, max_value):
            r = orig(value, min_value, max_value)
            tape.append(("P", value))
            clips.append((value, min_value, max_value, r))
            return r

        ops.random = self.shim
        ops.Operator.clip = staticmethod(clip)
        return self

    def __exit__(self, *a):
        self.ops.random = self.real_random
        self.ops.Operator.clip = self.orig_clip
        return False

    def cut(self):
        """returns the tape recorded since the last cut"""
        t = list(self.tape)
        del self.tape[:]
        del self.clips[:]
        return t


def is_real(x):
    """a real number in any representation the operators hand back: int, float, numpy integer / floating scalar
    (numbers.Real covers them; bool, numpy.bool_ and complex are not real-valued coordinates)"""
    import numbers
    return isinstance(x, numbers.Real) and not isinstance(x, bool)


def bad_number(x):
    return (not is_real(x)) or (isinstance(x, float) and (math.isnan(x)))


def enc_tape(tape):
    return ll(tape, lambda e: ("Draw %s" if e[0] == "D" else "Pre %s") % fl(e[1]))


def enc_params(params):
    return ll(params, lambda p: pl(fl(p[0]), fl(p[1])))


def ulp_of(*xs):
    return math.ulp(max(abs(float(x)) for x in xs))


def tol_of(lb, ub, precision=None, exact=False):
    """the property's slack: 1e-12 (no declared precision) or precision/2, plus 4 ulp of the larger bound for designs that
    come out of a float formula (gen_number, scaled designs).  exact=True: results of clip / of the swarm reset, which are
    the bound itself or a value compared with it - the slack is the property's 1e-12 and nothing else (red-team round 3:
    a child 2e-10 above ub = 0.7 in the box [-2.5e6, 0.7] is hidden by 4 ulp(2.5e6) = 1.9e-9)"""
    base = TOL_DEFAULT if not precision else precision / 2.0
    if exact:
        return Fraction(base)
    return Fraction(base) + 4 * Fraction(ulp_of(lb, ub))


def outside(x, lb, ub, precision=None, exact=False):
    """None when x is in the box up to the property's slack, else a description"""
    if bad_number(x):
        return "not a real number: %r" % (x,)
    if isinstance(x, float) and math.isinf(x):
        return "infinite"
    t = tol_of(lb, ub, precision, exact)
    X = Fraction(float(x)) if not isinstance(x, int) else Fraction(int(x))
    if X < Fraction(lb) - t:
        return "below the lower bound %r by %.3g" % (lb, float(Fraction(lb) - X))
    if X > Fraction(ub) + t:
        return "above the upper bound %r by %.3g" % (ub, float(X - Fraction(ub)))
    return None


# --------------------------------------------------------------------------------------------------------------
# generators of boxes, parents, draws
# --------------------------------------------------------------------------------------------------------------
ASYM_BOXES = [(-2.5e6, 0.7), (-1e9, 1e-3), (-1e6, 0.3), (-1e9, 12.34), (-0.7, 2.5e6), (-1e-3, 1e9), (-12.34, 1e9), (-3e15, 0.1),
              (1e-3, 1e9), (-1e9, -1e-3), (-4.7e5, 1.1e-5)]
ZERO_SIDE_BOXES = [(0.5, 4.5), (0.1, 3.9), (0.25, 100.75), (-3.5, -0.5), (-7.5, -2.25), (0.7, 9.2), (-6.4, -0.3), (2.5, 8.5)]
NONINT_BOXES = [(0.5, 4.5), (-3.5, -0.5), (-2.25, 7.75), (0.1, 3.9), (-0.9, 0.9), (1.5, 2.5), (-7.5, -2.25), (0.25, 100.75)]


def gen_box(rng, allow_zero_width=True):
    k = rng.random()
    if k < 0.10:
        return (0.0, 1.0)
    if k < 0.18:
        return rng.choice(ASYM_BOXES)        # |lb| >> |ub| or |ub| >> |lb|: lb + (ub - lb) is rounded at the magnitude of the larger
    if k < 0.26:
        return (-5.0, 5.0)
    if k < 0.32:
        return rng.choice(NONINT_BOXES)      # non-integer bounds (whole-number parents live strictly inside)
    if k < 0.42:
        return (-7.5, -2.25)
    if k < 0.50:
        lb = rng.choice([0.0, 1e-9, -1e-9, 1.0, -3.0])
        return (lb, lb + rng.choice([1e-12, 1e-15, 5e-11, math.ulp(lb) * 3 if lb else 1e-300]))     # tiny range
    if k < 0.58:
        return rng.choice([(-1e300, 1e300), (1e6, 1e12), (-1e150, 2e150), (1e15, 1e15 + 4.0), (-1e18, -1e18 + 4096.0)])   # huge
    if k < 0.64:
        return rng.choice([(0, 5), (-3, 3), (1, 2), (-10, -1)])                                  # integer-typed bounds
    if k < 0.68 and allow_zero_width:
        v = rng.choice([0.0, 2.0, -1.5])
        return (v, v)                                                                            # lb = ub
    lb = rng.choice([-1, 1]) * 10.0 ** rng.uniform(-3, 3) * rng.random()
    return (lb, lb + 10.0 ** rng.uniform(-3, 3) * (0.01 + rng.random()))


def gen_coord(rng, lb, ub, slack=True):
    lb, ub = float(lb), float(ub)
    k = rng.random()
    if k < 0.14:
        return lb
    if k < 0.28:
        return ub
    if k < 0.36:
        return min(ub, math.nextafter(lb, math.inf))
    if k < 0.44:
        return max(lb, math.nextafter(ub, -math.inf))
    if k < 0.50:
        m = lb / 2 + ub / 2
        return min(ub, max(lb, m))
    if k < 0.54 and slack and ub - lb >= 1e-9 and abs(lb) < 1e3 and abs(ub) < 1e3:
        return rng.choice([lb - 4e-13, ub + 4e-13])          # inside the generators' rounding slack
    x = lb + rng.random() * (ub - lb)
    return min(ub, max(lb, x))


def gen_second_parent(rng, p, box):
    q = []
    for x, (lb, ub) in zip(p, box):
        lb, ub = float(lb), float(ub)
        k = rng.random()
        if k < 0.15:
            y = x                                   # coincident
        elif k < 0.30:
            y = math.nextafter(x, rng.choice([-math.inf, math.inf]))   # 1 ulp apart
        elif k < 0.42:
            y = x + rng.choice([1e-16, -1e-16, 2.2e-16, -2.2e-16, 2.3e-16, 3e-16, -3e-16, EPS, -EPS])   # around EPSILON
        else:
            y = gen_coord(rng, lb, ub)
        if not (lb - 4e-13 <= y <= ub + 4e-13):
            y = min(ub, max(lb, y))
        q.append(y)
    return q


SPECIAL_DRAWS = [0.0, 0.5, math.nextafter(0.5, 1.0), math.nextafter(0.5, 0.0), 1.0 - 2.0 ** -53, 2.0 ** -53, 1e-300, 0.25, 0.75]


def draw_source(rng, prob):
    extra = [p for p in (prob, math.nextafter(prob, 0.0), math.nextafter(prob, 2.0)) if 0.0 <= p < 1.0]
    mode = rng.random()

    def src():
        k = rng.random()
        if mode < 0.25:                 # mostly-low draws: most coordinates are varied
            return rng.random() * 0.5 if k < 0.8 else rng.choice(SPECIAL_DRAWS + extra)
        if k < 0.22:
            return rng.choice(SPECIAL_DRAWS + extra)
        return rng.random()
    return src


WORDS = ["width", "height", "depth", "angle", "radius", "length", "mass", "current", "offset", "gap", "turns", "bias"]
NAME_SCHEMES = ["index", "index", "index", "x_1..", "reverse", "words", "shuffled"]


def param_names(rng, d, scheme):
    """d pairwise distinct parameter names.  The box of a parameter is given by its POSITION in the parameter list;
    the names are labels.  Except for 'index' (x0, x1, ... the names of the first version of this check) the
    lexicographic order of the names differs from the declaration order as soon as d >= 2 ('x_10' < 'x_2' needs d >= 10)."""
    if scheme == "x_1..":
        return ["x_%d" % (i + 1) for i in range(d)]
    if scheme == "reverse":
        return ["p%02d" % (d - i) for i in range(d)]
    if scheme == "words":
        return [WORDS[i % len(WORDS)] + ("" if i < len(WORDS) else str(i)) for i in range(d)]
    if scheme == "shuffled":
        names = ["x_%d" % (i + 1) for i in range(d)]
        rng.shuffle(names)
        return names
    return ["x%d" % i for i in range(d)]


def make_params(box, precisions=None, names=None):
    ps = []
    for i, (lb, ub) in enumerate(box):
        p = {"name": names[i] if names else "x%d" % i, "bounds": [lb, ub]}
        if precisions and precisions[i]:
            p["precision"] = precisions[i]
        ps.append(p)
    return ps


CHANGE_MODES = ["rebind", "item", "dict"]


def change_bounds(params, new_box, mode, only=None):
    """changes the declared box IN PLACE on the parameter list every operator / generator / algorithm was given:
    rebind  parameters[i]['bounds'] = [lb, ub]           (a new list object in the same dict)
    item    parameters[i]['bounds'][0] = lb; ...[1] = ub (the same list object)
    dict    parameters[i] = {**parameters[i], 'bounds': [lb, ub]}   (a new dict in the same parameter list)"""
    for i, (lb, ub) in enumerate(new_box):
        if only is not None and i not in only:
            continue
        if mode == "rebind":
            params[i]["bounds"] = [lb, ub]
        elif mode == "item":
            params[i]["bounds"][0] = lb
            params[i]["bounds"][1] = ub
        else:
            q = dict(params[i])
            q["bounds"] = [lb, ub]
            params[i] = q


def moved_interval(rng, lb, ub, how):
    """a tightened / widened / shifted copy of [lb, ub]; None when that is not representable (huge, zero width)"""
    w = ub - lb
    if not (isinstance(w, int) or (math.isfinite(w) and abs(lb) < 1e150 and abs(ub) < 1e150)) or w <= 0:
        return None
    if how == "shift":
        s = rng.choice([2, -2, 3])
        nb = (lb + s * w, ub + s * w)
    elif how == "tighten":
        nb = (lb + w / 4, ub - w / 4)
    elif how == "widen":
        nb = (lb - w, ub + w)
    else:
        nb = (lb + w / 2, ub + w / 2)              # overlapping shift
    if not (nb[0] < nb[1]) or nb[1] - nb[0] < 4e-12 * max(1.0, abs(nb[0]), abs(nb[1])):
        return None
    return nb


class Shared:
    """One parameter list (and the operator / generator objects built on it) used by a whole history of
    operations, as a Problem's parameter list is in artap.  After every call the list is compared with a deep
    copy taken at creation: nothing the property is about may modify the declared box."""

    def __init__(self, rng, box, precisions=None, names=None):
        import copy
        self.box = list(box)
        self.precisions = list(precisions) if precisions else [None] * len(box)
        self.names = list(names) if names else param_names(rng, len(box), rng.choice(NAME_SCHEMES))
        self.params = make_params(box, self.precisions, self.names)
        self.reboxed = 0
        for p in self.params:                      # keys the operators must ignore
            if rng.random() < 0.3:
                p["initial_value"] = rng.choice([0.0, 1.0, -3.5, 1e6])
            if rng.random() < 0.2:
                p["parameter_type"] = "real"
        self.snapshot = copy.deepcopy(self.params)
        self.objects = {}
        self.calls = 0

    def obj(self, key, factory):
        if key not in self.objects:
            self.objects[key] = factory()
        return self.objects[key]

    def rebox(self, new_box, mode):
        """the user changes the declared box in place; the long-lived operator / generator objects stay"""
        import copy
        change_bounds(self.params, new_box, mode)
        self.box = [tuple(b) for b in new_box]
        self.snapshot = copy.deepcopy(self.params)
        self.reboxed += 1

    def check(self, ctx, what, inp):
        self.calls += 1
        if self.params != self.snapshot or any(type(a["bounds"]) is not type(b["bounds"]) or len(a["bounds"]) != len(b["bounds"])
                                               for a, b in zip(self.params, self.snapshot)):
            import copy
            ctx.mismatches.append({"what": "%s modified the shared parameter list (call %d on it): %r became %r" % (
                what, self.calls, self.snapshot, self.params), "case": inp})
            self.snapshot = copy.deepcopy(self.params)


def is_whole(x):
    return isinstance(x, (int, float)) and float(x).is_integer() and abs(x) <= 2 ** 40


INT_NDARRAY = "ndarray of ints"


WHOLE_KINDS = ["list of ints", "list of numpy.int64", "ndarray of ints", "mixed int/float", "mixed numpy.int64/numpy.float64"]


def represent(rng, v, plain=False, whole_kinds=True, prefer_whole=False, force=None):
    """the same vector in every representation the operators accept: a list of floats, a list of numpy.float64, a float
    ndarray and - for coordinates that are whole numbers - Python ints, numpy.int64 scalars, a mix of ints and floats, an
    integer ndarray.  The value of every coordinate is the same real number in all of them (ints are embedded exactly:
    float(3) == 3), so the model, which works on binary64 values, gets float(x) and the result is compared as float(y)."""
    import numpy as np
    v = list(v)
    k = 0.0 if plain else rng.random()
    whole = [is_whole(x) for x in v]
    if (prefer_whole or force) and any(whole) and not plain:
        k = 0.9
    if k < 0.5 or not v:
        return [float(x) for x in v], "list"
    if k < 0.6:
        return [np.float64(x) for x in v], "list of numpy.float64"
    if k < 0.7:
        return np.array([float(x) for x in v], dtype=np.float64), "ndarray"
    if not whole_kinds or not any(whole):
        return [float(x) for x in v], "list"
    if all(whole):
        kind = force or rng.choice(["list of ints", "list of ints", "list of numpy.int64", INT_NDARRAY, "mixed int/float", "mixed numpy.int64/numpy.float64"])
    else:
        kind = rng.choice(["mixed int/float", "mixed numpy.int64/numpy.float64"])
    if kind == "list of ints":
        return [int(x) for x in v], kind
    if kind == "list of numpy.int64":
        return [np.int64(int(x)) for x in v], kind
    if kind == INT_NDARRAY:
        return np.array([int(x) for x in v], dtype=np.int64), kind
    flip = [w and (rng.random() < 0.6) for w in whole]
    if not any(flip):
        flip[whole.index(True)] = True
    if kind == "mixed int/float":
        return [int(x) if f else float(x) for x, f in zip(v, flip)], kind
    return [np.int64(int(x)) if f else np.float64(x) for x, f in zip(v, flip)], kind


def rebuild(v, kind):
    """replay: the stored (float-valued) vector in the representation recorded with the failing input"""
    import numpy as np
    v = list(v)
    if kind == "list of ints":
        return [int(x) for x in v]
    if kind == "list of numpy.int64":
        return [np.int64(int(x)) for x in v]
    if kind == INT_NDARRAY:
        return np.array([int(x) for x in v], dtype=np.int64)
    if kind == "mixed int/float":
        return [int(x) if is_whole(x) else float(x) for x in v]
    if kind == "mixed numpy.int64/numpy.float64":
        return [np.int64(int(x)) if is_whole(x) else np.float64(x) for x in v]
    if kind == "list of numpy.float64":
        return [np.float64(x) for x in v]
    if kind == "ndarray":
        return np.array([float(x) for x in v], dtype=np.float64)
    return [float(x) for x in v]


def plain_numbers(v):
    """JSON-able copy of a result vector (numpy scalars -> Python numbers, anything else -> repr)"""
    out = []
    for x in v:
        if hasattr(x, "item"):
            x = x.item()
        out.append(x if isinstance(x, (int, float)) and not isinstance(x, bool) else repr(x))
    return out


def gen_whole_coord(rng, lb, ub):
    """a whole number inside [lb, ub] when there is one (else an ordinary coordinate)"""
    lo, hi = math.ceil(float(lb)), math.floor(float(ub))
    if lo > hi or abs(lo) > 2 ** 40 or abs(hi) > 2 ** 40:
        return gen_coord(rng, lb, ub, slack=False)
    return float(rng.choice([lo, hi, rng.randint(lo, min(hi, lo + 50)), rng.randint(max(lo, hi - 50), hi)]))


def same_bits(a, b):
    return len(a) == len(b) and all(float(x).hex() == float(y).hex() for x, y in zip(a, b))


# --------------------------------------------------------------------------------------------------------------
def run(ctx):
    import os
    import artap.operators as ops
    import artap.utils as utils
    rng = ctx.rng
    t_start = os.times()
    import time
    t_wall0 = time.time()
    hist = {"op": {}, "dims": {}, "varied_coords": 0, "kept_coords": 0, "pre_outside_box": 0, "child_on_bound": 0,
            "index_error_cases": 0, "sbx_skipped_by_probability": 0, "sbx_coincident_coords": 0,
            "skipped_nan_tape": 0, "skipped_pm_zero_width": 0, "long_parent": 0,
            "position_reset_upper": 0, "position_reset_lower": 0, "position_kept": 0,
            "complex_from_parent_in_rounding_slack": 0, "corpus_cases": 0,
            "representation": {}, "calls_on_reused_objects": 0, "mixed_histories": 0,
            "box_changes_in_place": {}, "calls_after_a_box_change": 0, "name_schemes_unsorted": 0}
    cases, expected, meta = [], [], []

    def in_declared_box(box, v):
        return all(lb <= x <= ub for x, (lb, ub) in zip(v, box))

    def count_op(kind):
        hist["op"][kind] = hist["op"].get(kind, 0) + 1

    def oracle_child(kind, box, child, n_expected, inp, match_kind="out_of_box"):
        """the property on the implementation's own output: real-valued, same dimension, inside the box"""
        if len(child) != n_expected:
            ctx.oracle_failures.append({"what": "%s returns a vector of dimension %d for a parent of dimension %d" % (kind, len(child), n_expected),
                                        "input": inp, "match": {"kind": "dimension", "op": kind}})
            return
        for i, (lb, ub) in enumerate(box):
            if i >= len(child):
                break
            why = outside(child[i], lb, ub, exact=True)
            if why:
                if len(ctx.oracle_failures) < 40:
                    ctx.oracle_failures.append({"what": "%s: coordinate %d of the result = %r is %s (box [%r, %r])" % (kind, i, plain_numbers([child[i]])[0], why, lb, ub),
                                                "input": inp, "observed": plain_numbers(child), "required": "lb <= x <= ub (up to 1e-12)",
                                                "match": {"kind": match_kind, "op": kind} if match_kind == "out_of_box" else {"kind": match_kind}})
                return

    def add_op_case(kind, coq_kind, prob, box, p1, p2, tape, result, inp):
        """result: None (IndexError) or (list, list)"""
        vals = [v for _, v in tape] + list(p1) + list(p2) + ([x for l in result for x in l] if result else [])
        if any(bad_number(v) for v in vals):
            hist["skipped_nan_tape"] += 1          # the direct oracle has already looked at the children
            return
        cases.append("{| o_kind := %s; o_prob := %s; o_params := %s; o_p1 := %s; o_p2 := %s; o_tape := %s |}" % (
            coq_kind, fl(prob), enc_params(box), ll(p1, fl), ll(p2, fl), enc_tape(tape)))
        expected.append("None" if result is None else "(Some %s)" % pl(ll(result[0], fl), ll(result[1], fl)))
        m = dict(inp)
        m["tape"] = [[k, v] for k, v in tape]
        m["result"] = result
        meta.append(m)

    # ---------------------------------------------------------------- mutators
    def mutator_case(kind, box, parent, prob, extra, src, shared=None, plain=False, prefer_whole=False, force=None):
        sh = shared or Shared(rng, box)
        params = sh.params
        if kind == "pm":
            mut = sh.obj(("pm", prob, extra["distribution_index"]), lambda: ops.PmMutator(params, prob, extra["distribution_index"]))
            coq_kind = "OpPm"
            args = ()
        elif kind == "uniform":
            mut = sh.obj(("uniform", prob, extra["perturbation"]), lambda: ops.UniformMutator(params, prob, extra["perturbation"]))
            coq_kind = "(OpUniform %s)" % fl(extra["perturbation"])
            args = ()
        else:
            mut = sh.obj(("nonuniform", prob, extra["max_iterations"], extra["perturbation"]),
                         lambda: ops.NonUniformMutation(params, prob, extra["max_iterations"], extra["perturbation"]))
            coq_kind = "OpNonUniform"
            args = (extra["iteration"],)
        arg, rep_name = represent(rng, parent, plain, prefer_whole=prefer_whole, force=force)
        hist["representation"][rep_name] = hist["representation"].get(rep_name, 0) + 1
        inp = {"op": kind, "box": [list(b) for b in box], "parent": list(parent), "probability": prob, "parent_given_as": rep_name,
               "call_number_on_this_operator_object": sh.calls + 1, "names": list(sh.names),
               "box_changed_in_place_before_this_call": sh.reboxed}
        inp.update(extra)
        with Recorder(ops) as rec:
            rec.shim.source = src
            try:
                child = mut.mutate(arg, *args)
                result = (list(child), [])
            except IndexError:
                result = None
            except Exception as e:
                if isinstance(e, TypeError) and "complex" in str(e) and not in_declared_box(box, parent):
                    hist["complex_from_parent_in_rounding_slack"] += 1      # pow(negative, fraction): precondition (parent in the box) not met
                    return
                ctx.mismatches.append({"what": "%s mutation raised %r" % (kind, e), "case": inp})
                return
            tape = rec.cut()
        inp["draws"] = [v for k, v in tape if k == "D"]
        count_op(kind)
        if not same_bits(arg, parent):
            ctx.mismatches.append({"what": "%s mutation modified the parent vector it was given (%s): %r became %r" % (kind, rep_name, list(parent), [float(x) for x in arg]),
                                   "case": inp})
        sh.check(ctx, "%s mutation" % kind, inp)
        if sh.calls > 1:
            hist["calls_on_reused_objects"] += 1
        if sh.reboxed:
            hist["calls_after_a_box_change"] += 1
        if result is None:
            hist["index_error_cases"] += 1
        else:
            oracle_child(kind + "_mutation", box, result[0], len(box), inp)
            n_pre = sum(1 for k, _ in tape if k == "P")
            hist["varied_coords"] += n_pre
            hist["kept_coords"] += len(box) - n_pre
            j = 0
            pres = [v for k, v in tape if k == "P"]
            varied_idx = []
            # which coordinates were varied: replay the draw pattern
            t = list(tape)
            pos = 0
            kdraws = 2 if kind == "nonuniform" else 1
            for i in range(len(box)):
                if pos >= len(t):
                    break
                u = t[pos][1]
                pos += 1
                if u < prob:
                    varied_idx.append(i)
                    pos += kdraws + 1
            for i, pre in zip(varied_idx, pres):
                lb, ub = box[i]
                if not bad_number(pre) and (pre < lb or pre > ub):
                    hist["pre_outside_box"] += 1
                if result[0][i] in (lb, ub):
                    hist["child_on_bound"] += 1
        ctx.count((kind, tuple(box), tuple(parent), prob, tuple(sorted(extra.items())), tuple(tape)),
                  nontrivial=any(k == "P" for k, _ in tape))
        if len(ctx.samples) < 2 and len(box) == 2 and any(k == "P" for k, _ in tape):
            ctx.sample(dict(inp, tape=[[k, v] for k, v in tape], child=result[0] if result else None))
        add_op_case(kind, coq_kind, prob, box, parent, [], tape, result, inp)

    def gen_mutator_case(kind):
        d = rng.choice([1, 1, 2, 2, 3, 4, 6])
        box = [gen_box(rng, allow_zero_width=(kind != "pm")) for _ in range(d)]
        parent = [gen_coord(rng, lb, ub) for lb, ub in box]
        whole_mode = rng.random() < 0.15           # whole-number parents in boxes with non-integer bounds, given as ints
        if whole_mode:
            box = [rng.choice(NONINT_BOXES + [(0, 5), (-3, 3)] + ASYM_BOXES[:4]) for _ in range(d)]
            parent = [gen_whole_coord(rng, lb, ub) for lb, ub in box]
        r = rng.random()
        if r < 0.04:
            parent = parent[:-1]                    # IndexError
        elif r < 0.08:
            parent = parent + [rng.random()]        # extra coordinates are dropped
            hist["long_parent"] += 1
        prob = rng.choice([0.0, 1.0, 1.0, 0.5, 0.1, 1.0 / d, 0.9, 1.5, -0.1, 0.3])
        if kind == "pm":
            extra = {"distribution_index": rng.choice([0, 1, 5, 15, 20, 20, 50, 100, 0.5, 7.25])}
        elif kind == "uniform":
            extra = {"perturbation": rng.choice([0.5, 0.5, 0.1, 1.0, 10.0, 50.0, 1e3, 1e-3, 1e300, 0.0])}
        else:
            mx = rng.choice([1, 2, 5, 50, 100])
            extra = {"max_iterations": mx, "iteration": rng.choice([0, mx, rng.randint(0, mx), rng.randint(0, mx)]),
                     "perturbation": rng.choice([0.5, 0.5, 1.0, 5.0, 0.1])}
        hist["dims"][str(d)] = hist["dims"].get(str(d), 0) + 1
        mutator_case(kind, box, parent, prob, extra, draw_source(rng, prob), prefer_whole=whole_mode)

    # ---------------------------------------------------------------- SBX
    def sbx_case(box, p1, p2, prob, di, src, shared=None, plain=False, prefer_whole=False, force=(None, None)):
        sh = shared or Shared(rng, box)
        params = sh.params
        a1, rep1 = represent(rng, p1, plain, prefer_whole=prefer_whole, force=force[0])
        a2, rep2 = represent(rng, p2, plain, prefer_whole=prefer_whole, force=force[1])
        if prefer_whole and rep1 != rep2 and rng.random() < 0.6 and force == (None, None):       # mostly both parents in the same representation
            a2, rep2 = represent(rng, p2, plain, prefer_whole=True)
        hist["representation"][rep2] = hist["representation"].get(rep2, 0) + 1
        hist["representation"][rep1] = hist["representation"].get(rep1, 0) + 1
        inp = {"op": "sbx", "box": [list(b) for b in box], "p1": list(p1), "p2": list(p2), "probability": prob, "distribution_index": di,
               "parents_given_as": [rep1, rep2], "call_number_on_this_operator_object": sh.calls + 1, "names": list(sh.names),
               "box_changed_in_place_before_this_call": sh.reboxed}
        cx = sh.obj(("sbx", prob, di), lambda: ops.SimulatedBinaryCrossover(params, prob, di))
        with Recorder(ops) as rec:
            rec.shim.source = src
            try:
                c1, c2 = cx.cross(a1, a2)
                result = (list(c1), list(c2))
            except Exception as e:
                if isinstance(e, TypeError) and "complex" in str(e) and not (in_declared_box(box, p1) and in_declared_box(box, p2)):
                    hist["complex_from_parent_in_rounding_slack"] += 1
                    return
                ctx.mismatches.append({"what": "SBX raised %r" % (e,), "case": inp})
                return
            tape = rec.cut()
        inp["draws"] = [v for k, v in tape if k == "D"]
        count_op("sbx")
        if not (same_bits(a1, p1) and same_bits(a2, p2)):
            ctx.mismatches.append({"what": "SBX modified a parent vector it was given (%s / %s): %r, %r became %r, %r" % (
                rep1, rep2, list(p1), list(p2), [float(x) for x in a1], [float(x) for x in a2]), "case": inp})
        sh.check(ctx, "SBX", inp)
        if sh.calls > 1:
            hist["calls_on_reused_objects"] += 1
        if sh.reboxed:
            hist["calls_after_a_box_change"] += 1
        mk = "sbx_int_ndarray_truncation" if INT_NDARRAY in (rep1, rep2) else "out_of_box"     # F15 (fixed in /repo 2f78bf8)
        oracle_child("sbx child 1", box, result[0], len(p1), inp, mk)
        oracle_child("sbx child 2", box, result[1], len(p2), inp, mk)
        if len(tape) == 1:
            hist["sbx_skipped_by_probability"] += 1
        hist["sbx_coincident_coords"] += sum(1 for a, b in zip(p1, p2) if abs(b - a) <= EPS)
        npre = sum(1 for k, _ in tape if k == "P")
        hist["varied_coords"] += npre // 2
        for k, v in tape:
            if k == "P" and not bad_number(v):
                pass
        ctx.count(("sbx", tuple(box), tuple(p1), tuple(p2), prob, di, tuple(tape)), nontrivial=npre > 0)
        if len(ctx.samples) < 3 and len(box) == 2 and npre:
            ctx.sample(dict(inp, tape=[[k, v] for k, v in tape], children=result))
        add_op_case("sbx", "OpSbx", prob, box, p1, p2, tape, result, inp)

    def gen_sbx_case():
        d = rng.choice([1, 1, 2, 2, 3, 4, 6])
        box = [gen_box(rng) for _ in range(d)]
        p1 = [gen_coord(rng, lb, ub) for lb, ub in box]
        p2 = gen_second_parent(rng, p1, box)
        whole_mode = rng.random() < 0.2             # both parents whole numbers, boxes with non-integer bounds
        if whole_mode:
            box = [rng.choice(NONINT_BOXES + [(0, 5), (-3, 3)] + ASYM_BOXES[:4]) for _ in range(d)]
            p1 = [gen_whole_coord(rng, lb, ub) for lb, ub in box]
            p2 = [gen_whole_coord(rng, lb, ub) if rng.random() < 0.85 else x for x, (lb, ub) in zip(p1, box)]
        if rng.random() < 0.5:
            p1, p2 = p2, p1
        if rng.random() < 0.05:
            e = [rng.random(), rng.random()]
            p1, p2 = p1 + [e[0]], p2 + [e[1]]
            hist["long_parent"] += 1
        prob = rng.choice([1.0, 1.0, 1.0, 0.0, 0.5, 0.6, 0.9])
        di = rng.choice([0, 1, 5, 15, 15, 20, 50, 100, 0.5])
        hist["dims"][str(d)] = hist["dims"].get(str(d), 0) + 1
        sbx_case(box, p1, p2, prob, di, draw_source(rng, prob), prefer_whole=whole_mode)

    # ---------------------------------------------------------------- swarm update_position (one particle)
    from artap.algorithm_swarm import OMOPSO, SMPSO, PSOGA

    class _Holder:
        """update_position only reads self.parameters"""
        def __init__(self, params):
            self.parameters = params

    class _Particle:
        def __init__(self, x, v):
            self.vector = x
            self.features = {"velocity": list(v)}

    def position_case(which, box, x, v, prefer_whole=False, plain=True, force=None):
        cls, coq_kind = {"omopso": (OMOPSO, "OpFlip"), "psoga": (PSOGA, "OpFlip"), "smpso": (SMPSO, "OpDamp")}[which]
        arg, rep_name = represent(rng, x, plain, prefer_whole=prefer_whole, force=force)
        hist["representation"]["position: " + rep_name] = hist["representation"].get("position: " + rep_name, 0) + 1
        part = _Particle(arg, v)
        inp = {"op": "update_position/" + which, "box": [list(b) for b in box], "position": list(x), "velocity": list(v),
               "position_given_as": rep_name}
        out_of_domain = rep_name == INT_NDARRAY and not POSITION_INT_NDARRAY_IN_DOMAIN
        try:
            cls.update_position(_Holder(make_params(box)), [part])
            result = (list(part.vector), list(part.features["velocity"]))
        except IndexError:
            result = None
        except Exception as e:
            if not out_of_domain:
                ctx.mismatches.append({"what": "update_position raised %r" % (e,), "case": inp})
                return
            result = None
        if out_of_domain:
            # outside C08's domain by the lead's ruling (ASSUMPTIONS; notes/C08.md "red-team round 3"): update_position works in
            # place on individual.vector, an integer ndarray truncates x + v and the reset to a non-integer bound; no shipped
            # path creates such a position.  The combination is run and counted, one example is kept in the evidence.
            bucket = hist.setdefault("position_update_on_integer_ndarray_positions_outside_the_domain",
                                     {"calls": 0, "result_outside_the_box": 0, "example": None})
            bucket["calls"] += 1
            if result is not None and any(outside(c, lb, ub, exact=True) for c, (lb, ub) in zip(result[0], box)):
                bucket["result_outside_the_box"] += 1
                if bucket["example"] is None:
                    bucket["example"] = dict(inp, result=plain_numbers(result[0]))
            return
        count_op("position_" + which)
        if result is not None:
            oracle_child("update_position(%s)" % which, box, result[0], len(x), inp)
            for i, (lb, ub) in enumerate(box[:len(x)]):
                s = x[i] + v[i] if i < len(v) else None
                if s is None:
                    continue
                if s > ub:
                    hist["position_reset_upper"] += 1
                elif s < lb:
                    hist["position_reset_lower"] += 1
                else:
                    hist["position_kept"] += 1
        ctx.count(("pos", which, tuple(box), tuple(x), tuple(v)), nontrivial=any(vi != 0 for vi in v))
        add_op_case("position", coq_kind, 0.0, box, x, v, [], result, inp)

    def gen_position_case():
        which = rng.choice(["omopso", "smpso", "psoga"])
        d = rng.choice([1, 2, 2, 3, 4])
        box = [gen_box(rng) for _ in range(d)]
        x = [gen_coord(rng, lb, ub) for lb, ub in box]
        whole_mode = rng.random() < 0.2
        if whole_mode:
            box = [rng.choice(NONINT_BOXES + [(0, 5), (-3, 3)] + ASYM_BOXES[:4]) for _ in range(d)]
            x = [gen_whole_coord(rng, lb, ub) for lb, ub in box]
        v = []
        for (lb, ub), xi in zip(box, x):
            lb, ub = float(lb), float(ub)
            w = ub - lb
            k = rng.random()
            if k < 0.15:
                vi = 0.0
            elif k < 0.3:
                vi = ub - xi                      # lands on the bound (up to rounding)
            elif k < 0.45:
                vi = lb - xi
            elif k < 0.6:
                vi = rng.choice([-1, 1]) * w * rng.choice([0.5, 1.0, 2.0, 1e3])      # far outside
            elif k < 0.65:
                vi = rng.choice([math.inf, -math.inf, 1e308, -1e308])
            elif k < 0.7:
                vi = rng.choice([math.ulp(xi), -math.ulp(xi), 5e-324, -5e-324])
            else:
                vi = (rng.random() - 0.5) * w
            v.append(vi)
        r = rng.random()
        if r < 0.05:
            x, v = x + [0.5], v + [0.25]          # longer than the parameter list: untouched
        elif r < 0.08 and d > 1:
            v = v[:-1]                            # IndexError
        # an infinite velocity on an infinite... position + velocity must not be NaN
        if any(math.isnan(a + b) for a, b in zip(x, v)):
            return
        if whole_mode and rng.random() < 0.5:
            v = [vi if math.isinf(vi) or abs(vi) > 1e15 else rng.choice([vi, float(round(vi)), 0.3, -0.3, 0.7, -0.7]) for vi in v]
        position_case(which, box, x, v, prefer_whole=whole_mode, plain=False)

    # ---------------------------------------------------------------- corpus (boundary cases read off the code)
    def const_src(vals):
        it = iter(vals)
        return lambda: next(it)

    one = 1.0 - 2.0 ** -53
    corpus_gen = []
    cdir = os.path.join(os.path.dirname(os.path.dirname(os.path.abspath(__file__))), "corpus", "C08")
    for fn in sorted(os.listdir(cdir)) if os.path.isdir(cdir) else []:
        if not fn.endswith(".json"):
            continue
        for c in json.load(open(os.path.join(cdir, fn)))["cases"]:
            hist["corpus_cases"] += 1
            box = [tuple(b) for b in c["box"]]
            if c["kind"] == "mutator":
                mutator_case(c["op"], box, c["parent"], c["prob"], dict(c["extra"]), const_src(list(c["draws"]) + [0.5] * 8))
            elif c["kind"] == "sbx":
                sbx_case(box, c["p1"], c["p2"], c["prob"], c["distribution_index"], const_src(list(c["draws"]) + [0.75] * 8))
            elif c["kind"] == "position":
                for which in (("omopso", "smpso", "psoga") if c["which"] == "all" else (c["which"],)):
                    position_case(which, box, c["x"], c["v"])
            elif c["kind"] == "gen":
                corpus_gen.append((box, c["precision"], c["n"], list(c["draws"])))
    for which in ("omopso", "smpso", "psoga"):
        position_case(which, [(0.0, 1.0)], [1.0], [math.inf])        # not representable in JSON

    # ---- red-team round 3: whole-number parents / positions strictly inside boxes with NON-INTEGER bounds, in every
    # representation of a whole number (Python ints, numpy.int64 scalars, integer ndarray, mixtures with floats), for every
    # operator: a result that is truncated or rounded to a whole number falls out of such a box next to a bound
    def whole_stream():
        for kind_a in WHOLE_KINDS:
            for kind_b in [kind_a, rng.choice(WHOLE_KINDS), "list"]:
                for _ in range(ctx.pick(6, 20)):
                    d = rng.choice([1, 2, 3])
                    # mostly boxes that do not contain 0 (truncation toward zero then moves a child next to the zero-side bound
                    # out of the box), one parent on the whole number next to that bound
                    box = [rng.choice(ZERO_SIDE_BOXES if rng.random() < 0.7 else NONINT_BOXES) for _ in range(d)]
                    p1 = [gen_whole_coord(rng, lb, ub) for lb, ub in box]
                    p2 = [gen_whole_coord(rng, lb, ub) for lb, ub in box]
                    for i, (lb, ub) in enumerate(box):
                        if rng.random() < 0.6 and (lb > 0 or ub < 0):
                            p1[i] = float(math.ceil(lb)) if lb > 0 else float(math.floor(ub))
                    fb = None if kind_b == "list" else kind_b
                    if rng.random() < 0.6:       # scripted draws: every coordinate crossed, spread factor far from 1 (children on / next to a bound)
                        seq = [0.1]
                        for _c in range(d):
                            seq += [0.25, rng.choice([0.9, 0.99, 0.999, 0.01, 0.001, 0.6]), rng.choice([0.25, 0.75])]
                        src = const_src(seq + [0.75] * 8)
                    else:
                        src = draw_source(rng, 1.0)
                    sbx_case(box, p1, p2, 1.0, rng.choice([0, 1, 5, 15]), src, plain=False,
                             prefer_whole=True, force=(kind_a, fb) if rng.random() < 0.5 else (fb, kind_a))
            for kind in ("pm", "uniform", "nonuniform"):
                for _ in range(ctx.pick(2, 8)):
                    d = rng.choice([1, 2, 3])
                    box = [rng.choice(NONINT_BOXES) for _ in range(d)]
                    parent = [gen_whole_coord(rng, lb, ub) for lb, ub in box]
                    extra = {"pm": {"distribution_index": rng.choice([0, 5, 20, 100])}, "uniform": {"perturbation": rng.choice([0.5, 1.0, 10.0])},
                             "nonuniform": {"max_iterations": 10, "iteration": rng.randint(0, 10), "perturbation": 0.5}}[kind]
                    prob = rng.choice([1.0, 1.0, 0.5])
                    mutator_case(kind, box, parent, prob, extra, draw_source(rng, prob), force=kind_a)
            for which in ("omopso", "smpso", "psoga"):
                for _ in range(ctx.pick(2, 6)):
                    d = rng.choice([1, 2, 3])
                    box = [rng.choice(NONINT_BOXES) for _ in range(d)]
                    x = [gen_whole_coord(rng, lb, ub) for lb, ub in box]
                    v = [rng.choice([0.3, -0.3, 0.7, -0.7, 1.0, -2.0, float(ub) - xi, float(lb) - xi, 10.0, -10.0, 0.0]) for xi, (lb, ub) in zip(x, box)]
                    position_case(which, box, x, v, plain=False, force=kind_a)

    def pick_options(d):
        mx = rng.choice([1, 2, 5, 50])
        return {"prob": rng.choice([1.0, 0.5, 0.9, 1.0 / d, 0.3]), "sbx_prob": rng.choice([1.0, 1.0, 0.6, 0.9]),
                "pm": {"distribution_index": rng.choice([0, 5, 20, 20, 100])}, "sbx_di": rng.choice([0, 5, 15, 15, 50]),
                "uniform": {"perturbation": rng.choice([0.5, 0.1, 10.0, 50.0])},
                "nonuniform": {"max_iterations": mx, "perturbation": rng.choice([0.5, 1.0, 5.0])}, "mx": mx}

    def history_op(sh, opt, kind):
        """one operation of a history on the shared parameter list / long-lived operator objects"""
        box = sh.box
        if kind in ("pm", "uniform", "nonuniform"):
            if kind == "pm" and any(float(lb) == float(ub) for lb, ub in box):
                kind = "uniform"
            parent = [gen_coord(rng, lb, ub, slack=False) for lb, ub in box]
            extra = dict(opt[kind])
            if kind == "nonuniform":
                extra["iteration"] = rng.randint(0, opt["mx"])
            mutator_case(kind, box, parent, opt["prob"], extra, draw_source(rng, opt["prob"]), shared=sh)
        elif kind == "sbx":
            p1 = [gen_coord(rng, lb, ub, slack=False) for lb, ub in box]
            p2 = gen_second_parent(rng, p1, box)
            p2 = [min(float(ub), max(float(lb), y)) for y, (lb, ub) in zip(p2, box)]
            sbx_case(box, p1, p2, opt["sbx_prob"], opt["sbx_di"], draw_source(rng, opt["sbx_prob"]), shared=sh)
        elif kind == "gen":
            if all(abs(float(b)) <= 1e290 for bb in box for b in bb):
                gen_vector_case(box, sh.precisions, rng.choice([1, 2, 3]), lambda: rng.choice([0.0, one]) if rng.random() < 0.1 else rng.random(), shared=sh)

    def history_rebox(sh):
        """the declared box is changed IN PLACE between two operations of a history (tightened, widened, shifted away,
        or replaced by an unrelated box): everything built on the parameter list before must follow the current box"""
        new_box = []
        for lb, ub in sh.box:
            nb = moved_interval(rng, lb, ub, rng.choice(["shift", "shift", "tighten", "widen", "overlap"])) if rng.random() < 0.8 else None
            new_box.append(nb if nb is not None else gen_box(rng))
        mode = rng.choice(CHANGE_MODES)
        sh.rebox(new_box, mode)
        hist["box_changes_in_place"][mode] = hist["box_changes_in_place"].get(mode, 0) + 1

    def gen_stream():
        d = rng.choice([1, 2, 2, 3, 4])
        box = [gen_box(rng) for _ in range(d)]
        sh = Shared(rng, box, [rng.choice([None, None, None, 0.5, 1e-3]) for _ in range(d)])
        if sh.names != sorted(sh.names):
            hist["name_schemes_unsorted"] += 1
        opt = pick_options(d)
        kinds = rng.choice([["pm"], ["uniform"], ["nonuniform"], ["sbx"], ["pm", "sbx"], ["pm", "uniform", "nonuniform", "sbx", "gen"]])
        changing = rng.random() < 0.4
        for k in range(rng.choice([3, 4, 6])):
            if changing and k and rng.random() < 0.5:
                history_rebox(sh)
            history_op(sh, opt, rng.choice(kinds))

    # ================================================================= generators: gen_vector / RandomGenerator
    ghist = {"vectors": 0, "coordinates": 0, "near_tie_coordinates": 0, "quotient_beyond_2^52": 0, "declared_precision": 0,
             "default_precision": 0, "extreme_draws": 0}
    gcases, gexpected, gmeta = [], [], []
    real_utils_random = utils.random

    def gen_vector_case(box, precisions, n_vectors, src, shared=None):
        sh = shared or Shared(rng, box, precisions)
        params = sh.params
        draws = []

        def rnd():
            v = src()
            draws.append(v)
            return v
        utils.random = rnd
        try:
            g = sh.obj(("random_generator",), lambda: ops.RandomGenerator(params))
            g.init(n_vectors)
            vectors = g.generate()
        finally:
            utils.random = real_utils_random
        inp = {"generator": "RandomGenerator", "box": [list(b) for b in box], "precision": list(precisions), "names": list(sh.names),
               "box_changed_in_place_before_this_call": sh.reboxed}
        sh.check(ctx, "RandomGenerator.generate", inp)
        if sh.reboxed:
            hist["calls_after_a_box_change"] += 1
        d = len(box)
        if len(vectors) != n_vectors or len(draws) != n_vectors * d:
            ctx.mismatches.append({"what": "RandomGenerator produced %d vectors with %d draws, expected %d and %d" % (len(vectors), len(draws), n_vectors, n_vectors * d),
                                   "case": inp})
            return
        for j, vec in enumerate(vectors):
            dr = draws[j * d:(j + 1) * d]
            ghist["vectors"] += 1
            ok = True
            tols = []
            if len(vec) != d:
                ctx.oracle_failures.append({"what": "gen_vector returns dimension %d for %d parameters" % (len(vec), d), "input": inp,
                                            "match": {"kind": "dimension", "op": "gen_vector"}})
                continue
            for i, (lb, ub) in enumerate(box):
                p = precisions[i]
                why = outside(vec[i], lb, ub, p)
                ghist["coordinates"] += 1
                ghist["declared_precision" if p else "default_precision"] += 1
                if dr[i] in (0.0, one):
                    ghist["extreme_draws"] += 1
                if why:
                    ok = False
                    if len(ctx.oracle_failures) < 40:
                        ctx.oracle_failures.append({"what": "gen_vector: coordinate %d = %r is %s (box [%r, %r], precision %r)" % (i, vec[i], why, lb, ub, p),
                                                    "input": dict(inp, draws=dr), "observed": list(vec),
                                                    "required": "within precision/2 (1e-12 when no precision is declared) of [lb, ub]",
                                                    "match": {"kind": "out_of_box", "op": "gen_vector"}})
                    continue
                # tolerance of the comparison with the exact-rational model
                pe = Fraction(p) if p else Fraction(1e-12)
                xq = Fraction(dr[i]) * (Fraction(ub) - Fraction(lb)) + Fraction(lb)
                yq = xq / pe
                u = Fraction(ulp_of(lb, ub, vec[i]))
                t = 4 * u
                err_y = 3 * u / pe + abs(yq) * Fraction(2) ** -51
                frac = yq - math.floor(yq)
                if abs(frac - Fraction(1, 2)) <= err_y:
                    t += pe
                    ghist["near_tie_coordinates"] += 1
                    if abs(yq) >= 2 ** 52:
                        ghist["quotient_beyond_2^52"] += 1
                tols.append(t)
            if not ok or any(bad_number(x) for x in vec):
                continue
            gcases.append("{| g_params := %s; g_draws := %s; g_impl := %s; g_tol := %s |}" % (
                ll(list(zip(box, precisions)), lambda bp: "(%s, %s, %s)" % (ql(bp[0][0]), ql(bp[0][1]), ql(bp[1] or 0))),
                ll(dr, ql), ll(vec, ql), ll(tols, ql)))
            gexpected.append("0%nat")
            gmeta.append(dict(inp, draws=dr, vector=list(vec)))
            ctx.count(("gen", tuple(box), tuple(precisions), tuple(dr)), nontrivial=True)
            if ghist["vectors"] == 3:
                ctx.sample(dict(inp, draws=dr, vector=list(vec)))

    def gen_gen_case():
        d = rng.choice([1, 2, 2, 3, 5])
        box, precs = [], []
        for _ in range(d):
            k = rng.random()
            if k < 0.55:
                lb = rng.choice([0.0, -1.0, -5.0, 0.25, -0.75, 1e-3, 2.0])
                b = (lb, lb + rng.choice([1.0, 0.5, 2.0, 1e-3, 3.75, 1e-9, 1e-12]))
            elif k < 0.62:
                b = rng.choice([(0, 5), (-3, 3), (10, 20), (-10, -1)])
            elif k < 0.74:
                lb = round(rng.uniform(-10, 10), 2)          # bounds that sit on no coarse decimal grid
                b = (lb, lb + rng.choice([0.3, 0.77, 1.3, 2.9, 0.06]))
            elif k < 0.85:
                b = rng.choice([(1e6, 1e12), (-1e15, 1e15), (1e15, 1e15 + 4.0), (-1e280, 1e280), (0.0, 1e290), (-7.5e5, -2.25e5)])
            else:
                b = gen_box(rng)
                if abs(b[0]) > 1e290 or abs(b[1]) > 1e290:
                    b = (-1e280, 1e280)
            box.append(b)
            precs.append(rng.choice([None, None, None, 0, 1e-12, 1e-3, 0.1, 0.5, 0.25, 1e-6, 1.0, 2.0, 0.5, 0.05, 0.4, 5.0]))
        mode = rng.random()

        def src():
            k = rng.random()
            if k < 0.12:
                return rng.choice([0.0, one, 2.0 ** -53, 0.5, 0.25, 0.75])
            if k < 0.25 and mode < 0.5:
                return rng.randrange(0, 1024) / 1024.0           # dyadic draws: exact ties with dyadic precisions
            return rng.random()
        gen_vector_case(box, precs, rng.choice([1, 2, 3, 5]), src)

    n_ops = ctx.pick(2000, 22000)
    whole_stream()
    for i in range(ctx.pick(100, 1000)):
        gen_stream()
    for i in range(n_ops):
        k = rng.random()
        if k < 0.22:
            gen_mutator_case("pm")
        elif k < 0.40:
            gen_mutator_case("uniform")
        elif k < 0.58:
            gen_mutator_case("nonuniform")
        elif k < 0.85:
            gen_sbx_case()
        else:
            gen_position_case()

    for box, precs, n, draws in corpus_gen:
        gen_vector_case(box, precs, n, const_src(draws))
    for _ in range(ctx.pick(500, 5000)):
        gen_gen_case()

    ctx.rule = ("operator cases: boxes from {unit, symmetric, negative, tiny (down to 3 ulp), huge (up to +-1e300), integer-typed, lb=ub, random}, "
                "parents on / one ulp inside the bounds, mid-box, inside the generators' rounding slack, coincident / 1 ulp / around EPSILON apart (SBX), "
                "probabilities {0, 1, 0.5, 1/n, >1, <0, ...}, distribution indices 0..100, iterations 0..max, draws with 22% special values "
                "(0, 0.5+-ulp, 1-2^-53, the probability +-ulp); a case is non-trivial when at least one coordinate went through clip "
                "(mutators, SBX) / the velocity is not all zero (position update); distinct = distinct (operator, box, parents, options, tape). "
                "generator cases: RandomGenerator over boxes with and without a declared precision, scripted draws incl. 0 and 1-2^-53 and dyadic ties "
                "(each generated vector is one case); DoE cases: FullFactor (with/without centre), Plackett-Burman, Box-Behnken, LHS, Halton, "
                "uniform grid over the same box families (non-trivial when more than one parameter / always for scaled designs); "
                "run cases: NSGAII, EpsMOEA, OMOPSO, SMPSO, PSOGA with N in {2,3,5,8} (thorough up to 20), G in {1,2,4} (thorough up to 7), "
                "9 box templates incl. declared precisions, evaluation failures injected with probability 0 / 0.15 / 0.4, prob_mutation default / 0.5 / 1 "
                "(one case = one whole run; non-trivial unless it is an NSGA-II run with a single generation, which has no variation step). "
                "Histories (red-team round 2): the declared box is changed IN PLACE on the shared parameter list (bounds list rebound / its items "
                "assigned / the parameter dict replaced; tightened, widened, shifted away) between two calls on long-lived operator and generator "
                "objects (40% of the operator streams and mixed histories) and, per algorithm, after the algorithm object was built - before its "
                "first run or between two runs of the same object, optionally with a second algorithm object built afterwards; every call / run is "
                "judged on the box current at that moment. Parameter names: x0.., x_1..x_12, reverse alphabetical, words, shuffled; a directed DoE "
                "stream gives each of 2..12 such parameters its own disjoint box [10k, 10k+1] and runs every generator on it. "
                "Red-team round 3: parents / positions in every representation of the same real vector - list of floats, list of numpy.float64, "
                "float ndarray and, for whole-number coordinates, Python ints, numpy.int64 scalars, integer ndarray, mixtures with floats "
                "(the model gets float(x): ints are embedded exactly) - for SBX, the three mutators and the position update (position update "
                "on an integer-ndarray position: run and counted only, see assumptions); a directed stream of whole-number parents strictly "
                "inside boxes with non-integer bounds that do not contain 0 (one parent on the whole number next to the zero-side bound, "
                "scripted draws that push the children onto / next to a bound); boxes with |lb| >> |ub| and the reverse ([-2.5e6, 0.7], "
                "[-1e9, 1e-3], [-1e-3, 1e9], ...) with parents on the bounds; results of clip / of the swarm reset are judged with the "
                "property's slack 1e-12 exactly (no ulp term); NSGA-II runs seeded through CustomGenerator with whole-number designs "
                "(6 representations) in boxes with non-integer bounds; one re-roll stress run per algorithm (half of the evaluations fail); "
                "RandomGenerator boxes that sit on no decimal grid with precisions 0.5 / 0.05 / 0.4 / 5. "
                "Red-team round 6: continued runs - per algorithm 4 (thorough 10) histories in which run() is called two or three times on "
                "the SAME algorithm object (N in {6,8,12}, G in {3,4,6}, 2-4 parameters); the two optima of the objective lie near one end of "
                "the first box and before every later run the box is narrowed / moved in place (three ways of writing it) so that the region "
                "the earlier run converged to is outside it; every vector the objective sees in a later run is judged on the box declared "
                "when that run starts (direct oracle only)")
    rhist = {"runs": {}, "evaluated_vectors": 0, "failed_evaluations": 0, "coordinates_on_a_bound": 0, "generation_steps": 0,
             "breed_passes": 0, "runs_aborted_by_complex_power": 0, "runs_skipped_nan": 0, "swarm_reordered_steps": 0, "rerolled_individuals": 0,
             "clipped_in_runs": 0, "children_dropped_by_duplicate_filter": 0}
    import time
    phase = {"operator_and_generator_cases_python": round(time.time() - t_wall0, 1)}
    t1 = time.time()
    run_level(ctx, rhist)
    phase["run_level_python_and_coq"] = round(time.time() - t1, 1)
    t1 = time.time()
    dhist = {"designs": {}, "coordinates": 0}
    doe_level(ctx, dhist, {"history_op": history_op, "pick_options": pick_options, "hist": hist, "history_rebox": history_rebox,
                           "gen_vector_case": gen_vector_case})
    phase["doe_level_python_and_coq"] = round(time.time() - t1, 1)
    t1 = time.time()
    ctx.coq_compare("c08_op", HEADER, "op_case", "op_obs", "c08_op_run", "op_obs_eqb", cases, expected, meta,
                    shard=ctx.pick(300, 1500))
    ctx.coq_compare("c08_gen", HEADER, "gen_case", "nat", "c08_gen_run", "Nat.eqb", gcases, gexpected, gmeta,
                    shard=ctx.pick(250, 500))      # 1500 cases took 105 s CPU per coqc process: timeouts (600 s) on a loaded machine
    phase["operator_and_generator_cases_coq"] = round(time.time() - t1, 1)
    ctx.extra["phase_wall_s"] = phase
    ctx.extra.update({"run_histogram": rhist, "doe_histogram": dhist})
    t_end = os.times()
    ctx.extra["cpu_s"] = {"python_user_sys": round(t_end.user - t_start.user + t_end.system - t_start.system, 1),
                          "coqc_children_user_sys": round(t_end.children_user - t_start.children_user + t_end.children_system - t_start.children_system, 1)}
    ctx.extra.update({"operator_histogram": hist, "generator_histogram": ghist,
                      "near_boundary": ghist["near_tie_coordinates"]})



# --------------------------------------------------------------------------------------------------------------
# run level: the five algorithms
# --------------------------------------------------------------------------------------------------------------
RUN_BOXES = [
    # (bounds, precision) per parameter
    [((-2.0, 3.0), None), ((0.0, 1e-3), None)],
    [((-7.5, -2.25), None)],
    [((0.0, 1.0), None), ((0.0, 1.0), None), ((0.0, 1.0), None)],
    [((10, 20), 0.5), ((-1.0, 1.0), None)],
    [((1e6, 1e12), None), ((-5.0, 5.0), 1e-3)],
    [((1.0, 1.0 + 1e-9), None), ((-3, 3), None)],
    [((0.0, 1.0), 0.25), ((-100.0, 100.0), 1.0), ((0.0, 1e-6), None), ((2.0, 2.5), None)],
    [((-1e15, 1e15), None), ((0.0, 1.0), None)],
    [((1 / 3, 2 / 3), None), ((-0.1, 0.7), None)],
    [((-2.5e6, 0.7), None), ((-1e-3, 1e9), None)],            # |lb| >> |ub| and the reverse
]
# boxes with non-integer bounds that do not contain 0, for runs seeded with whole-number designs (CustomGenerator)
SEED_BOXES = [
    [((0.5, 4.5), None), ((-3.5, -0.5), None)],
    [((0.1, 3.9), None), ((2.5, 8.5), None), ((-6.4, -0.3), None)],
]
SEED_KINDS = ["list of ints", "list of numpy.int64", "ndarray of ints", "mixed int/float", "ndarray", "list"]


def seeds_as(kind, designs):
    """whole-number seed designs in one of the representations a user writes them in (deterministic, for the replay)"""
    import numpy as np
    out = []
    for r, v in enumerate(designs):
        if kind == "list of ints":
            out.append([int(x) for x in v])
        elif kind == "list of numpy.int64":
            out.append([np.int64(int(x)) for x in v])
        elif kind == "ndarray of ints":
            out.append(np.array([int(x) for x in v], dtype=np.int64))
        elif kind == "mixed int/float":
            out.append([int(x) if (i + r) % 2 == 0 else float(x) for i, x in enumerate(v)])
        elif kind == "ndarray":
            out.append(np.array([float(x) for x in v], dtype=np.float64))
        else:
            out.append([float(x) for x in v])
    return out


# (when, how the box changes, how it is written, a second algorithm object on the same problem afterwards)
HISTORIES_QUICK = [("before_first_run", "shift", "rebind", False), ("between_runs", "shift", "item", False),
                   ("between_runs", "tighten", "dict", True), ("before_first_run", "widen", "item", False)]
HISTORIES_MORE = [("between_runs", "widen", "rebind", True), ("before_first_run", "tighten", "dict", True),
                  ("between_runs", "overlap", "rebind", False), ("before_first_run", "shift", "dict", False),
                  ("between_runs", "shift", "dict", True), ("between_runs", "tighten", "item", False)]


CONTINUED_INTERVALS = [(-5.0, 5.0), (-5.0, 5.0), (0.0, 1.0), (-7.5, -2.25), (10, 20), (-100.0, 100.0), (2.0, 2.5), (-1.0, 1.0), (-2.0, 3.0)]


def continued_plan(rng, d, later_runs):
    """A history of run() calls on ONE algorithm object (red-team round 6).  First box: d intervals from CONTINUED_INTERVALS.  The two
    optima of the objective (LogProblem, state['centres']) lie inside the first box near ONE end of every interval, so the first run
    converges there.  Every later box leaves that region out: a part of the previous interval on the far side (narrowed), or an interval
    moved away from it (overlapping / disjoint); the box after that leaves out the near end of the second box as well.  With
    probability 1/4 one coordinate (never all) keeps its interval.  JSON-able: it is stored with a failing input and replayed."""
    box, a, b, sides = [], [], [], []
    for _ in range(d):
        lb, ub = rng.choice(CONTINUED_INTERVALS)
        w = ub - lb
        side = rng.choice([0, 1])                  # 0: the optima sit near lb, the box moves up; 1: near ub, the box moves down
        u1, u2 = 0.05 + 0.35 * rng.random(), 0.05 + 0.35 * rng.random()
        a.append(lb + u1 * w if side == 0 else ub - u1 * w)
        b.append(lb + u2 * w if side == 0 else ub - u2 * w)
        box.append(((lb, ub), None))
        sides.append(side)
    keep = rng.randrange(d) if d >= 2 and rng.random() < 0.25 else None
    boxes, modes = [], []
    cur = [tuple(bb) for bb, _ in box]
    for r in range(later_runs):
        nxt = []
        for i, (lb, ub) in enumerate(cur):
            w = ub - lb
            how = rng.choice(["narrow", "narrow", "narrow_both", "overlap", "move"])
            if i == keep:
                nb = (lb, ub)
            elif how == "narrow":
                nb = (lb + 0.6 * w, ub) if sides[i] == 0 else (lb, ub - 0.6 * w)
            elif how == "narrow_both":
                nb = (lb + 0.6 * w, ub - 0.1 * w) if sides[i] == 0 else (lb + 0.1 * w, ub - 0.6 * w)
            elif how == "overlap":
                nb = (lb + 0.55 * w, ub + 0.5 * w) if sides[i] == 0 else (lb - 0.5 * w, ub - 0.55 * w)
            else:
                nb = (ub + 0.5 * w, ub + 1.5 * w) if sides[i] == 0 else (lb - 1.5 * w, lb - 0.5 * w)
            nxt.append([float(nb[0]), float(nb[1])] if i != keep else [lb, ub])
        boxes.append(nxt)
        modes.append(rng.choice(CHANGE_MODES))
        cur = [tuple(x) for x in nxt]
    return box, {"when": "continued", "centres": [a, b], "boxes": boxes, "modes": modes}


def index_of(objs, o):
    for i, x in enumerate(objs):
        if x is o:
            return i
    return None


class RunAbort(Exception):
    pass


def enc_vecs(vs):
    return ll(vs, lambda v: ll(v, fl))


def enc_rr(rr):
    return ll(rr, enc_vecs)


def enc_script(s):
    return ("{| s_events := %s; s_rerolls := %s; s_keep := %s; s_keep_arch := %s; s_vel := %s; s_tapes := %s; s_rerolls2 := %s |}" % (
        ll(s.get("events", []), lambda b: "mk_breed %s %s %s %s %s" % (nl(b[0]), nl(b[1]), enc_tape(b[2]), enc_tape(b[3]), enc_tape(b[4]))),
        enc_rr(s.get("rerolls", [])), ll(s.get("keep", []), nl), ll(s.get("keep_arch", []), nl),
        enc_vecs(s.get("vel", [])), ll(s.get("tapes", []), enc_tape), enc_rr(s.get("rerolls2", []))))


def run_level(ctx, rhist, specs=None):
    import contextlib
    import io
    import logging
    import random as pyrandom
    import artap.operators as ops
    import artap.algorithm_genetic as ag
    import artap.algorithm_NSGAII as an
    import artap.algorithm_swarm as asw
    from artap.archive import Archive
    from artap.problem import Problem
    rng = ctx.rng
    ev = []
    state = {"fail_p": 0.0, "streak": {}, "rec": None}

    class LogProblem(Problem):
        def set(self, **kw):
            self.name = "c08"
            self.parameters = kw["parameters"]
            self.costs = [{'name': 'F1'}, {'name': 'F2'}]

        def evaluate(self, individual):
            x = individual.vector
            k = id(individual)
            fail = False
            if state["fail_p"] and state["streak"].get(k, 0) < 4 and state["fail_rng"].random() < state["fail_p"]:
                fail = True
            ev.append(("eval", individual, list(x), fail))
            if fail:
                state["streak"][k] = state["streak"].get(k, 0) + 1
                raise RuntimeError("scripted failure")
            state["streak"][k] = 0
            xs = [float(v) for v in x]
            c = state.get("centres")
            if c:          # continued-run histories: the two optima sit where the plan puts them (inside the FIRST box of the history)
                return [sum((v - a) ** 2 for v, a in zip(xs, c[0])), sum((v - b) ** 2 for v, b in zip(xs, c[1]))]
            return [sum(v * v for v in xs), sum((v - 1.0) ** 2 for v in xs)]

    # ---- class-level recording wrappers (restored in `finally`)
    saved = []

    def patch(obj, name, new):
        saved.append((obj, name, obj.__dict__[name] if name in obj.__dict__ else getattr(obj, name)))
        setattr(obj, name, new)

    def install(rec):
        o_cross = ops.SimulatedBinaryCrossover.cross

        def cross(self, p1, p2):
            if len(ev) > 50000:
                raise RuntimeError("harness guard: the run does not terminate (more than 50000 recorded events)")
            rec.cut()
            a, b = list(p1), list(p2)
            r = o_cross(self, p1, p2)
            ev.append(("cross", a, b, rec.cut(), list(r[0]), list(r[1]), self.probability))
            return r
        patch(ops.SimulatedBinaryCrossover, "cross", cross)
        for cls in (ops.PmMutator, ops.UniformMutator, ops.NonUniformMutation):
            def mk(cls):
                o_mut = cls.mutate

                def mutate(self, parent, current_iteration=0):
                    rec.cut()
                    a = list(parent)
                    r = o_mut(self, parent, current_iteration)
                    ev.append(("mutate", cls.__name__, a, rec.cut(), list(r), self.probability))
                    return r
                return mutate
            patch(cls, "mutate", mk(cls))
        o_sel = ops.TournamentSelector.select

        def select(self, individuals):
            r = o_sel(self, individuals)
            ev.append(("select", index_of(individuals, r)))
            return r
        patch(ops.TournamentSelector, "select", select)
        o_copy = ops.CopySelector.select

        def copy_select(self, individuals):
            src = list(individuals)
            r = o_copy(self, individuals)
            ev.append(("copysel", src, list(r)))
            return r
        patch(ops.CopySelector, "select", copy_select)
        o_choice = Archive.rand_choice

        def rand_choice(self):
            r = o_choice(self)
            ev.append(("arch_choice", self, index_of(self._contents, r)))
            return r
        patch(Archive, "rand_choice", rand_choice)
        o_gen = ag.GeneticAlgorithm.generate

        def generate(self, parents, archive=None):
            ev.append(("gen_enter", parents, list(parents), archive, list(archive._contents) if archive is not None else []))
            r = o_gen(self, parents, archive)
            ev.append(("gen_exit", list(r)))
            return r
        patch(ag.GeneticAlgorithm, "generate", generate)
        o_trunc = an.nondominated_truncate

        def truncate(population, size):
            pop = list(population)
            r = o_trunc(population, size)
            ev.append(("truncate", pop, list(r)))
            return r
        patch(an, "nondominated_truncate", truncate)
        for cls in (asw.OMOPSO, asw.SMPSO, asw.PSOGA):
            def mkp(cls):
                o_pos = cls.update_position

                def update_position(self, individuals):
                    objs = list(individuals)
                    before = [list(i.vector) for i in objs]
                    vel = [list(i.features['velocity']) for i in objs]
                    o_pos(self, individuals)
                    ev.append(("position", objs, before, vel, [list(i.vector) for i in objs]))
                return update_position
            patch(cls, "update_position", mkp(cls))
        o_rg = ops.RandomGenerator.generate

        def rgenerate(self):
            r = o_rg(self)
            ev.append(("init", [list(v) for v in r]))
            return r
        patch(ops.RandomGenerator, "generate", rgenerate)
        o_cg = ops.CustomGenerator.generate

        def cgenerate(self):
            r = o_cg(self)
            ev.append(("init", [[float(x) for x in v] for v in r]))
            return r
        patch(ops.CustomGenerator, "generate", cgenerate)

    def uninstall():
        while saved:
            obj, name, old = saved.pop()
            setattr(obj, name, old)

    # ---- helpers to read the event log
    def take_evals(events, pos, objs):
        """the evaluation of `objs` in order starting at events[pos]: returns (new pos, rerolls per object)"""
        rr = []
        for o in objs:
            got = []
            while pos < len(events) and events[pos][0] == "eval" and events[pos][1] is o:
                got.append(events[pos][2])
                pos += 1
                if not events[pos - 1][3]:
                    break
            if not got:
                raise RunAbort("no evaluation recorded for an individual that should have been evaluated")
            rr.append(got)
        return pos, rr

    def skip_to(events, pos, kinds):
        while pos < len(events) and events[pos][0] not in kinds:
            if events[pos][0] in ("eval", "cross", "mutate", "position", "gen_enter", "gen_exit", "truncate", "copysel"):
                raise RunAbort("unexpected %s event while looking for %s" % (events[pos][0], kinds))
            pos += 1
        return pos

    def breed_events(events, pos, end, n_pop, arch_obj):
        """select/select|arch_choice, cross, mutate, mutate groups in events[pos:end]"""
        out = []
        probs = {}
        while pos < end:
            idx = []
            while pos < end and events[pos][0] in ("select", "arch_choice"):
                e = events[pos]
                if e[0] == "select":
                    idx.append(e[1])
                elif e[1] is arch_obj:
                    idx.append(n_pop + e[2])
                pos += 1
            if pos >= end:
                break
            if len(idx) != 2 or any(i is None for i in idx) or events[pos][0] != "cross":
                raise RunAbort("breeding pass does not start with two selections and a crossover")
            c = events[pos]
            if pos + 2 >= len(events) or events[pos + 1][0] != "mutate" or events[pos + 2][0] != "mutate":
                raise RunAbort("crossover not followed by two mutations")
            m1, m2 = events[pos + 1], events[pos + 2]
            if m1[1] != "PmMutator" or m2[1] != "PmMutator":
                raise RunAbort("GA mutation is not PmMutator")
            probs["pc"] = c[6]
            probs["pm"] = m1[5]
            out.append((idx[0], idx[1], c[3], m1[3], m2[3]))
            pos += 3
        return out, probs

    def vec_of(o):
        return list(o.vector)

    def assemble(name, alg, events, N):
        """builds the model's inputs and the observation from the event log"""
        pos = skip_to(events, 0, ("init",))
        pop0 = events[pos][1]
        pos += 1
        first = pos
        # initial evaluation: individuals in order of first appearance
        objs = []
        p = pos
        while p < len(events) and events[p][0] == "eval":
            if not any(events[p][1] is o for o in objs):
                objs.append(events[p][1])
            p += 1
        pos, got = take_evals(events, pos, objs)
        rr0 = [g[1:] for g in got]
        if len(objs) != len(pop0):
            raise RunAbort("initial evaluation covers %d individuals, generator produced %d" % (len(objs), len(pop0)))
        scripts = []
        probs = {"pc": 1.0, "pm": 0.0}
        arch0 = []
        pop_objs = list(objs)
        arch_objs = []
        if name in ("NSGAII", "EpsMOEA"):
            first_gen = True
            while True:
                pos = skip_to(events, pos, ("gen_enter",))
                if pos >= len(events):
                    break
                ge = events[pos]
                parents_live, parents, arch_obj, arch = ge[1], ge[2], ge[3], ge[4]
                if first_gen:
                    if name == "EpsMOEA":
                        arch0 = [index_of(pop_objs, a) for a in arch]
                        arch_objs = list(arch)
                        if any(i is None for i in arch0):       # red-team round 6: state of an earlier run() of the same object
                            raise RunAbort("the archive at the first generate() of this run holds %d design(s) that are not members of "
                                           "this run's initial population" % sum(1 for i in arch0 if i is None))
                    first_gen = False
                if len(parents) != len(pop_objs) or any(a is not b for a, b in zip(parents, pop_objs)):
                    raise RunAbort("population at generate() is not the population the previous step left")
                if name == "EpsMOEA" and (len(arch) != len(arch_objs) or any(a is not b for a, b in zip(arch, arch_objs))):
                    raise RunAbort("archive at generate() is not the archive the previous step left")
                end = pos + 1
                while events[end][0] != "gen_exit":
                    end += 1
                bev, pr = breed_events(events, pos + 1, end, len(parents), arch_obj)
                probs.update(pr)
                offs = events[end][1]
                pos, got = take_evals(events, end + 1, offs)
                s = {"events": bev, "rerolls": [g[1:] for g in got]}
                rhist["children_dropped_by_duplicate_filter"] += max(0, 2 * len(bev) - len(offs))
                if name == "NSGAII":
                    pos = skip_to(events, pos, ("truncate",))
                    merged, res = events[pos][1], events[pos][2]
                    pos += 1
                    if len(merged) != len(offs) + len(pop_objs) or any(a is not b for a, b in zip(merged, offs)):
                        raise RunAbort("truncation input is not offsprings + copies of the population")
                    for c, o in zip(merged[len(offs):], pop_objs):
                        if [float(x) for x in c.vector] != [float(x) for x in o.vector]:
                            raise RunAbort("copy of a population member has a different vector")
                    s["keep"] = [index_of(merged, r) for r in res]
                    pop_objs = list(res)
                else:
                    # the live population list and the archive after this generation = at the next generate / at the end
                    nxt = skip_to(events, pos, ("gen_enter",))
                    if nxt < len(events):
                        pop_after, arch_after = events[nxt][2], events[nxt][4]
                    else:
                        pop_after, arch_after = list(parents_live), list(alg.archive._contents)
                    s["keep"] = [index_of(pop_objs + offs, o) for o in pop_after]
                    s["keep_arch"] = [index_of(arch_objs + offs, o) for o in arch_after]
                    pop_objs, arch_objs = list(pop_after), list(arch_after)
                if any(i is None for i in s.get("keep", []) + s.get("keep_arch", [])):
                    raise RunAbort("a survivor is neither an offspring nor a member of the previous population / archive")
                scripts.append(s)
        else:
            while True:
                pos = skip_to(events, pos, ("copysel",))
                if pos >= len(events):
                    break
                src, copies = events[pos][1], events[pos][2]
                keep = [index_of(pop_objs, o) for o in src]
                if any(k is None for k in keep):
                    raise RunAbort("the swarm that is copied contains an individual the previous step did not leave")
                pos = skip_to(events, pos + 1, ("position",))
                _, pobjs, before, vel, after = events[pos]
                if len(pobjs) != len(copies) or any(a is not b for a, b in zip(pobjs, copies)):
                    raise RunAbort("update_position is not applied to the copies of the swarm")
                pos += 1
                n = len(pobjs)
                tapes = [[] for _ in range(n)]
                if name == "OMOPSO":
                    for i in range(n):
                        pos = skip_to(events, pos, ("mutate",))
                        m = events[pos]
                        want = "UniformMutator" if i % 3 == 0 else "NonUniformMutation"
                        if m[1] != want:
                            raise RunAbort("turbulence of particle %d uses %s, expected %s" % (i, m[1], want))
                        tapes[i] = m[3]
                        probs["pm"] = m[5]
                        pos += 1
                elif name == "SMPSO":
                    for i in range(0, n, 6):
                        pos = skip_to(events, pos, ("mutate",))
                        m = events[pos]
                        if m[1] != "PmMutator":
                            raise RunAbort("SMPSO turbulence uses %s" % m[1])
                        tapes[i] = m[3]
                        probs["pm"] = m[5]
                        pos += 1
                pos = skip_to(events, pos, ("eval",))
                pos, got = take_evals(events, pos, pobjs)
                s = {"keep": keep, "vel": vel, "tapes": tapes, "rerolls": [g[1:] for g in got]}
                new_objs = list(pobjs)
                if name == "PSOGA":
                    end = pos
                    while end < len(events) and events[end][0] in ("select", "arch_choice"):
                        end += 1
                    bev, pr = breed_events(events, pos, end + 3, n, None)
                    if len(bev) != 1:
                        raise RunAbort("PSOGA generation without exactly one crossover")
                    probs.update(pr)
                    pos = end + 3
                    two = []
                    p = pos
                    while p < len(events) and events[p][0] == "eval":
                        if not any(events[p][1] is o for o in two):
                            two.append(events[p][1])
                        p += 1
                    pos, got2 = take_evals(events, pos, two)
                    if len(two) != 2:
                        raise RunAbort("PSOGA evaluated %d GA offspring, expected 2" % len(two))
                    s["events"] = bev
                    s["rerolls2"] = [g[1:] for g in got2]
                    new_objs += two
                pop_objs = new_objs
                scripts.append(s)
        if any(e[0] == "eval" for e in events[pos:]):
            raise RunAbort("evaluations after the last modelled step")
        submitted = [e[2] for e in events if e[0] == "eval"]
        obs = (submitted, [vec_of(o) for o in pop_objs], [vec_of(o) for o in arch_objs])
        return {"pop0": pop0, "rr0": rr0, "arch0": arch0, "scripts": scripts, "pc": probs["pc"], "pm": probs["pm"]}, obs

    ALGOS = {"NSGAII": (an.NSGAII, "ANsga2"), "EpsMOEA": (ag.EpsMOEA, "AEpsMoea"), "OMOPSO": (asw.OMOPSO, "AOmopso"),
             "SMPSO": (asw.SMPSO, "ASmpso"), "PSOGA": (asw.PSOGA, "APsoga")}
    cases, expected, meta = [], [], []

    def one_run(name, box, N, G, fail_p, pm_opt, correspond=True, seed=None, pc_opt=None, plan=None, names=None, seeds=None):
        """One Problem and one long-lived algorithm object.  Without a plan: build, run.  With a plan (a HISTORY):
        the declared box is changed IN PLACE on problem.parameters after the algorithm object was built -
        plan['when'] = 'before_first_run': build, change, run;  'between_runs': build, run, change, run again on the same
        object - and, with plan['second_algorithm'], a second algorithm object built on the same problem after the change
        is run as well.  Every run is judged (oracle and model) on the box problem.parameters declares when it runs."""
        import copy
        cls, coq_algo = ALGOS[name]
        bounds = [b for b, _ in box]
        precs = [p for _, p in box]
        params = make_params(bounds, precs, names)
        problem = LogProblem(parameters=params)
        problem.logger.setLevel(logging.CRITICAL)
        if seed is None:
            seed = rng.getrandbits(32)
        base = {"algorithm": name, "box": [list(b) for b in bounds], "precision": precs, "population_size": N, "generations": G,
                "failure_probability": fail_p, "prob_mutation": pm_opt, "prob_cross": pc_opt, "python_random_seed": seed,
                "names": [p["name"] for p in params], "history": plan}
        if seeds is not None:          # (representation, whole-number designs): the initial population comes from a CustomGenerator
            base["seed_designs_given_as"], base["seed_designs"] = seeds[0], [list(v) for v in seeds[1]]

        def build():
            alg = cls(problem)
            alg.options['max_population_number'] = G
            alg.options['max_population_size'] = N
            alg.options['verbose_level'] = 0
            if pm_opt is not None:
                alg.options['prob_mutation'] = pm_opt
                for attr in ("mutator", "uniform_mutator", "non_uniform_mutator"):
                    if getattr(alg, attr, None) is not None:
                        getattr(alg, attr).probability = pm_opt
            if pc_opt is not None:
                if name in ("NSGAII", "EpsMOEA", "PSOGA"):
                    alg.options['prob_cross'] = pc_opt
                if getattr(alg, "crossover", None) is not None:
                    alg.crossover.probability = pc_opt
            if seeds is not None:
                alg.generator = ops.CustomGenerator(problem.parameters)
                alg.generator.init(seeds_as(seeds[0], seeds[1]))
            return alg

        alg = build()
        if plan is None:
            do_run(name, coq_algo, problem, alg, bounds, precs, N, G, fail_p, seed, dict(base, step="run"), correspond)
            return
        if plan["when"] == "continued":
            # red-team round 6: run() is called again (and again) on the SAME algorithm object; before every later call the user
            # narrows / moves the declared box so that the region the earlier run converged to is no longer admissible.  Whatever
            # the object keeps from an earlier run (archive, leaders, swarm, generator, operators) is stale now; every vector the
            # objective sees during a later run is judged on the box declared when that run was started.
            state["centres"] = plan["centres"]
            try:
                do_run(name, coq_algo, problem, alg, bounds, precs, N, G, fail_p, seed,
                       dict(base, step="run 1 of the algorithm object (first box of the history)"), correspond)
                for k, (nb, mode) in enumerate(zip(plan["boxes"], plan["modes"])):
                    change_bounds(problem.parameters, [tuple(b) for b in nb], mode)
                    now = [tuple(p["bounds"]) for p in problem.parameters]
                    rhist["box_changes_in_place"] = rhist.get("box_changes_in_place", 0) + 1
                    rhist["runs_continued_on_a_moved_box"] = rhist.get("runs_continued_on_a_moved_box", 0) + 1
                    do_run(name, coq_algo, problem, alg, now, precs, N, G, fail_p, seed + 7919 * (k + 1),
                           dict(base, step="run %d of the SAME algorithm object, after the declared box was changed in place (%s) to %r: the "
                                           "optimum of the earlier run(s) is outside it" % (k + 2, mode, [list(b) for b in now]),
                                declared_box_at_this_run=[list(b) for b in now]), correspond)
            finally:
                state["centres"] = None
            return
        new_bounds = [tuple(b) for b in plan["new_box"]]
        k = 0
        if plan["when"] == "between_runs":
            do_run(name, coq_algo, problem, alg, bounds, precs, N, G, fail_p, seed, dict(base, step="run 1 of the algorithm object (declared box not yet changed)"), correspond)
            k = 1
        change_bounds(problem.parameters, new_bounds, plan["mode"], plan.get("only"))
        now = [tuple(p["bounds"]) for p in problem.parameters]
        rhist["box_changes_in_place"] = rhist.get("box_changes_in_place", 0) + 1
        do_run(name, coq_algo, problem, alg, now, precs, N, G, fail_p, seed + 7919 * k,
               dict(base, step="run %d of the algorithm object built BEFORE the declared box was changed in place to %r" % (k + 1, [list(b) for b in now]),
                    declared_box_at_this_run=[list(b) for b in now]), correspond)
        if plan.get("second_algorithm"):
            do_run(name, coq_algo, problem, build(), now, precs, N, G, fail_p, seed + 7919 * (k + 1),
                   dict(base, step="run of a second algorithm object built on the same problem AFTER the change to %r" % ([list(b) for b in now],),
                        declared_box_at_this_run=[list(b) for b in now]), correspond)

    def do_run(name, coq_algo, problem, alg, bounds, precs, N, G, fail_p, seed, inp, correspond):
        import copy
        params_before = copy.deepcopy(problem.parameters)
        pyrandom.seed(seed)
        del ev[:]
        state["fail_p"] = fail_p
        state["fail_rng"] = pyrandom.Random(seed ^ 0x5bd1e995)
        state["streak"] = {}
        pm_opt = inp["prob_mutation"]
        crashed = None
        with Recorder(ops) as rec:
            install(rec)
            try:
                with contextlib.redirect_stdout(io.StringIO()):
                    alg.run()
            except Exception as e:
                crashed = e
            finally:
                uninstall()
        events = list(ev)
        if problem.parameters != params_before or any(type(a["bounds"]) is not type(b["bounds"]) for a, b in zip(problem.parameters, params_before)):
            ctx.mismatches.append({"what": "%s run modified the problem's parameter list: %r became %r" % (name, params_before, problem.parameters),
                                   "case": inp})
        rhist["runs"][name] = rhist["runs"].get(name, 0) + 1
        if inp["history"] is not None:
            rhist["runs_in_histories"] = rhist.get("runs_in_histories", 0) + 1
        evals = [e for e in events if e[0] == "eval"]
        rhist["evaluated_vectors"] += len(evals)
        rhist["failed_evaluations"] += sum(1 for e in evals if e[3])
        # ---- direct oracle: every vector the objective saw is a real vector of the right dimension inside the box
        reported = 0
        for k, e in enumerate(evals):
            v = e[2]
            bad = None
            if len(v) != len(bounds):
                bad = "has dimension %d, the problem has %d parameters" % (len(v), len(bounds))
            else:
                for i, (lb, ub) in enumerate(bounds):
                    why = outside(v[i], lb, ub, precs[i])
                    if why:
                        bad = "coordinate %d = %r is %s (box [%r, %r], precision %r)" % (i, v[i], why, lb, ub, precs[i])
                        break
                    if float(v[i]) in (float(lb), float(ub)):
                        rhist["coordinates_on_a_bound"] += 1
            if bad:
                rhist["designs_outside_the_declared_box"] = rhist.get("designs_outside_the_declared_box", 0) + 1
                reported += 1
            if bad and reported == 1 and len(ctx.oracle_failures) < 40:          # the first one of a run is the failing input
                ctx.oracle_failures.append({"what": "%s run: evaluated design #%d %s%s" % (name, k, bad, "" if inp["history"] is None else " [%s]" % inp["step"]),
                                            "input": inp, "observed": v,
                                            "required": "every evaluated design inside the box problem.parameters declares when it is evaluated "
                                                        "(up to 1e-12 / half the declared precision)",
                                            "match": {"kind": "out_of_box", "op": "run/" + name}})
        ctx.count(("run", name, tuple(bounds), N, G, fail_p, pm_opt, seed, inp["step"]), nontrivial=G > 1 or name != "NSGAII")
        if crashed is not None:
            if isinstance(crashed, TypeError) and "complex" in str(crashed):
                rhist["runs_aborted_by_complex_power"] += 1        # pow(negative, fraction) inside SBX / PM: a crash, not an out-of-box design
                return
            ctx.mismatches.append({"what": "%s run raised %r" % (name, crashed), "case": inp})
            return
        if not correspond:
            return
        try:
            mi, obs = assemble(name, alg, events, N)
        except RunAbort as e:
            ctx.mismatches.append({"what": "%s run does not have the step structure of the model: %s" % (name, e), "case": inp})
            return
        allv = [x for v in obs[0] + obs[1] + obs[2] for x in v] + [x for s in mi["scripts"] for v in s.get("vel", []) for x in v]
        allv += [x[1] for s in mi["scripts"] for t in s.get("tapes", []) for x in t]
        allv += [x[1] for s in mi["scripts"] for b in s.get("events", []) for t in b[2:] for x in t]
        if any(bad_number(x) for x in allv):
            rhist["runs_skipped_nan"] += 1
            return
        rhist["generation_steps"] += len(mi["scripts"])
        rhist["swarm_reordered_steps"] += sum(1 for sc in mi["scripts"] if "vel" in sc and sc["keep"] != list(range(len(sc["keep"]))))
        rhist["rerolled_individuals"] += sum(1 for sc in mi["scripts"] for r in sc.get("rerolls", []) + sc.get("rerolls2", []) if r) + sum(1 for r in mi["rr0"] if r)
        rhist["clipped_in_runs"] += sum(1 for sc in mi["scripts"] for t in sc.get("tapes", []) for e in t if e[0] == "P") + \
            sum(1 for sc in mi["scripts"] for b in sc.get("events", []) for t in b[2:] for e in t if e[0] == "P")
        rhist["breed_passes"] += sum(len(s.get("events", [])) for s in mi["scripts"])
        cases.append("{| r_algo := %s; r_N := %s; r_pc := %s; r_pm := %s; r_params := %s; r_pop0 := %s; r_rr0 := %s; r_arch0 := %s; r_scripts := %s |}" % (
            coq_algo, nl(N), fl(mi["pc"]), fl(mi["pm"]), enc_params(bounds), enc_vecs(mi["pop0"]), enc_rr(mi["rr0"]),
            ll(mi["arch0"], nl), ll(mi["scripts"], enc_script)))
        expected.append("(Some (%s, %s, %s))" % (enc_vecs(obs[0]), enc_vecs(obs[1]), enc_vecs(obs[2])))
        meta.append(dict(inp, evaluated=len(obs[0]), final_population=len(obs[1])))
        if name == "PSOGA" and N == 2 and G == 1 and inp["history"] is None and not any(s.get("name") == "run" for s in ctx.samples):
            ctx.samples.append({"name": "run", "input": inp, "evaluated_vectors": obs[0]})

    if specs is not None:          # replay of stored runs: direct oracle only
        for sp in specs:
            one_run(sp["algorithm"], [(tuple(b), p) for b, p in zip(sp["box"], sp["precision"])], sp["population_size"], sp["generations"],
                    sp["failure_probability"], sp["prob_mutation"], correspond=False, seed=sp["python_random_seed"], pc_opt=sp.get("prob_cross"),
                    plan=sp.get("history"), names=sp.get("names"),
                    seeds=(sp["seed_designs_given_as"], sp["seed_designs"]) if sp.get("seed_designs") else None)
        return
    sizes = ctx.pick([2, 3, 5, 8], [2, 3, 5, 8, 12, 20])
    gens = ctx.pick([1, 2, 4], [1, 2, 4, 7])
    reps = ctx.pick(1, 3)
    for name in ALGOS:
        for N in sizes:
            for G in gens:
                for _ in range(reps):
                    box = rng.choice(RUN_BOXES)
                    fail_p = rng.choice([0.0, 0.0, 0.0, 0.15, 0.4])
                    pm_opt = rng.choice([None, None, 0.5, 1.0])
                    pc_opt = rng.choice([None, None, 0.5, 0.0]) if pm_opt else rng.choice([None, None, 0.5])
                    one_run(name, box, N, G, fail_p, pm_opt, pc_opt=pc_opt,
                            names=param_names(rng, len(box), rng.choice(NAME_SCHEMES)))
        one_run(name, RUN_BOXES[0], 1, 2, 0.0, None, correspond=False)       # population of one: direct oracle only
        # re-roll stress (direct oracle only): half of the evaluations fail, so that a run has about as many re-rolled designs
        # as evaluated ones - a re-roll that leaves the box only for rare draws (round 1: 0.27 % per coordinate) is seen with
        # probability > 95 % over the five algorithms instead of by luck
        rhist["reroll_stress_runs"] = rhist.get("reroll_stress_runs", 0) + 1
        one_run(name, RUN_BOXES[6] if name != "NSGAII" else RUN_BOXES[2], ctx.pick(24, 40), 3, 0.5, None, correspond=False)
        if name == "NSGAII":
            # red-team round 3: the run starts from hand-written whole-number seed designs (CustomGenerator) in a box whose
            # bounds are not whole numbers; the only shipped algorithm that takes a generator object from the caller
            for kind in SEED_KINDS:
                for rep_ in range(ctx.pick(1, 3)):
                    box = rng.choice(SEED_BOXES)
                    n_seed = rng.choice([3, 4, 6])
                    designs = [[gen_whole_coord(rng, lb, ub) for (lb, ub), _ in box] for _ in range(n_seed)]
                    for v in designs[:2]:           # two seeds on the whole numbers next to the zero-side bounds
                        for i, ((lb, ub), _) in enumerate(box):
                            if rng.random() < 0.7:
                                v[i] = float(math.ceil(lb)) if lb > 0 else float(math.floor(ub))
                    rhist["runs_seeded_with_whole_number_designs"] = rhist.get("runs_seeded_with_whole_number_designs", 0) + 1
                    one_run(name, box, n_seed, rng.choice([2, 3, 4]), rng.choice([0.0, 0.0, 0.15]), rng.choice([None, 0.5]),
                            pc_opt=rng.choice([None, None, 0.9]), names=param_names(rng, len(box), rng.choice(NAME_SCHEMES)),
                            seeds=(kind, designs))
        # ---- histories: the declared box is changed in place after the algorithm object was built
        for when, how, mode, second in ctx.pick(HISTORIES_QUICK, HISTORIES_QUICK * 3 + HISTORIES_MORE * 2):
            for _ in range(20):
                box = rng.choice(RUN_BOXES)
                new_box, only = [], []
                for i, ((lb, ub), _) in enumerate(box):
                    nb = moved_interval(rng, lb, ub, how) if (rng.random() < 0.75 or i == 0) else None
                    if nb is not None:
                        only.append(i)
                    new_box.append(list(nb) if nb is not None else [lb, ub])
                if only:
                    break
            plan = {"when": when, "change": how, "mode": mode, "new_box": new_box, "only": only, "second_algorithm": second}
            one_run(name, box, rng.choice([2, 3, 5]), rng.choice([2, 3]), rng.choice([0.0, 0.0, 0.15]), rng.choice([None, 0.5, 1.0]), plan=plan,
                    names=param_names(rng, len(box), rng.choice(NAME_SCHEMES)))
    # ---- red-team round 6: continued runs (direct oracle only): run, move the box away from the optimum found, run again on the
    # same object, move it once more, run a third time
    import time
    t_cont = time.process_time()
    for name in ALGOS:
        for rep in range(ctx.pick(4, 10)):
            box, plan = continued_plan(rng, rng.choice([2, 3, 3, 4]), 2 if rep % 2 == 0 else 1)
            rhist["continued_run_histories"] = rhist.get("continued_run_histories", 0) + 1
            one_run(name, box, rng.choice([6, 8, 12]), rng.choice([3, 4, 6]), rng.choice([0.0, 0.0, 0.15]), rng.choice([None, None, None, 0.5]),
                    pc_opt=rng.choice([None, None, 0.5]), plan=plan, names=param_names(rng, len(box), rng.choice(NAME_SCHEMES)), correspond=False)
    rhist["continued_run_histories_cpu_s"] = round(time.process_time() - t_cont, 2)
    ctx.coq_compare("c08_run", HEADER, "run_case", "run_obs", "c08_run_run", "run_obs_eqb", cases, expected, meta,
                    shard=ctx.pick(8, 16))



# --------------------------------------------------------------------------------------------------------------
# design-of-experiment generators
# --------------------------------------------------------------------------------------------------------------
def doe_level(ctx, dhist, opf):
    import artap.operators as ops
    import artap.doe as doe
    rng = ctx.rng
    lcases, lexp, lmeta = [], [], []
    scases, sexp, smeta = [], [], []
    cap = {}
    o_cdf, o_rand, o_lhs = doe.construct_df, doe.construct_df_from_random_matrix, doe.lhs

    def cdf(x, factor_lists):
        cap["x"] = [[int(v) for v in row] for row in x]
        cap["exact"] = all(float(v) == int(v) for row in x for v in row)
        return o_cdf(x, factor_lists)

    def crand(x, factor_lists):
        cap["w"] = [[float(v) for v in row] for row in x]
        return o_rand(x, factor_lists)

    def oracle_rows(kind, box, rows, inp):
        ok = True
        for r, row in enumerate(rows):
            if len(row) != len(box):
                ctx.oracle_failures.append({"what": "%s: design %d has dimension %d, %d parameters" % (kind, r, len(row), len(box)),
                                            "input": inp, "match": {"kind": "dimension", "op": kind}})
                return False
            for i, (lb, ub) in enumerate(box):
                why = outside(row[i], lb, ub)
                dhist["coordinates"] += 1
                if why:
                    ok = False
                    if len(ctx.oracle_failures) < 40:
                        ctx.oracle_failures.append({"what": "%s: coordinate %d of design %d = %r is %s (box [%r, %r])" % (kind, i, r, row[i], why, lb, ub),
                                                    "input": inp, "observed": [float(v) for v in row], "required": "lb <= x <= ub (up to 1e-12)",
                                                    "match": {"kind": "out_of_box", "op": kind}})
                    break
        return ok

    LEVEL_COQ_CAP = 2500          # designs * parameters above which a level design is judged by the direct oracle only

    def level_case(kind, box, shared=None):
        sh = shared or Shared(rng, box)
        params = sh.params
        if kind == "ff2":
            g = sh.obj(("ff",), lambda: ops.FullFactorGenerator(params))
            g.init(False)
        elif kind == "ff3":
            g = sh.obj(("ff",), lambda: ops.FullFactorGenerator(params))
            g.init(True)
        elif kind == "pb":
            g = sh.obj(("pb",), lambda: ops.PlackettBurmanGenerator(params))
        else:
            g = sh.obj(("bb",), lambda: ops.BoxBehnkenGenerator(params))
        inp = {"generator": type(g).__name__, "center": kind == "ff3", "box": [list(b) for b in box], "names": list(sh.names),
               "call_number_on_this_parameter_list": sh.calls + 1, "box_changed_in_place_before_this_call": sh.reboxed}
        cap.clear()
        try:
            rows = g.generate()
        except Exception as e:
            ctx.mismatches.append({"what": "%s raised %r" % (type(g).__name__, e), "case": inp})
            return
        sh.check(ctx, type(g).__name__ + ".generate", inp)
        dhist["designs"][kind] = dhist["designs"].get(kind, 0) + len(rows)
        ctx.count(("doe", kind, tuple(box)), nontrivial=len(box) > 1)
        if not oracle_rows(type(g).__name__, box, rows, inp):
            return
        if "x" not in cap or not cap["exact"] or any(v < 0 for row in cap["x"] for v in row):
            ctx.mismatches.append({"what": "%s: the design matrix is not a matrix of level indices" % type(g).__name__, "case": inp})
            return
        if any(bad_number(v) for row in rows for v in row):
            return
        if len(rows) * len(box) > LEVEL_COQ_CAP:
            dhist["level_designs_judged_by_the_oracle_only"] = dhist.get("level_designs_judged_by_the_oracle_only", 0) + 1
            return
        lcases.append("{| l_three := %s; l_params := %s; l_x := %s |}" % (bl(kind in ("ff3", "bb")), enc_params(box),
                                                                          ll(cap["x"], lambda r: ll(r, nl))))
        lexp.append("(Some %s)" % enc_vecs([[float(v) for v in row] for row in rows]))
        lmeta.append(dict(inp, designs=len(rows)))

    def scaled_case(kind, box, number, shared=None):
        sh = shared or Shared(rng, box)
        params = sh.params
        g = sh.obj((kind,), lambda: ops.LHSGenerator(params) if kind == "lhs" else ops.HaltonGenerator(params))
        g.init(number)
        seed = rng.getrandbits(31)
        doe.lhs = lambda n, samples=None, **kw: o_lhs(n, samples=samples, random_state=seed)
        inp = {"generator": type(g).__name__, "number": number, "box": [list(b) for b in box], "numpy_seed": seed, "names": list(sh.names),
               "box_changed_in_place_before_this_call": sh.reboxed}
        cap.clear()
        try:
            rows = g.generate()
        except Exception as e:
            ctx.mismatches.append({"what": "%s raised %r" % (type(g).__name__, e), "case": inp})
            return
        sh.check(ctx, type(g).__name__ + ".generate", inp)
        dhist["designs"][kind] = dhist["designs"].get(kind, 0) + len(rows)
        ctx.count(("doe", kind, tuple(box), number, seed), nontrivial=True)
        if not oracle_rows(type(g).__name__, box, rows, inp):
            return
        w = cap.get("w")
        if w is None or len(w) != len(rows) or any(not (0.0 <= v <= 1.0) for row in w for v in row):
            ctx.mismatches.append({"what": "%s: the design matrix does not lie in the unit cube" % type(g).__name__, "case": inp})
            return
        for wr, row in zip(w, rows):
            scases.append("{| d_grid := None; d_params := %s; d_w := %s; d_idx := []; d_impl := %s; d_tol := %s |}" % (
                ll(box, lambda b: pl(ql(b[0]), ql(b[1]))), ll(wr, ql), ll([float(v) for v in row], ql),
                ll([4 * Fraction(ulp_of(lb, ub)) for lb, ub in box], ql)))
            sexp.append("0%nat")
            smeta.append(dict(inp, unit_row=wr, design=[float(v) for v in row]))

    def grid_case(box, number, shared=None):
        sh = shared or Shared(rng, box)
        params = sh.params
        g = sh.obj(("grid",), lambda: ops.UniformGenerator(params))
        g.init(number)
        inp = {"generator": "UniformGenerator", "number": number, "box": [list(b) for b in box], "names": list(sh.names),
               "box_changed_in_place_before_this_call": sh.reboxed}
        try:
            rows = g.generate()
        except Exception as e:
            ctx.mismatches.append({"what": "UniformGenerator raised %r" % (e,), "case": inp})
            return
        sh.check(ctx, "UniformGenerator.generate", inp)
        dhist["designs"]["grid"] = dhist["designs"].get("grid", 0) + len(rows)
        ctx.count(("doe", "grid", tuple(box), number), nontrivial=True)
        if not oracle_rows("UniformGenerator", box, rows, inp):
            return
        d = len(box)
        if len(rows) != number ** d:
            ctx.mismatches.append({"what": "UniformGenerator returned %d designs, expected %d" % (len(rows), number ** d), "case": inp})
            return
        if len(rows) * d > LEVEL_COQ_CAP:
            rows = rows[:8] + rows[-8:]          # a large grid: the first and last designs go to the model, all went to the oracle
            picked = list(range(8)) + list(range(number ** d - 8, number ** d))
        else:
            picked = list(range(len(rows)))
        for r, row in zip(picked, rows):
            idx = [(r // number ** (d - 1 - j)) % number for j in range(d)]
            scases.append("{| d_grid := Some %s; d_params := %s; d_w := []; d_idx := %s; d_impl := %s; d_tol := %s |}" % (
                nl(number), ll(box, lambda b: pl(ql(b[0]), ql(b[1]))), ll(idx, nl), ll([float(v) for v in row], ql),
                ll([4 * Fraction(ulp_of(lb, ub)) for lb, ub in box], ql)))
            sexp.append("0%nat")
            smeta.append(dict(inp, level_indices=idx, design=[float(v) for v in row]))

    def doe_box(d, zero_width=True):
        box = []
        for _ in range(d):
            b = gen_box(rng, allow_zero_width=zero_width)
            box.append(b)
        return box

    def mixed_history():
        """generators and operators of different kinds, in random order, on ONE parameter list"""
        d = rng.choice([2, 3, 3, 4])
        box = doe_box(d)
        sh = Shared(rng, box, [rng.choice([None, None, 0.5, 1e-3]) for _ in range(d)])
        opt = opf["pick_options"](d)
        kinds = ["ff2", "ff3", "pb", "lhs", "halton", "grid", "pm", "uniform", "nonuniform", "sbx", "gen"] + (["bb", "bb"] if d >= 3 else [])
        opf["hist"]["mixed_histories"] += 1
        if sh.names != sorted(sh.names):
            opf["hist"]["name_schemes_unsorted"] += 1
        changing = rng.random() < 0.4
        for step in range(rng.choice([3, 5, 7])):
            if changing and step and rng.random() < 0.4:
                opf["history_rebox"](sh)
            box = sh.box
            k = rng.choice(kinds)
            if k in ("ff2", "ff3", "pb", "bb"):
                level_case(k, box, shared=sh)
            elif k in ("lhs", "halton"):
                scaled_case(k, box, rng.choice([1, 2, 4]), shared=sh)
            elif k == "grid":
                grid_case(box, rng.choice([2, 3]), shared=sh)
            else:
                opf["history_op"](sh, opt, k)

    def own_boxes(d):
        """every parameter has its OWN box, disjoint from all the others: [10k, 10k+1] in a random assignment of k (some
        mirrored to the negative side); a design whose columns are permuted, or scaled with another parameter's bounds, leaves it"""
        ks = list(range(1, d + 1))
        rng.shuffle(ks)
        return [((10.0 * k, 10.0 * k + 1.0) if rng.random() < 0.7 else (-10.0 * k - 1.0, -10.0 * k)) for k in ks]

    def named_stream(d, scheme, kinds):
        """all generators on one parameter list whose NAMES are not in declaration order (x_1..x_12: 'x_10' < 'x_2';
        reverse alphabetical; words; shuffled) - the box of a parameter is given by its position, not by its name"""
        box = own_boxes(d)
        names = param_names(rng, d, scheme)
        sh = Shared(rng, box, None, names=names)
        key = "named_parameter_lists"
        dhist[key] = dhist.get(key, 0) + 1
        if names != sorted(names):
            opf["hist"]["name_schemes_unsorted"] += 1
        for k in kinds:
            if k in ("ff2", "ff3", "pb", "bb"):
                level_case(k, sh.box, shared=sh)
            elif k in ("lhs", "halton"):
                scaled_case(k, sh.box, rng.choice([2, 3, 5]), shared=sh)
            elif k == "grid":
                grid_case(sh.box, 2, shared=sh)
            elif k == "gen":
                opf["gen_vector_case"](sh.box, sh.precisions, 2, rng.random, shared=sh)
            elif k == "rebox":
                sh.rebox(own_boxes(d), rng.choice(CHANGE_MODES))

    doe.construct_df = cdf
    doe.construct_df_from_random_matrix = crand
    try:
        big = ["pb", "halton", "lhs", "gen", "bb", "ff2", "grid"]
        for d, scheme in ctx.pick([(12, "x_1.."), (10, "shuffled")], [(10, "x_1.."), (11, "x_1.."), (12, "x_1.."), (12, "shuffled"), (10, "shuffled"),
                                                                      (11, "reverse"), (12, "words"), (10, "x_1.."), (12, "shuffled")]):
            named_stream(d, scheme, big if d <= 10 else [k for k in big if k not in ("ff2", "grid")])
        small = ["ff2", "ff3", "pb", "bb", "lhs", "halton", "grid", "gen", "rebox", "halton", "lhs", "ff3", "pb", "grid", "gen", "bb"]
        for d, scheme in ctx.pick([(3, "reverse"), (2, "words"), (4, "shuffled")], [(3, "reverse"), (2, "words"), (4, "shuffled"), (5, "reverse"),
                                                                                    (3, "words"), (3, "shuffled"), (6, "shuffled"), (2, "reverse")]):
            named_stream(d, scheme, [k for k in small if d >= 3 or k != "bb"])
        for _ in range(ctx.pick(40, 400)):
            mixed_history()
        level_case("ff3", [(0.0, 1.0), (-5, 5)])
        level_case("bb", [(0.0, 1.0), (-7.5, -2.25), (1e6, 1e12)])
        level_case("pb", [(0.0, 1e-12), (-1e300, 1e300), (2.0, 2.0)])
        scaled_case("halton", [(0.0, 1.0), (-7.5, -2.25)], 6)
        scaled_case("lhs", [(1e15, 1e15 + 4.0), (0.0, 1e-12)], 3)
        grid_case([(0.0, 1.0), (-5, 5)], 3)
        for _ in range(ctx.pick(60, 700)):
            k = rng.random()
            if k < 0.15:
                level_case("ff2", doe_box(rng.choice([1, 2, 3, 4, 5])))
            elif k < 0.3:
                level_case("ff3", doe_box(rng.choice([1, 2, 3, 4])))
            elif k < 0.45:
                level_case("pb", doe_box(rng.choice([1, 2, 3, 4, 5, 7, 8, 11])))
            elif k < 0.55:
                level_case("bb", doe_box(rng.choice([3, 3, 4, 5])))
            elif k < 0.7:
                scaled_case("lhs", doe_box(rng.choice([1, 2, 3, 4])), rng.choice([1, 2, 3, 5, 8]))
            elif k < 0.85:
                scaled_case("halton", doe_box(rng.choice([1, 2, 3, 4])), rng.choice([1, 2, 3, 5, 10]))
            else:
                grid_case(doe_box(rng.choice([1, 2, 3]), zero_width=True), rng.choice([2, 3, 4, 5]))
    finally:
        doe.construct_df = o_cdf
        doe.construct_df_from_random_matrix = o_rand
        doe.lhs = o_lhs
    ctx.coq_compare("c08_lvl", HEADER, "lvl_case", "option (list (list float))", "c08_lvl_run", "lvl_obs_eqb", lcases, lexp, lmeta,
                    shard=ctx.pick(40, 200))
    ctx.coq_compare("c08_sc", HEADER, "sc_case", "nat", "c08_sc_run", "Nat.eqb", scases, sexp, smeta, shard=ctx.pick(300, 1500))



# --------------------------------------------------------------------------------------------------------------
# ./check C08 --replay evidence/replays/C08_....json : re-executes the stored failing inputs on the implementation
# --------------------------------------------------------------------------------------------------------------
def replay(ctx, data):
    import artap.operators as ops
    import artap.utils as utils
    from artap.algorithm_swarm import OMOPSO, SMPSO, PSOGA
    print(json.dumps({k: data[k] for k in data if k not in ("failing_inputs", "correspondence_mismatches")}, indent=1)[:2000])
    again = 0
    for f in data.get("failing_inputs", []):
        inp, op = f.get("input", {}), f.get("match", {}).get("op", "")
        print("stored:", f.get("what"))
        try:
            if op.startswith("run/"):
                before = len(ctx.oracle_failures)
                run_level(ctx, {"runs": {}, "evaluated_vectors": 0, "failed_evaluations": 0, "coordinates_on_a_bound": 0,
                                "generation_steps": 0, "breed_passes": 0, "runs_aborted_by_complex_power": 0, "runs_skipped_nan": 0,
                                "children_dropped_by_duplicate_filter": 0}, specs=[inp])
                new = ctx.oracle_failures[before:]
                print("  now   :", new[0]["what"] if new else "every evaluated design is inside the box")
                again += bool(new)
                continue
            box = [tuple(b) for b in inp["box"]]
            params = make_params(box, inp.get("precision"))
            draws = iter(list(inp.get("draws", [])) + [0.5] * 64)
            if op == "gen_vector":
                real = utils.random
                utils.random = lambda: next(draws)
                try:
                    out = utils.VectorAndNumbers.gen_vector(params)
                finally:
                    utils.random = real
                bad = [outside(x, lb, ub, pr) for x, (lb, ub), pr in zip(out, box, inp["precision"])]
            elif op.startswith("update_position"):
                cls = {"omopso": OMOPSO, "smpso": SMPSO, "psoga": PSOGA}[inp["op"].split("/")[1]]
                part = type("P", (), {})()
                part.vector, part.features = rebuild(inp["position"], inp.get("position_given_as", "list")), {"velocity": list(inp["velocity"])}
                holder = type("H", (), {})()
                holder.parameters = params
                cls.update_position(holder, [part])
                out = plain_numbers(part.vector)
                bad = [outside(x, lb, ub, exact=True) for x, (lb, ub) in zip(out, box)]
            elif inp.get("op") in ("pm", "uniform", "nonuniform", "sbx"):
                with Recorder(ops) as rec:
                    rec.shim.source = lambda: next(draws)
                    if inp["op"] == "sbx":
                        reps = inp.get("parents_given_as", ["list", "list"])
                        out = ops.SimulatedBinaryCrossover(params, inp["probability"], inp["distribution_index"]).cross(
                            rebuild(inp["p1"], reps[0]), rebuild(inp["p2"], reps[1]))
                        out = plain_numbers(list(out[0]) + list(out[1]))
                        bad = [outside(x, lb, ub, exact=True) for x, (lb, ub) in zip(out, box + box)]
                    else:
                        parent = rebuild(inp["parent"], inp.get("parent_given_as", "list"))
                        if inp["op"] == "pm":
                            out = ops.PmMutator(params, inp["probability"], inp["distribution_index"]).mutate(parent)
                        elif inp["op"] == "uniform":
                            out = ops.UniformMutator(params, inp["probability"], inp["perturbation"]).mutate(parent)
                        else:
                            out = ops.NonUniformMutation(params, inp["probability"], inp["max_iterations"], inp["perturbation"]).mutate(parent, inp["iteration"])
                        out = plain_numbers(out)
                        bad = [outside(x, lb, ub, exact=True) for x, (lb, ub) in zip(out, box)]
            else:
                print("  (generator designs are not re-executed; input: %s)" % json.dumps(inp)[:300])
                continue
            print("  now   : result %r -> %s" % (out, [b for b in bad if b] or "inside the box"))
            again += any(bad)
        except Exception as e:
            print("  now   : raised %r" % (e,))
            again += 1
    for m in data.get("correspondence_mismatches", [])[:5]:
        print("mismatch:", json.dumps(m, default=str)[:600])
    print("replay: %d stored failing input(s) still fail" % again)
    return 1 if again else 0


LEVEL_TEXT = ("Machine-checked Coq theorems over an executable model of Operator.clip, the polynomial / uniform / non-uniform mutators, SBX, "
              "the swarm position update, gen_number / gen_vector, the level / unit-cube / grid mapping of the DoE generators and one "
              "generation of NSGA-II, eps-MOEA, OMOPSO, SMPSO and PSOGA (incl. the re-roll of failed evaluations). Operator level: for every "
              "strictly-weakly-ordered coordinate type (instantiated at binary64 with Python's `<`, proved from the IEEE spec), every box with "
              "lb <= ub, every parent in the box, every probability and every oracle tape (random draws and pre-clip values, hence every "
              "distribution index, perturbation and iteration number) the children have the parent's dimension and lie in the box; the position "
              "update lands in the box for every velocity. Generators: gen_number is within precision/2 (default 1e-12) of [lb, ub] in exact "
              "rational arithmetic; level designs for every index matrix, scaled designs for every matrix in the unit cube, the uniform grid. "
              "Run level: by induction over the generations, for every population size, generation count, selection, tape, velocity and failure "
              "pattern, every vector submitted to the objective lies in the box widened by the generators' rounding slack (composed with "
              "gen_vector in exact arithmetic: within half a precision step of the declared box). The model is tied to artap on every run: "
              "operators replayed in Coq on recorded tapes and compared bit for bit, gen_vector / LHS / Halton / grid compared as exact rationals "
              "under 4 ulp, DoE level designs bit for bit, and whole short runs of the five algorithms replayed in Coq from the recorded "
              "selections / tapes / velocities / re-rolls with every evaluated vector compared bit for bit; a direct oracle checks box "
              "membership of every child, generated design and evaluated vector on the implementation alone.")
LEVEL_NOTE = ("Trusted: Coq kernel + vm_compute; FloatAxioms.ltb_spec/eqb_spec; the hand-written models and the Python harness. Oracles (inputs of "
              "the model, arbitrary in the theorems): random draws, the pre-clip value of the pow formulas, tournament / archive / truncation / "
              "pop_acceptance choices, velocities, which evaluations fail, the pyDOE design matrices. gen_number and the scaled designs are "
              "proved in exact rationals; their binary64 rounding error (measured <= 1 ulp of the larger bound) is covered by the 4-ulp "
              "tolerance of the correspondence and of the oracle, not by a theorem. That the mid-point (lb+ub)/2 lies between the bounds is a "
              "hypothesis of the three-level theorem (proved for rationals, checked on every run for binary64). Outside the statement: NaN, "
              "the swarm position update on a particle whose position is an INTEGER ndarray (update_position works in place and numpy "
              "truncates; no shipped path creates such a position; run and counted, not judged - lead's ruling in round 3), "
              "ranges whose width overflows, parameter_type 'integer', populations of one (direct oracle only), crashes (ZeroDivisionError of "
              "polynomial mutation for lb = ub; TypeError from a complex power when a parent lies outside the box by the rounding slack). "
              "Correspondence is sampled, the theorems are unbounded.")
