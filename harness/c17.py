"""C17 - result queries and quality indicators: correspondence with Model/Results.v (float instance, ids and
float bits compared exactly) and Model/Indicators.v (exact rationals; gd through its proved rational
enclosure), and the direct oracle (the property's clauses evaluated on the implementation's outputs alone).

The model of a query is a function of (tag, vector, costs, front number) of the individuals in problem.individuals
and of the declared criteria: that is what the unchanged code reads (Individual.population_id, .vector, .costs,
features['front_number'], Problem.costs[j]['criteria']).  Everything else is varied by the correspondence so that a
query that starts to depend on it disagrees with the model: how the individual got onto the problem (by hand, through
Job / Algorithm.evaluate / evaluate_scalar so that costs_signed = sign * round(cost, precision) ++ [marker] exists,
from_dict, copy), costs_signed itself (consistent, stale, wrong), class, id, state, features, value representation,
the data-store copy, and the history of the Problem / Results objects (long-lived objects, earlier recordings,
containers handed out by earlier queries and modified by the caller, re-tagging, replaced lists, changed criteria)."""
import glob
import json
import math
import os
from collections import Counter
from fractions import Fraction

from harness.core import fl, zl, nl, bl, ql, ll, optl, FLOAT_AXIOMS, REAL_AXIOMS, VERIF, translated_specs
TRANSLATED = translated_specs("PopulationGen", "FindOptimumGen", "IndicatorsGen")      # regenerated from the source on every run (notes/TRANSLATOR.md)

PROP = "C17"
THEOREMS = {"Artap.Props.C17": [
    "C17_population_is_filter", "C17_populations_grouping", "C17_table_rows_paired", "C17_table_transposed_columns",
    "C17_pareto_front_spec", "C17_pareto_values_spec",
    "C17_sorted_listing_is_permutation_of_pairs", "C17_sorted_listing_exact", "C17_goal_on_parameter_pairs",
    "C17_parameter_on_goal_pairs", "C17_find_optimum_extremal", "C17_find_optimum_first", "C17_float_find_optimum",
    "C17_maxdiff_is_max", "C17_eps_add_max_min_max", "C17_eps_add_nonneg", "C17_eps_add_identical_zero",
    "C17_eps_add_shift", "C17_gd_mean_min_distance", "C17_gd_zero_iff_subset", "C17_gd_enclosure_sound",
    "C17_gd_enclosure_red_sound"]}
AXIOMS_OK = FLOAT_AXIOMS + REAL_AXIOMS
TRUSTED = [
    "Coq 8.16.1 kernel; vm_compute for model evaluation in the generated case files (no native_compute)",
    "result-query theorems: closed under the global context for every strictly-weakly-ordered value type; the binary64 "
    "instance (C17_float_find_optimum, and what the correspondence runs) rests on FloatAxioms.ltb_spec/eqb_spec and the "
    "primitive float operations of the standard library",
    "epsilon-indicator theorems: exact rationals, closed under the global context",
    "generational-distance theorems: Coq's classical real numbers (ClassicalDedekindReals.sig_forall_dec, sig_not_dec, "
    "FunctionalExtensionality.functional_extensionality_dep)",
    "hand-written models Model/Results.v and Model/Indicators.v, tied to results.py / problem.py / quality_indicator.py by "
    "this correspondence run (sampled cases)",
    "Python harness: recording of individuals (by hand and through artap's own Job / Algorithm / Evaluator / from_dict / "
    "copy / SqliteDataStore code), id renumbering, float -> hex / exact-rational encoders, generators, direct oracle",
]
ASSUMPTIONS = [
    "recorded values are non-NaN binary64 floats (Python `<`/`==` on them is the strict weak order fltb, -0.0 == 0.0); "
    "every recorded individual has one vector entry per declared parameter and one cost per declared goal; population tags "
    "are integers >= -1 (-1 = never assigned, and population_id=-1 means 'the last population' in Results.population)",
    "the recorded data of a query is problem.individuals as it is when the query is made: each individual's population_id, "
    "vector, costs and features['front_number'], and the criteria declared in Problem.costs at that moment; costs_signed "
    "(the rounded, sign-adjusted copy kept for the selectors), ids, states, other features and the data-store copy are not "
    "part of it (they are varied by the correspondence, stale and inconsistent values included)",
    "sorted listings: Python's sorted()/list.sort() is the stable sort, tuples compare lexicographically with `==` on the "
    "first component; keys that are `==` but not identical (-0.0 / 0.0) may exchange their places between the two returned "
    "lists (theorem C17_sorted_listing_is_permutation_of_pairs states pairing up to `==` on keys, C17_sorted_listing_exact "
    "exactly when `==` is identity)",
    "indicators: the theorems are about exact rational / real arithmetic on point sets whose points all have the same "
    "number m >= 1 of coordinates; numpy/scipy binary64 rounding is bounded only on the sampled dyadic point sets "
    "(epsilon_add compared exactly, gd within 2^-40*(1+|y|) of the proved enclosure of the real value)",
    "scipy.spatial.distance.cdist with another norm than 'euclidean' is not modelled",
]

HEADER = ("From Artap Require Import Run.C17Run.\nFrom Coq Require Import List ZArith QArith Floats.\n"
          "Import ListNotations.\nOpen Scope float_scope.\n")
IHEADER = ("From Artap Require Import Run.C17Run.\nFrom Coq Require Import List ZArith QArith.\n"
           "Import ListNotations.\n")

SMALL = [0.0, 1.0, 2.0, 3.0]
GRID = [0.0, -0.0, 1.0, 2.0, 3.0, 0.5, 1.5, -1.0, -2.5, 1e-9, 1.0 + 2 ** -52, 1.0 - 2 ** -53, 1e300, -1e300, 5e-324,
        0.1, 0.2, 0.30000000000000004, 0.3, 7.25, float("inf"), float("-inf")]
ZEROS = [0.0, -0.0, 0.0, -0.0, 1.0, -1.0]
CRITS = [None, "minimize", "maximize"]


def hx(x):
    return float(x).hex()


def hxl(l):
    return tuple(hx(v) for v in l)


def eqkey(x):
    """key under Python's `==` on floats (-0.0 == 0.0)."""
    return hx(float(x) + 0.0)


# ---------------------------------------------------------------------------------------------
# result queries
PATHS = ("hand", "job", "algorithm", "scalar", "from_dict", "copy")
EVALUATED = ("job", "algorithm", "scalar")


class Rec:
    """One recorded individual: what the model sees (tag, vec, costs, front) and HOW it is put on the problem
    (`how`: everything the model ignores -- evaluation path, costs_signed, class, id, features, representation)."""
    __slots__ = ("tag", "vec", "costs", "front", "how")

    def __init__(self, tag, vec, costs, front=1, how=None):
        self.tag, self.vec, self.costs = int(tag), [float(v) for v in vec], [float(v) for v in costs]
        self.front = int(front)         # recorded feature 'front_number'
        self.how = dict(how or {})

    def js(self):
        return [self.tag, list(self.vec), list(self.costs), self.front, dict(self.how)]

    def key(self):
        h = self.how
        return (self.tag, hxl(self.vec), hxl(self.costs), self.front, h.get("path", "hand"), str(h.get("signed")),
                h.get("cls", "Individual"), h.get("precision", 7), h.get("id"), h.get("rep", "float"))


def gen_tags(rng, n):
    style = rng.random()
    pool = rng.sample([0, 1, 2, 3, 4, 7], rng.choice([1, 2, 2, 3, 3, 4]))
    if rng.random() < 0.2:
        pool.append(-1)
    if style < 0.55:                       # unsorted, repeated
        return [rng.choice(pool) for _ in range(n)]
    if style < 0.70:                       # the way an algorithm records: ascending blocks
        return sorted(t for t in (rng.choice(pool) for _ in range(n)))
    if style < 0.80:                       # descending: the last generation was recorded first
        return sorted((rng.choice(pool) for _ in range(n)), reverse=True)
    if style < 0.88:
        return [pool[0]] * n
    if style < 0.93:
        return [-1] * n                    # never assigned
    tags = [rng.choice(pool) for _ in range(n)]      # the largest tag exactly once, somewhere in the middle
    if n:
        tags[rng.randrange(n)] = max(pool) + 1
    return tags


def ulps(x, k):
    for _ in range(abs(k)):
        x = math.nextafter(x, math.inf if k > 0 else -math.inf)
    return x


def tiny_grid(rng):
    """values that differ below the stored precision of costs_signed (7 decimals): equal after rounding, different
    raw; around several magnitudes, plus the gear-train error magnitudes and subnormals."""
    base = rng.choice([0.0, 1.0, 0.1234567, -3.5, 2.5e-8, 1e-12, 1234.5, 1e300, -1e-7, 0.30000000000000004])
    kind = rng.choice(["1e-8", "1e-11", "ulp", "mixed", "mixed"])
    vals = [base]
    for k in (1, 2, 3):
        for s in (1, -1):
            if kind in ("1e-8", "mixed"):
                vals.append(base + s * k * 1e-8)
            if kind in ("1e-11", "mixed"):
                vals.append(base + s * k * 1e-11)
            if kind in ("ulp", "mixed"):
                vals.append(ulps(base, s * k))
    if rng.random() < 0.35:
        vals += [2.7e-12, 2.3e-11, 9.9e-10, 1.5e-9, 5e-324, 1e-310, 4.9e-8, 5.1e-8]
    if rng.random() < 0.2:
        vals += [1e300, ulps(1e300, 1), -1e300, 1e-300]
    out, seen = [], set()
    for v in vals:
        if hx(v) not in seen and math.isfinite(v):
            seen.add(hx(v))
            out.append(v)
    return out


def gen_how(rng, profile, recs, ng, grid, collide):
    """the model-invisible part of one recorded individual."""
    if profile == "hand":
        return {}
    if profile == "evaluated":
        return {"path": rng.choice(EVALUATED), "tag_when": rng.choice(["before", "after"])}
    how = {}
    r = rng.random()
    path = ("hand" if r < 0.28 else "job" if r < 0.52 else "algorithm" if r < 0.72 else "scalar" if r < 0.82
            else "from_dict" if r < 0.92 else "copy")
    if path == "copy" and not recs:
        path = "hand"
    how["path"] = path
    if path == "copy":
        how["src"] = rng.randrange(len(recs))
        return how
    if path != "scalar":
        how["cls"] = rng.choice(["Individual", "Individual", "NSGAII", "EpsMOEA", "Swarm"])
    if path in EVALUATED or (path == "from_dict" and rng.random() < 0.5):
        how["tag_when"] = rng.choice(["before", "after"])
        if path == "from_dict":
            how["base"] = "job"
        r = rng.random()
        how["signed"] = (None if r < 0.55 else "stale" if r < 0.72 else "reversed" if r < 0.80 else "constant" if r < 0.86
                         else "short" if r < 0.91 else "permuted" if r < 0.95 else "exact")
        if how["signed"] == "stale":
            how["old_costs"] = [rng.choice(grid) for _ in range(ng)]
    else:
        r = rng.random()
        how["signed"] = (None if r < 0.6 else "rounded" if r < 0.72 else "exact" if r < 0.8 else "reversed" if r < 0.88
                         else "constant" if r < 0.94 else "stale")
        if how["signed"] == "stale":
            how["old_costs"] = [rng.choice(grid) for _ in range(ng)]
    if rng.random() < 0.2 and path != "scalar":
        how["precision"] = rng.choice([2, 0, 12, 3])
    if rng.random() < 0.1 and path != "scalar":
        how["feasible"] = rng.choice([True, False, 1.5])
    if collide:
        how["id"] = rng.choice([0, 0, 1])
    r = rng.random()
    how["rep"] = "float" if r < 0.7 else "np" if r < 0.9 else "int"
    if path == "from_dict" and how["rep"] == "int":
        how["rep"] = "float"            # numpy.int64 entries of costs_signed cannot be written as JSON
    return how


def gen_recs(rng, n, npar, ng, grid, tags, profile, earlier=(), collide=False):
    recs = []
    for i in range(n):
        pool = list(earlier) + recs
        how = gen_how(rng, profile, pool, ng, grid, collide)
        if how.get("path") == "copy":            # Individual.copy() of an earlier one: same vector, (shared) costs
            o = pool[how["src"]]
            vec, costs = list(o.vec), list(o.costs)
            how["cls"] = o.how.get("cls", "Individual") if o.how.get("path") not in ("scalar", "from_dict") else "Individual"
        elif pool and rng.random() < 0.2:       # a duplicate of an earlier individual (other tag, other object)
            o = rng.choice(pool)
            vec, costs = list(o.vec), list(o.costs)
            if rng.random() < 0.5:
                costs[rng.randrange(ng)] = rng.choice(grid)
        else:
            vec = [rng.choice(grid) for _ in range(npar)]
            costs = [rng.choice(grid) for _ in range(ng)]
        recs.append(Rec(tags[i], vec, costs, rng.choice([1, 1, 2, 3]), how))
    return recs


def gen_grid(rng, profile):
    r = rng.random()
    if profile == "evaluated":
        return tiny_grid(rng) if r < 0.75 else SMALL if r < 0.85 else GRID
    if profile == "mixed":
        return tiny_grid(rng) if r < 0.45 else SMALL if r < 0.7 else ZEROS if r < 0.8 else GRID
    return SMALL if r < 0.5 else ZEROS if r < 0.62 else GRID if r < 0.9 else tiny_grid(rng)


def gen_profile(rng):
    r = rng.random()
    return "hand" if r < 0.3 else "evaluated" if r < 0.6 else "mixed"


def gen_results_case(rng):
    npar = rng.choice([1, 2, 2, 3])
    ng = rng.choice([1, 2, 2, 3])
    crit = [rng.choice(CRITS) for _ in range(ng)]
    r = rng.random()
    n = 0 if r < 0.03 else 1 if r < 0.08 else rng.randrange(2, 11)
    profile = gen_profile(rng)
    grid = gen_grid(rng, profile)
    tags = gen_tags(rng, n)
    return npar, crit, gen_recs(rng, n, npar, ng, grid, tags, profile, collide=(profile == "mixed" and rng.random() < 0.2))


def edited(recs, st):
    """the records after a 'retag' / 'recost' / 'revector' step (new list, new Rec)."""
    recs = list(recs)
    o = recs[st[1]]
    if st[0] == "retag":
        recs[st[1]] = Rec(st[2], o.vec, o.costs, o.front, dict(o.how, retagged=True))
    elif st[0] == "recost":
        recs[st[1]] = Rec(o.tag, o.vec, st[2], o.front, dict(o.how, recost=True))
    else:
        recs[st[1]] = Rec(o.tag, st[2], o.costs, o.front, dict(o.how, revector=True))
    return recs


def gen_session(rng):
    """A history on ONE problem and ONE long-lived Results object: record, query, record more / re-tag / replace costs or
    vector / reorder or replace the individuals list / change a goal's criteria, query again ...  Every 'query' step is
    one correspondence case on the recording as it is at that moment."""
    npar = rng.choice([1, 2, 2, 3])
    ng = rng.choice([1, 2, 2])
    crit = [rng.choice(CRITS) for _ in range(ng)]
    profile = rng.choice(["evaluated", "mixed", "mixed", "hand"])
    grid = gen_grid(rng, profile)
    collide = profile == "mixed" and rng.random() < 0.2
    fresh = rng.random() < 0.5
    steps, recs, gen = [], [], 0
    n = rng.randrange(1, 6)
    batch = gen_recs(rng, n, npar, ng, grid, [gen] * n if rng.random() < 0.6 else gen_tags(rng, n), profile, recs, collide)
    steps.append(("record", batch))
    recs = recs + batch
    steps.append(("query",))
    for _ in range(rng.choice([1, 2, 2, 3])):
        for _ in range(rng.choice([1, 1, 2, 3])):
            r = rng.random()
            if r < 0.4 or not recs:
                gen += 1
                n = rng.randrange(1, 5)
                tags = [gen] * n if rng.random() < 0.6 else gen_tags(rng, n)
                batch = gen_recs(rng, n, npar, ng, grid, tags, profile, recs, collide)
                steps.append(("record", batch))
                recs = recs + batch
            elif r < 0.58:
                steps.append(("retag", rng.randrange(len(recs)), rng.choice([0, 1, 2, 3, gen + 1, -1, 7])))
                recs = edited(recs, steps[-1])
            elif r < 0.72:
                steps.append(("recost", rng.randrange(len(recs)), [rng.choice(grid) for _ in range(ng)]))
                recs = edited(recs, steps[-1])
            elif r < 0.78:
                steps.append(("revector", rng.randrange(len(recs)), [rng.choice(grid) for _ in range(npar)]))
                recs = edited(recs, steps[-1])
            elif r < 0.92:
                perm = list(range(len(recs)))
                k = rng.random()
                if k < 0.4:
                    rng.shuffle(perm)
                elif k < 0.7:
                    perm = perm[1:] + perm[:1]
                elif k < 0.85:
                    perm.reverse()
                # else: the same content in a new list object
                steps.append(("reorder", perm, rng.random() < 0.5))
                recs = [recs[i] for i in perm]
            elif fresh:
                steps.append(("criteria", rng.randrange(ng), rng.choice(CRITS)))
        steps.append(("query",))
    return npar, crit, steps, fresh


def crit_l(c):
    return {None: "CritAbsent", "minimize": "CritMinimize"}.get(c, "CritOther")


def rec_l(i, r):
    return "{| r_id := %s; r_tag := %s; r_vec := %s; r_costs := %s |}" % (nl(i), zl(r.tag), ll(r.vec, fl), ll(r.costs, fl))


def fll(rows):
    return ll([ll([float(v) for v in row], fl) for row in rows])


class Err(Exception):
    pass


def results_queries(rng, npar, crit, recs, full):
    """(coq query term, python thunk description) list for one case."""
    ng = len(crit)
    tags = sorted(set(r.tag for r in recs))
    absent = next(t for t in range(0, 12) if t not in tags)
    pids = [-1] + tags + [absent]
    qs = []
    if full:
        for pid in pids:
            qs.append(("QPopulation %s" % zl(pid), ("population", pid)))
    else:
        for pid in [-1, rng.choice(pids), rng.choice(pids)]:
            qs.append(("QPopulation %s" % zl(pid), ("population", pid)))
    for pid in ([-1] + tags[:2] + [absent]) if full else [rng.choice(pids)]:
        qs.append(("QProblemPopulation %s" % zl(pid), ("problem_population", pid)))
    qs.append(("QLastPopulation", ("last_population",)))
    qs.append(("QPopulations", ("populations",)))
    qs.append(("QTable true", ("table", True)))
    qs.append(("QTable false", ("table", False)))
    qs.append(("QParameters", ("parameters",)))
    qs.append(("QCosts", ("costs",)))
    pairs = [(pi, gi) for pi in range(npar) for gi in range(ng)]
    if not full:
        pairs = rng.sample(pairs, min(2, len(pairs)))
    for pi, gi in pairs:
        pid = rng.choice(pids)
        for s in (False, True):
            qs.append(("QGoalOnParameter %s %s %s %s" % (nl(pi), nl(gi), zl(pid), bl(s)), ("goal_on_parameter", pi, gi, pid, s)))
        pid = rng.choice(pids)
        for s in (False, True):
            qs.append(("QParameterOnGoal %s %s %s %s" % (nl(gi), nl(pi), zl(pid), bl(s)), ("parameter_on_goal", gi, pi, pid, s)))
    for _ in range(2 if full else 1):
        p1, p2, pid = rng.randrange(npar), rng.randrange(npar), rng.choice(pids)
        for s in (False, True):
            qs.append(("QParameterOnParameter %s %s %s %s" % (nl(p1), nl(p2), zl(pid), bl(s)), ("parameter_on_parameter", p1, p2, pid, s)))
    pid = rng.choice(pids)
    for w in ([None] + list(range(ng))) if full else [None, rng.randrange(ng)]:
        qs.append(("QGoalOnIndex %s %s" % (optl(w, nl), zl(pid)), ("goal_on_index", w, pid)))
    pid = rng.choice(pids)
    for w in ([None] + list(range(npar))) if full else [None, rng.randrange(npar)]:
        qs.append(("QParameterOnIndex %s %s" % (optl(w, nl), zl(pid)), ("parameter_on_index", w, pid)))
    front = ll([i for i, r in enumerate(recs) if r.front == 1], nl)
    for pid in [None, rng.choice(pids)]:
        qs.append(("QParetoIndividuals %s %s" % (front, zl(-1 if pid is None else pid)), ("pareto_individuals", pid)))
        qs.append(("QParetoFront %s %s" % (front, zl(-1 if pid is None else pid)), ("pareto_front", pid)))
    qs.append(("QParetoValues", ("pareto_values",)))
    qs.append(("QPopulationIds", ("get_population_ids",)))
    qs.append(("QFindOptimum %s" % nl(0), ("find_optimum", None)))
    for gi in range(ng):
        qs.append(("QFindOptimum %s" % nl(gi), ("find_optimum", gi)))
    # asked again at the end, after every list handed out above has been modified by the caller
    pid = rng.choice(pids)
    qs.append(("QPopulation %s" % zl(pid), ("population", pid)))
    qs.append(("QPopulations", ("populations",)))
    qs.append(("QTable false", ("table", False)))
    gi = rng.randrange(ng)
    qs.append(("QFindOptimum %s" % nl(gi), ("find_optimum", gi)))
    return qs


def conv(v, rep, np):
    if rep == "np":
        return np.float64(v)
    if rep == "int" and math.isfinite(v) and v != 0 and abs(v) < 2 ** 53 and v == int(v):
        return int(v)
    return v


class Session:
    """one problem, its long-lived Results / algorithm / job objects, the live individuals and their records."""

    def __init__(self, env, npar, crit, pooled, parts=None):
        self.env, self.npar, self.crit = env, npar, list(crit)
        self.problem, self.results, self.algorithm, self.job = parts or env["problem"](npar, crit, pooled)
        self.objs, self.recs, self.history = [], [], []
        self.pooled, self.reused = pooled, 0

    def start(self, rng):
        """an empty recording: a new list object or the old one emptied in place (the problem may be an old one)."""
        if rng.random() < 0.5:
            self.problem.individuals = []
        else:
            self.problem.individuals.clear()
        if rng.random() < 0.3:
            self.results = self.env["Results"](self.problem)
        self.objs, self.recs = [], []

    # ---- recording ----------------------------------------------------------------------------
    def record(self, batch):
        env, p = self.env, self.problem
        np = env["np"]
        ng = len(self.crit)
        pending = []          # consecutive individuals evaluated by ONE Algorithm.evaluate call

        def flush():
            if pending:
                self.algorithm.evaluate([o for o, _ in pending])
                for o, r in pending:
                    self.finish(o, r)
                del pending[:]

        for r in batch:
            how = r.how
            path = how.get("path", "hand")
            rep = how.get("rep", "float")
            vec = [conv(v, rep, np) for v in r.vec]
            costs = [conv(v, rep, np) for v in r.costs]
            first = [conv(v, rep, np) for v in how["old_costs"]] if how.get("signed") == "stale" else costs
            if path != "algorithm":
                flush()
            if path == "scalar":
                p.queue.append(first)
                self.algorithm.evaluator.evaluate_scalar(vec)       # creates, appends and evaluates the individual itself
                o = p.individuals[-1]
                self.objs.append(o)
                self.finish(o, r)
                continue
            if path == "copy":
                src = self.objs[how["src"]] if how["src"] < len(self.objs) else None
                if src is None or not hasattr(src, "copy") or [float(v) for v in src.vector] != r.vec:
                    raise Err("harness: bad copy source")
                o = src.copy()
                if not (o.costs is src.costs and len(o.costs) == ng):      # only IndividualNSGAII.copy shares the costs
                    o.costs = costs
                o.population_id = r.tag
                o.features["front_number"] = r.front
                p.individuals.append(o)
                self.objs.append(o)
                continue
            o = env["classes"][how.get("cls", "Individual")](vec)
            if "precision" in how:
                o.features["precision"] = how["precision"]
            if "feasible" in how:
                o.features["feasible"] = how["feasible"]
            if "id" in how:
                o.id = how["id"]
            if "best_cost" in o.features:                    # swarm individuals carry a second cost/vector pair
                o.features["best_cost"] = [c + 1.0 for c in r.costs][::-1]
                o.features["best_vector"] = [v - 1.0 for v in r.vec][::-1]
            base = how.get("base", "hand") if path == "from_dict" else path
            if base in EVALUATED and how.get("tag_when") == "before":
                o.population_id = r.tag
            if path == "from_dict":
                if base == "job":
                    p.pending[id(o)] = first
                    self.job.evaluate(o)
                self.finish(o, r)
                d = o.to_dict()
                if how.get("json", True):
                    d = json.loads(json.dumps(d))
                o = env["Individual"].from_dict(d)
                p.individuals.append(o)
                self.objs.append(o)
                continue
            p.individuals.append(o)
            self.objs.append(o)
            if path == "hand":
                self.finish(o, r)
            elif path == "job":
                p.pending[id(o)] = first
                self.job.evaluate(o)
                self.finish(o, r)
            else:
                p.pending[id(o)] = first
                pending.append((o, r))
        flush()
        self.recs = self.recs + list(batch)
        self.verify()

    def verify(self):
        """harness self-check: the live objects carry exactly the records (a failure here is a harness error)."""
        if not self.in_sync() or len(self.objs) != len(self.recs):
            raise Err("harness: problem.individuals is not the list of recorded objects")
        for i, (o, r) in enumerate(zip(self.objs, self.recs)):
            if not (hxl(o.vector) == hxl(r.vec) and hxl(o.costs) == hxl(r.costs) and o.population_id == r.tag
                    and o.features["front_number"] == r.front):
                raise Err("harness: recorded object %d does not carry its record" % i)

    def finish(self, o, r):
        """after the evaluation: tag, front number, the final costs and the requested state of costs_signed."""
        env, how = self.env, r.how
        np = env["np"]
        rep = how.get("rep", "float")
        path = how.get("path", "hand")
        evaluated = path in EVALUATED or (path == "from_dict" and how.get("base") == "job")
        signs = self.problem.signs
        o.population_id = r.tag
        o.features["front_number"] = r.front
        if "id" in how:
            o.id = how["id"]
        costs = [conv(v, rep, np) for v in r.costs]
        mode = how.get("signed")
        if evaluated:
            if o.state != o.State.EVALUATED or len(o.costs_signed) != len(r.costs) + 1:
                raise Err("harness: the individual was not evaluated by the job")
            if mode == "stale":
                o.costs = costs                   # the costs were replaced after the evaluation; costs_signed is old
            elif [hx(float(c)) for c in o.costs] != [hx(c) for c in r.costs]:
                raise Err("harness: the job stored other costs than the problem returned")
        else:
            o.costs = costs
        marker = [not o.features["feasible"]]
        if mode == "reversed":
            o.costs_signed = [-s * c for s, c in zip(signs, r.costs)] + marker
        elif mode == "constant":
            o.costs_signed = [0.0] * len(r.costs) + marker
        elif mode == "short":
            o.costs_signed = marker if len(r.costs) > 1 else []
        elif mode == "permuted":
            o.costs_signed = [s * c for s, c in zip(signs, r.costs[1:] + r.costs[:1])] + marker
        elif mode == "exact":
            o.costs_signed = [s * c for s, c in zip(signs, r.costs)] + marker
        elif mode == "rounded":
            o.calc_signed_costs(signs)
        elif mode == "stale" and not evaluated:
            o.costs_signed = [s * c for s, c in zip(signs, how["old_costs"])] + marker

    # ---- the other history steps --------------------------------------------------------------
    def step(self, st):
        kind = st[0]
        p = self.problem
        if kind == "record":
            self.record(st[1])
            self.history.append(["record", [r.js() for r in st[1]]])
        elif kind == "retag":
            self.objs[st[1]].population_id = st[2]
            self.recs = edited(self.recs, st)
            self.history.append(["retag", st[1], st[2]])
        elif kind == "recost":
            self.objs[st[1]].costs = list(st[2])              # a new list; costs_signed, if any, stays what it was
            self.recs = edited(self.recs, st)
            self.history.append(["recost", st[1], list(st[2])])
        elif kind == "revector":
            self.objs[st[1]].vector = list(st[2])
            self.recs = edited(self.recs, st)
            self.history.append(["revector", st[1], list(st[2])])
        elif kind == "reorder":
            perm, inplace = st[1], st[2]
            self.objs = [self.objs[i] for i in perm]
            self.recs = [self.recs[i] for i in perm]
            if inplace:
                p.individuals[:] = self.objs
            else:
                p.individuals = list(self.objs)
            self.history.append(["reorder", list(perm), "in place" if inplace else "new list"])
        elif kind == "criteria":
            j, c = st[1], st[2]
            if c is None:
                p.costs[j].pop("criteria", None)
            else:
                p.costs[j]["criteria"] = c
            self.crit[j] = c
            self.history.append(["criteria", j, c])
        else:
            raise ValueError(kind)
        self.verify()

    def in_sync(self):
        ind = self.problem.individuals
        return len(ind) == len(self.objs) and all(a is b for a, b in zip(ind, self.objs))


def signed_sensitivity(crit, objs, recs):
    """harness-side measurement (not a check): would ranking by costs_signed pick another optimum than ranking by costs,
    do the costs_signed values differ from the costs?"""
    rank = values = False
    for j, c in enumerate(crit):
        if not objs or any(len(o.costs_signed) <= j for o in objs):
            continue
        try:
            by_signed = min(range(len(objs)), key=lambda i: objs[i].costs_signed[j])
        except Exception:
            continue
        vals = [r.costs[j] for r in recs]
        best = min(vals) if c in (None, "minimize") else max(vals)
        rank = rank or vals[by_signed] != best
        values = values or any(hx(float(o.costs_signed[j])) != hx(r.costs[j]) for o, r in zip(objs, recs))
    return rank, values


def scramble(rng, kind, raw):
    """the caller post-processes what a query handed out (the outer containers and the lists that are not the
    individuals' own vector / costs lists): a later query must not be affected."""
    try:
        if kind in ("population", "problem_population", "last_population", "pareto_individuals"):
            k = rng.randrange(4)
            if k == 0:
                raw.reverse()
            elif k == 1:
                raw.clear()
            elif k == 2:
                raw.sort(key=lambda o: -float(o.costs[0]) if len(o.costs) else 0.0)
                del raw[1:]
            else:
                raw.extend(raw[:1] * 2)
        elif kind == "populations":
            for v in list(raw.values()):
                v.reverse()
                del v[1:]
            if rng.random() < 0.5:
                raw.clear()
            else:
                raw[97] = []
        elif kind in ("parameters", "pareto_values"):          # rows are the individuals' own lists: outer list only
            raw.reverse()
            del raw[1:]
        elif kind == "table":
            if isinstance(raw, list):
                for row in raw:
                    if isinstance(row, list):
                        row.clear()
                raw.reverse()
                del raw[1:]
        elif kind in ("costs", "goal_on_parameter", "parameter_on_goal", "parameter_on_parameter", "goal_on_index",
                      "parameter_on_index", "pareto_front"):
            for col in raw:
                if isinstance(col, list):
                    col.reverse()
                    del col[1:]
            raw.reverse()
        elif kind == "get_population_ids":
            raw.clear()
    except Exception:
        pass


def run_queries(sess, queries, ctx, stats, rng, scramble_p):
    """Runs every query on the implementation for the recording as it is now, runs the direct oracle on the outputs,
    returns the list of observation terms."""
    env = sess.env
    problem, res, npar, crit, recs, inds = sess.problem, sess.results, sess.npar, sess.crit, list(sess.recs), list(sess.objs)
    ident = {id(o): i for i, o in enumerate(inds)}
    case_json = {"kind": "results", "nparams": npar, "criteria": list(crit), "recorded": [r.js() for r in recs]}
    if sess.history:
        case_json["history"] = list(sess.history)
    if sess.reused:
        case_json["earlier_recordings_on_this_problem_object"] = sess.reused
    asked = []
    sess.history.append(["queries", asked])

    def ids(lst):
        out = []
        for o in lst:
            if id(o) not in ident:
                raise Err("returned an object that was not recorded")
            out.append(ident[id(o)])
        return out

    def fail(what, q, observed):
        ctx.oracle_failures.append({"what": what, "input": dict(case_json, query=list(q)), "observed": repr(observed)[:600],
                                    "match": {"kind": "results_query", "query": q[0]}})

    maxtag = max([r.tag for r in recs], default=None)

    def want_population(pid):
        t = pid
        if pid == -1:
            t = maxtag
        return [i for i, r in enumerate(recs) if r.tag == t]

    rows_want = Counter(hxl(r.vec + r.costs) for r in recs)
    obs = []
    for term, q in queries:
        kind = q[0]
        stats["queries"][kind] = stats["queries"].get(kind, 0) + 1
        asked.append(list(q))
        raw = None
        try:
            if kind == "population":
                raw = res.population(q[1]) if q[1] != -1 or stats["flip"]() else res.population()
                out = ids(raw)
                obs.append("OIds %s" % ll(out, nl))
                if out != want_population(q[1]):
                    fail("population(%d) returned individuals %r, the individuals carrying that tag in recording order are %r"
                         % (q[1], out, want_population(q[1])), q, out)
            elif kind == "problem_population":
                raw = problem.population(q[1])
                out = ids(raw)
                obs.append("OIds %s" % ll(out, nl))
                want = [i for i, r in enumerate(recs) if r.tag == q[1]]
                if out != want:
                    fail("Problem.population(%d) returned %r, expected %r" % (q[1], out, want), q, out)
            elif kind == "last_population":
                raw = problem.last_population()
                out = ids(raw)
                obs.append("OIds %s" % ll(out, nl))
                if out != want_population(-1):
                    fail("last_population() returned %r, the last generation is %r" % (out, want_population(-1)), q, out)
            elif kind == "populations":
                raw = problem.populations()
                out = [(int(k), ids(v)) for k, v in raw.items()]
                obs.append("OGroups %s" % ll(["(%s, %s)" % (zl(k), ll(v, nl)) for k, v in out]))
                for k, v in out:
                    if v != [i for i, r in enumerate(recs) if r.tag == k]:
                        fail("populations()[%d] = %r is not the recording filtered by that tag" % (k, v), q, out)
                if sorted(k for k, _ in out) != sorted(set(r.tag for r in recs)):
                    fail("populations() keys %r differ from the recorded tags" % ([k for k, _ in out],), q, out)
            elif kind in ("table", "parameters"):
                raw = res.table(transpose=q[1]) if kind == "table" else res.parameters()
                out = [list(map(float, row)) for row in raw]
                obs.append("OTable %s" % fll(out))
                if kind == "parameters":
                    if Counter(hxl(row) for row in out) != Counter(hxl(r.vec) for r in recs):
                        fail("parameters() is not the multiset of recorded vectors", q, out)
                else:
                    rows = out
                    if q[1]:
                        rows = [list(c) for c in zip(*out)] if out else []
                        if recs and len(out) != npar + len(crit):
                            fail("transposed table has %d columns for %d parameters + %d goals" % (len(out), npar, len(crit)), q, out)
                    if Counter(hxl(row) for row in rows) != rows_want:
                        fail("table rows are not the recorded individuals' (vector + own costs) rows", q, out)
            elif kind == "costs":
                raw = res.costs()
                out = [list(map(float, col)) for col in raw]
                obs.append("OTable %s" % fll(out))
                if Counter(hxl(t) for t in zip(*out)) != Counter(hxl(r.costs) for r in recs) or len(out) != len(crit):
                    fail("costs() columns do not zip back to the recorded individuals' cost vectors", q, out)
            elif kind in ("goal_on_parameter", "parameter_on_goal", "parameter_on_parameter"):
                a, b, pid, s = q[1], q[2], q[3], q[4]
                pn, gn = env["pname"], env["gname"]
                kw = {} if (pid == -1 and stats["flip"]()) else {"population_id": pid}
                if kind == "goal_on_parameter":
                    raw = out = res.goal_on_parameter(pn(a), gn(b), sorted=s, **kw)
                    pairs = [(recs[i].vec[a], recs[i].costs[b]) for i in want_population(pid)]
                elif kind == "parameter_on_goal":
                    raw = out = res.parameter_on_goal(gn(a), pn(b), sorted=s, **kw)
                    pairs = [(recs[i].costs[a], recs[i].vec[b]) for i in want_population(pid)]
                else:
                    raw = out = res.parameter_on_parameter(pn(a), pn(b), sorted=s, **kw)
                    pairs = [(recs[i].vec[a], recs[i].vec[b]) for i in want_population(pid)]
                if len(out) != 2:
                    raise Err("listing does not have two lists")
                k, v = [float(x) for x in out[0]], [float(x) for x in out[1]]
                obs.append("OPair %s %s" % (ll(k, fl), ll(v, fl)))
                if len(k) != len(v):
                    fail("%s returned lists of different lengths" % kind, q, out)
                elif not s:
                    if [(hx(x), hx(y)) for x, y in zip(k, v)] != [(hx(x), hx(y)) for x, y in pairs]:
                        fail("%s (unsorted) is not the population's own (key, value) pairs in recording order" % kind, q, out)
                else:
                    if Counter((eqkey(x), hx(y)) for x, y in zip(k, v)) != Counter((eqkey(x), hx(y)) for x, y in pairs):
                        fail("%s (sorted) re-paired the values: the returned (key, value) pairs are not the individuals' own pairs" % kind, q, out)
                    if any(k[i + 1] < k[i] for i in range(len(k) - 1)):
                        fail("%s (sorted) keys are not in ascending order" % kind, q, out)
            elif kind in ("goal_on_index", "parameter_on_index"):
                w, pid = q[1], q[2]
                kw = {} if (pid == -1 and stats["flip"]()) else {"population_id": pid}
                if kind == "goal_on_index":
                    raw = out = res.goal_on_index(None if w is None else env["gname"](w), **kw)
                    cols = [[recs[i].costs[j] for i in want_population(pid)] for j in (range(len(crit)) if w is None else [w])]
                else:
                    raw = out = res.parameter_on_index(None if w is None else env["pname"](w), **kw)
                    cols = [[recs[i].vec[j] for i in want_population(pid)] for j in (range(npar) if w is None else [w])]
                idx = list(out[0])
                got = [list(map(float, c)) for c in out[1:]]
                obs.append("OIndexed %s %s" % (nl(len(idx)), fll(got)))
                if idx != list(range(len(idx))):
                    ctx.mismatches.append({"what": "%s: index list is not range(n): %r" % (kind, idx), "correspondence": "c17_results",
                                           "case": dict(case_json, query=list(q))})
                if [hxl(c) for c in got] != [hxl(c) for c in cols]:
                    fail("%s does not list the population's own values in recording order" % kind, q, out)
            elif kind in ("pareto_individuals", "pareto_front"):
                pid = q[1]
                kw = {} if pid is None else {"population_id": pid}
                want = [i for i in want_population(-1 if pid is None else pid) if recs[i].front == 1]
                if kind == "pareto_individuals":
                    raw = res.pareto_individuals(**kw)
                    out = ids(raw)
                    obs.append("OIds %s" % ll(out, nl))
                    if out != want:
                        fail("pareto_individuals(%r) returned %r, the population's individuals with front number 1 are %r" % (pid, out, want), q, out)
                else:
                    raw = res.pareto_front(**kw)
                    out = [list(map(float, c)) for c in raw]
                    obs.append("OTable %s" % fll(out))
                    if [hxl(c) for c in out] != [hxl([recs[i].costs[j] for i in want]) for j in range(len(crit))]:
                        fail("pareto_front(%r) does not list, goal by goal, the costs of the population's individuals with front number 1" % (pid,), q, out)
            elif kind == "pareto_values":
                raw = res.pareto_values()
                out = [list(map(float, c)) for c in raw]
                obs.append("OTable %s" % fll(out))
                last = want_population(-1)
                full = [hxl(recs[i].costs) for i in last]
                if [hxl(c) for c in out] != full and not (len(last) <= 1 and out == []):      # the code returns [] for <= 1 member
                    fail("pareto_values() is not the list of cost vectors of the last generation", q, out)
            elif kind == "get_population_ids":
                raw = res.get_population_ids()
                out = sorted(int(t) for t in raw)
                obs.append("OTags %s" % ll(out, zl))
                if out != sorted(set(r.tag for r in recs)):
                    fail("get_population_ids() = %r differs from the recorded tags" % (out,), q, out)
            elif kind == "find_optimum":
                gi = q[1]
                o = res.find_optimum() if gi is None else res.find_optimum(env["gname"](gi))
                if id(o) not in ident:
                    obs.append("OErr")
                    fail("find_optimum returned an object that is not a recorded individual", q, o)
                    continue
                oi = ident[id(o)]
                obs.append("OOpt %s" % nl(oi))
                idx = 0 if gi is None else gi
                vals = [r.costs[idx] for r in recs]            # the raw recorded costs, compared exactly
                if crit[idx] in (None, "minimize"):
                    if any(v < vals[oi] for v in vals):
                        fail("find_optimum(%r): cost %r of the returned individual %d is not minimal over the recorded costs %r"
                             % (gi, vals[oi], oi, vals), q, oi)
                else:
                    if any(v > vals[oi] for v in vals):
                        fail("find_optimum(%r): goal is maximised, cost %r of the returned individual %d is not maximal over %r"
                             % (gi, vals[oi], oi, vals), q, oi)
                stats["optimum_ties"] += sum(1 for v in vals if v == vals[oi]) > 1
            else:
                raise ValueError(kind)
        except Exception as e:
            obs.append("OErr")
            stats["errors"][type(e).__name__] = stats["errors"].get(type(e).__name__, 0) + 1
            legit = (not recs) and kind in ("costs", "find_optimum")      # nothing recorded: IndexError / ValueError
            if not legit:
                fail("%s raised %r on a well-formed recording" % (kind, e), q, repr(e))
        if raw is not None and rng.random() < scramble_p:
            scramble(rng, kind, raw)
            stats["returned_containers_modified"] += 1
    # the queries are views: the recording itself is as it was (otherwise no later query can return the recorded
    # individuals in recording order with their own values)
    now = problem.individuals
    if not (len(now) == len(inds) and all(a is b for a, b in zip(now, inds))):
        fail("after the queries problem.individuals is no longer the recording (objects / order changed)", ("recording",),
             [ident.get(id(o)) for o in now])
        problem.individuals = list(inds)
    else:
        for i, (o, r) in enumerate(zip(inds, recs)):
            try:
                same = (hxl(o.vector) == hxl(r.vec) and hxl(o.costs) == hxl(r.costs) and o.population_id == r.tag)
            except Exception:
                same = False
            if not same:
                fail("after the queries recorded individual %d carries other data (vector %r, costs %r, tag %r)"
                     % (i, o.vector, o.costs, o.population_id), ("recording",), i)
                o.vector, o.costs, o.population_id = list(r.vec), list(r.costs), r.tag
    return obs, dict(case_json, _recs=recs, _objs=inds)


# ---------------------------------------------------------------------------------------------
# indicators
def dy(rng, lo=-16, hi=32, den=8):
    return rng.randrange(lo, hi + 1) / den


def gen_points(rng, m, n, grid):
    return [[rng.choice(grid) if grid else dy(rng) for _ in range(m)] for _ in range(n)]


def gen_indicator_case(rng):
    """(style, ref, comp, shift) with dyadic coordinates."""
    m = rng.choice([1, 2, 2, 3, 3, 4])
    grid = [0.0, 0.5, 1.0, 1.5, 2.0] if rng.random() < 0.4 else None
    nr = rng.choice([1, 2, 3, 3, 4, 5, 6])
    ref = gen_points(rng, m, nr, grid)
    r = rng.random()
    if r < 0.35:
        return "random", ref, gen_points(rng, m, rng.choice([1, 2, 3, 4, 5]), grid), None
    if r < 0.47:            # identical sets: any order, with repetitions
        comp = [list(p) for p in ref] + [list(rng.choice(ref)) for _ in range(rng.randrange(0, 3))]
        rng.shuffle(comp)
        return "identical", ref, comp, None
    if r < 0.57:            # computed points all taken from the reference (gd = 0), not all reference points covered
        comp = [list(rng.choice(ref)) for _ in range(rng.choice([1, 2, 3]))]
        return "subset", ref, comp, None
    if r < 0.80:            # the reference set shifted by d >= 0 in every coordinate
        d = rng.choice([0.0, 0.125, 0.5, 1.0, 2.5, 2 ** -20, 7.0])
        return "shift", ref, [[x + d for x in p] for p in ref], d
    if r < 0.88:            # shifted by d < 0 (the computed set dominates the reference)
        d = -rng.choice([0.125, 0.5, 1.0])
        return "shift_neg", ref, [[x + d for x in p] for p in ref], d
    if r < 0.94:            # near duplicates: reference points plus tiny dyadic offsets
        comp = [[x + rng.choice([0.0, 2 ** -30, -2 ** -30]) for x in rng.choice(ref)] for _ in range(rng.choice([1, 2, 3]))]
        return "near", ref, comp, None
    k = rng.randrange(4)
    if k == 0:
        return "empty_computed", ref, [], None
    if k == 1:
        return "empty_reference", [], gen_points(rng, m, 2, grid), None
    if k == 2:
        return "zero_dim", [[] for _ in range(nr)], [[]], None
    return "single", [ref[0]], [list(ref[0])], None


def boundary_indices(n):
    """first, last, and every 2^k - 1 / 2^k (k >= 7) below n: where a block-wise evaluation would cut"""
    out = {0, n - 1}
    k = 7
    while 2 ** k - 1 < n:
        out.add(2 ** k - 1)
        if 2 ** k < n:
            out.add(2 ** k)
        k += 1
    return sorted(out)


BIG_SIZES = [255, 256, 257, 511, 512, 513, 1023, 1024, 1025, 2047, 2048, 2049, 4097]


def gen_big_indicator_cases(rng, thorough):
    """Point sets whose SIZES straddle the powers of two 2^8 .. 2^12, with the point that decides the indicator placed at a
    block-boundary index (first, last, 2^k - 1, 2^k).  (style, ref, comp, shift, only) as gen_indicator_case; dyadic values."""
    out = []
    grid = [0.0, 0.5, 1.0, 1.5, 2.0, 2.5, 3.0]

    def pool(m, k):
        pts = []
        while len(pts) < k:
            q = [rng.choice(grid) for _ in range(m)]
            if q not in pts:
                pts.append(q)
        return pts

    def far(p, j=0):
        """p moved by the dyadic distance 5 * 2^j (3-4-5 triangle in the first two coordinates, 5 along the axis in one
        dimension): off the grid [0, 3]^m the reference points are taken from"""
        q = list(p)
        if len(q) >= 2:
            q[0] += 3.0 * 2 ** j
            q[1] += 4.0 * 2 ** j
        else:
            q[0] += 5.0 * 2 ** j
        return q

    for n in BIG_SIZES:
        bidx = boundary_indices(n)
        top = max(i for i in bidx if i < n - 1)             # the largest 2^k - 1 / 2^k below the last index
        picks = [n - 1, top]
        rest = [i for i in bidx if i not in picks]
        picks += rng.sample(rest, min(len(rest), 3 if thorough or n <= 513 else 1))
        # gd: every computed point is a reference point, except one (gd = distance / n; zero iff it is put back)
        for i in picks:
            m = rng.choice([1, 2, 2, 3])
            ref = pool(m, rng.choice([2, 3, 4]))
            comp = [list(rng.choice(ref)) for _ in range(n)]
            comp[i] = far(comp[i], rng.choice([0, 1, 3]))
            out.append(("big:one_moved@%s" % ("last" if i == n - 1 else i), ref, comp, None, None if n <= 513 else "gd"))
        # ... except the points at ALL the boundary indices, each at its own distance (the sum tells which were measured)
        m = rng.choice([1, 2])
        ref = pool(m, 3)
        comp = [list(rng.choice(ref)) for _ in range(n)]
        for j, i in enumerate(bidx):
            comp[i] = far(comp[i], j)
        out.append(("big:all_boundaries_moved", ref, comp, None, None if n <= 513 else "gd"))
        # every computed point is a reference point (gd = 0 exactly, epsilon by the uncovered reference points)
        ref = pool(rng.choice([1, 2]), 4)
        out.append(("big:subset", ref, [list(rng.choice(ref[:3])) for _ in range(n)], None, None))
        # every computed point off the reference (all distances positive)
        if n <= 1025 or thorough:
            m = rng.choice([1, 2, 2, 3])
            out.append(("big:all_far", pool(m, rng.choice([1, 2, 3])), [[dy(rng) for _ in range(m)] for _ in range(n)], None,
                        None if n <= 513 else "gd"))
        # big reference set AND big computed set: identical (shuffled), shifted by d >= 0.  The model's exact minimum of the
        # squared distances is |ref| * |comp| rational operations (3 - 10 s of Coq at 512 x 512) and epsilon_add itself is a
        # Python double loop: 255 .. 257 (thorough: up to 513, gd alone up to 1025)
        for style in ("identical", "shift"):
            if n <= (1025 if thorough else 257):
                m = rng.choice([1, 2, 2])
                ref = [[dy(rng) for _ in range(m)] for _ in range(n)]
                only = None if n <= 513 else "gd"
                if style == "identical":
                    comp = [list(q) for q in ref]
                    rng.shuffle(comp)
                    out.append(("identical", ref, comp, None, only))
                else:
                    d = rng.choice([0.125, 0.5, 2 ** -20, 7.0]) if n <= 513 else 0.5
                    out.append(("shift", ref, [[x + d for x in q] for q in ref], d, only))
        # gd: the reference point nearest to the computed points sits at a boundary index of a big reference set
        for i in picks[:2 if not thorough else len(picks)]:
            m = rng.choice([1, 2, 3])
            base = pool(m, 3)
            ref = [[x + 20.0 + rng.choice([0.0, 0.5, 4.0]) for x in rng.choice(base)] for _ in range(n)]
            ref[i] = [x + rng.choice([0.0, 0.25]) for x in base[0]]
            comp = [list(q) for q in base[:rng.choice([1, 2, 3])]]
            out.append(("big:gd_reference_point@%s" % ("last" if i == n - 1 else i), ref, comp, None, "gd"))
        # epsilon_add: the reference point that decides the indicator sits at a boundary index of a big reference set ...
        for i in picks[:2 if not thorough else len(picks)]:
            m = rng.choice([1, 2, 3])
            base = pool(m, 3)
            ref = [list(rng.choice(base)) for _ in range(n)]
            ref[i] = [x - 5.0 - rng.choice([0.0, 0.5]) for x in ref[i]]
            comp = [[x + rng.choice([0.0, 0.125, 0.5]) for x in q] for q in base[:rng.choice([1, 2, 3])]]
            out.append(("big:eps_reference_point@%s" % ("last" if i == n - 1 else i), ref, comp, None, "eps"))
        # ... and the only computed point near the reference sits at a boundary index of a big computed set
        for i in picks[:2 if not thorough else len(picks)]:
            m = rng.choice([1, 2, 3])
            ref = pool(m, rng.choice([1, 2]))
            comp = [[x + 10.0 + rng.choice([0.0, 0.5, 1.0]) for x in rng.choice(ref)] for _ in range(n)]
            comp[i] = [x + 0.125 for x in ref[0]]
            out.append(("big:eps_computed_point@%s" % ("last" if i == n - 1 else i), ref, comp, None, "eps"))
    rng.shuffle(out)            # the expensive ones (both sets big) spread over the generated files
    return out


def qll(points):
    return ll([ll(p, ql) for p in points])


def exact_eps(ref, comp):
    """max(0, max_r min_c max_i (c_i - r_i)) in exact rationals (None: no computed point)."""
    e = Fraction(0)
    for r in ref:
        if not comp:
            return None
        j = min(max(Fraction(c[i]) - Fraction(r[i]) for i in range(len(r))) for c in comp)
        e = max(e, j)
    return e


def float_gd(ref, comp):
    return math.fsum(min(math.sqrt(math.fsum((a - b) ** 2 for a, b in zip(r, c))) for r in ref) for c in comp) / len(comp)


def run(ctx):
    import logging
    logging.disable(logging.CRITICAL)
    import numpy as np
    from artap.problem import Problem, ProblemViewDataStore
    from artap.individual import Individual
    from artap.results import Results
    from artap.algorithm import DummyAlgorithm
    from artap.datastore import SqliteDataStore
    from artap.algorithm_NSGAII import IndividualNSGAII
    from artap.algorithm_genetic import IndividualEpsMOEA
    from artap.algorithm_swarm import IndividualSwarm
    import artap.quality_indicator as qi
    rng = ctx.rng

    class RecordedProblem(Problem):
        """A real Problem: individuals recorded through Algorithm.evaluate / Job.evaluate / Evaluator.evaluate_scalar get
        the costs the harness prepared for them (by object, or next in the queue when the evaluator creates the object)."""

        def set(self, **kwargs):
            self.name = "recorded"
            self.parameters = kwargs["parameters"]
            self.costs = kwargs["costs"]
            self.pending = {}
            self.queue = []

        def evaluate(self, individual):
            if id(individual) in self.pending:
                return self.pending.pop(id(individual))
            return self.queue.pop(0)

    pname = lambda i: "x_%d" % i
    gname = lambda j: "F_%d" % j
    problems, used = {}, {}

    def new_problem(npar, crit):
        costs = []
        for j, c in enumerate(crit):
            d = {"name": gname(j)}
            if c is not None:
                d["criteria"] = c
            costs.append(d)
        p = RecordedProblem(parameters=[{"name": pname(i), "bounds": [-10, 10]} for i in range(npar)], costs=costs)
        a = DummyAlgorithm(p)               # ONE algorithm / evaluator / job / Results object per problem, as artap has
        return (p, Results(p), a, a.evaluator.job)

    def retire(p):
        """a private problem is cleaned up as soon as its case is over (artap names the working directory after the
        microsecond of construction: thousands of problems left to the atexit handlers collide and fail noisily)."""
        import atexit
        atexit.unregister(p.cleanup)
        try:
            p.cleanup()
        except OSError:
            pass

    def problem(npar, crit, pooled=True):
        if not pooled:
            return new_problem(npar, crit)
        key = (npar, tuple(crit))
        if key not in problems:
            problems[key] = new_problem(npar, crit)
        used[key] = used.get(key, 0) + 1
        return problems[key]

    env = {"Individual": Individual, "Results": Results, "problem": problem, "pname": pname, "gname": gname, "np": np,
           "classes": {"Individual": Individual, "NSGAII": IndividualNSGAII, "EpsMOEA": IndividualEpsMOEA, "Swarm": IndividualSwarm}}
    stats = {"queries": {}, "errors": {}, "optimum_ties": 0, "flip": lambda: rng.random() < 0.5,
             "individuals_hist": {}, "distinct_tags_hist": {}, "goals_hist": {}, "criteria_hist": {},
             "unsorted_tags": 0, "repeated_tags": 0, "duplicate_values": 0, "signed_zero_cases": 0,
             "recording_path_hist": {}, "costs_signed_hist": {}, "class_hist": {}, "representation_hist": {},
             "cases_with_evaluated_individuals": 0, "cases_with_costs_below_stored_precision": 0,
             "cases_where_ranking_by_costs_signed_gives_another_optimum": 0,
             "cases_where_costs_signed_values_differ_from_costs": 0, "cases_with_colliding_ids": 0,
             "cases_with_shared_vectors_and_other_costs": 0, "returned_containers_modified": 0,
             "sessions": 0, "session_snapshots": 0, "session_steps": {}, "single_recordings": 0,
             "recordings_on_a_reused_problem": 0, "sqlite_live": 0, "sqlite_loaded": 0, "sqlite_skipped": 0}

    cases, expected, meta = [], [], []

    def emit(sess, queries, obs, cj, label):
        npar, crit, recs, objs = sess.npar, list(sess.crit), cj.pop("_recs"), cj.pop("_objs")
        cases.append("{| c_nparams := %s; c_crit := %s; c_recs := %s; c_queries := %s |}" % (
            nl(npar), ll([crit_l(c) for c in crit]), ll([rec_l(i, r) for i, r in enumerate(recs)]), ll([t for t, _ in queries])))
        expected.append(ll(obs))
        meta.append(dict(cj, queries=[list(q) for _, q in queries], how=label))
        tags = [r.tag for r in recs]
        allv = [hx(v) for r in recs for v in r.vec + r.costs]
        ctx.count(("R", label, npar, tuple(str(c) for c in crit), tuple(r.key() for r in recs)), nontrivial=len(recs) >= 2)
        for h, v in (("individuals_hist", len(recs)), ("distinct_tags_hist", len(set(tags))), ("goals_hist", len(crit))):
            stats[h][v] = stats[h].get(v, 0) + 1
        for c in crit:
            stats["criteria_hist"][str(c)] = stats["criteria_hist"].get(str(c), 0) + 1
        stats["unsorted_tags"] += tags != sorted(tags)
        stats["repeated_tags"] += len(set(tags)) < len(tags)
        stats["duplicate_values"] += any(n > 1 for n in Counter(hx(r.costs[0]) for r in recs).values())
        stats["signed_zero_cases"] += (float(0).hex() in allv and (-0.0).hex() in allv)
        for r in recs:
            for h, v in (("recording_path_hist", r.how.get("path", "hand")), ("costs_signed_hist", str(r.how.get("signed"))),
                         ("class_hist", r.how.get("cls", "Individual")), ("representation_hist", r.how.get("rep", "float"))):
                stats[h][v] = stats[h].get(v, 0) + 1
        stats["cases_with_evaluated_individuals"] += any(len(o.costs_signed) for o in objs)
        below = False
        for j in range(len(crit)):
            vals = sorted(set(r.costs[j] for r in recs if math.isfinite(r.costs[j])))
            below = below or any(0 < b - a < 5e-8 for a, b in zip(vals, vals[1:]))
        stats["cases_with_costs_below_stored_precision"] += below
        rank, values = signed_sensitivity(crit, objs, recs)
        stats["cases_where_ranking_by_costs_signed_gives_another_optimum"] += rank
        stats["cases_where_costs_signed_values_differ_from_costs"] += values
        ids_ = [getattr(o, "id", None) for o in objs]
        stats["cases_with_colliding_ids"] += len(set(ids_)) < len(ids_)
        byvec = {}
        for r in recs:
            byvec.setdefault(hxl(r.vec), set()).add(hxl(r.costs))
        stats["cases_with_shared_vectors_and_other_costs"] += any(len(s) > 1 for s in byvec.values())
        if len(ctx.samples) < 2 and len(recs) >= 4 and len(set(tags)) >= 2 and label == "single":
            ctx.sample({"nparams": npar, "criteria": crit, "recorded": cj["recorded"],
                        "queries": [list(q) for _, q in queries[:8]], "observed": obs[:8]})

    def ask(sess, full, scramble_p, label):
        queries = results_queries(rng, sess.npar, sess.crit, sess.recs, full=full)
        obs, cj = run_queries(sess, queries, ctx, stats, rng, scramble_p)
        emit(sess, queries, obs, cj, label)

    # ---- result queries: one recording per case -----------------------------------------------------
    corpus = []
    for path in sorted(glob.glob(os.path.join(VERIF, "corpus", "C17", "*.json"))):
        for c in json.load(open(path))["cases"]:
            corpus.append(c)
    rcases = [(c["nparams"], c["criteria"], [Rec(*r) for r in c["recorded"]]) for c in corpus if c["kind"] == "results"]
    ncorpus = len(rcases)
    for _ in range(ctx.pick(300, 8000)):
        rcases.append(gen_results_case(rng))
    for k, (npar, crit, recs) in enumerate(rcases):
        pooled = k < ncorpus or rng.random() < 0.8
        sess = Session(env, npar, crit, pooled)
        if pooled:
            sess.reused = used[(npar, tuple(crit))] - 1
            stats["recordings_on_a_reused_problem"] += sess.reused > 0
        sess.start(rng)
        sess.record(recs)
        stats["single_recordings"] += 1
        ask(sess, full=(k < ncorpus or k % 5 == 0), scramble_p=0.5, label="single")
        if not pooled:
            retire(sess.problem)

    # ---- result queries: histories on one problem and one Results object -----------------------------
    for _ in range(ctx.pick(55, 1500)):
        npar, crit, steps, fresh = gen_session(rng)
        sess = Session(env, npar, crit, pooled=not fresh)
        if not fresh:
            sess.reused = used[(npar, tuple(crit))] - 1
        sess.start(rng)
        stats["sessions"] += 1
        for st in steps:
            stats["session_steps"][st[0]] = stats["session_steps"].get(st[0], 0) + 1
            if st[0] == "query":
                stats["session_snapshots"] += 1
                ask(sess, full=False, scramble_p=1.0, label="session")
            else:
                sess.step(st)
        if fresh:
            retire(sess.problem)

    # ---- result queries: a problem with a data store (the store keeps its own JSON copy of every individual) ----
    for k in range(ctx.pick(8, 150)):
        while True:
            npar, crit, recs = gen_results_case(rng)
            if len(recs) >= 2 and any(r.how.get("path") in EVALUATED for r in recs):
                break
        for r in recs:
            r.how.pop("id", None)                # the store is keyed by id
            if r.how.get("rep") == "int":
                r.how["rep"] = "float"           # numpy.int64 entries of costs_signed cannot be written as JSON
        db = os.path.join(ctx.work, "c17_store_%d.sqlite" % k)
        sess = Session(env, npar, crit, pooled=False)
        sess.problem.data_store = SqliteDataStore(sess.problem, database_name=db, mode="rewrite")
        sess.start(rng)
        sess.record(recs)                        # the job writes each evaluated individual to the store as it is then
        if rng.random() < 0.7:                   # ... and the recording goes on changing in memory only
            i = rng.randrange(len(recs))
            sess.step(("retag", i, rng.choice([0, 1, 2, 5])))
            i = rng.randrange(len(recs))
            sess.step(("recost", i, [rng.choice(SMALL) for _ in crit]))
        stats["sqlite_live"] += 1
        ask(sess, full=False, scramble_p=0.5, label="sqlite_live")
        sess.problem.data_store.sync_all()
        view = ProblemViewDataStore(database_name=db)
        if [p["name"] for p in view.parameters] != [pname(i) for i in range(npar)] or \
                [c["name"] for c in view.costs] != [gname(j) for j in range(len(crit))]:
            stats["sqlite_skipped"] += 1
            retire(sess.problem)
            retire(view)
            continue
        vcrit = [c.get("criteria") for c in view.costs]
        loaded = Session(env, npar, vcrit, pooled=False, parts=(view, Results(view), None, None))
        loaded.objs = list(view.individuals)
        loaded.recs = [Rec(o.population_id, o.vector, o.costs, o.features["front_number"],
                           {"path": "loaded", "id": o.id, "state": str(o.state)}) for o in loaded.objs]
        loaded.history = [["written to a SqliteDataStore and read back through ProblemViewDataStore"]]
        stats["sqlite_loaded"] += 1
        ask(loaded, full=False, scramble_p=0.5, label="sqlite_loaded")
        retire(sess.problem)
        retire(view)

    n0 = len(ctx.mismatches)
    bad = ctx.coq_compare("c17_results", HEADER, "c17_case", "list obs", "c17_run", "c17_obs_eqb", cases, expected, meta,
                          shard=ctx.pick(40, 300))
    order_only = 0
    if bad:
        # Exact comparison failed somewhere.  The property does not fix row/group order, the order of values among
        # `==` keys, or which of several extremal individuals is returned: re-compare those cases up to that order
        # (Run/C17Run.v, c17_run_canon) and keep as mismatches only the cases that still differ.
        exact = ctx.mismatches[n0:]
        del ctx.mismatches[n0:]
        ctx.mismatches.extend(m for m in exact if "case_index" not in m)          # model evaluation failed
        n1 = len(ctx.mismatches)
        bad2 = ctx.coq_compare("c17_results_canon", HEADER, "c17_case * list obs", "bool", "c17_run_canon", "Bool.eqb",
                               ["(%s, %s)" % (cases[i], expected[i]) for i in bad], ["true"] * len(bad),
                               [meta[i] for i in bad], shard=ctx.pick(40, 300))
        canon = ctx.mismatches[n1:]
        del ctx.mismatches[n1:]
        ctx.mismatches.extend(m for m in canon if "case_index" not in m)
        still = set(bad[j] for j in bad2)
        ctx.mismatches.extend(m for m in exact if m.get("case_index") in still)
        order_only = len(bad) - len(still)
        if order_only:
            ctx.notes.append("%d case(s) differ from the model only in an order the property does not fix (table rows / groups, "
                             "values among equal keys of a sorted listing, choice among several extremal individuals)" % order_only)
    nresults = len(cases)

    # ---- indicators -----------------------------------------------------------------------
    icases = [(c.get("style", "corpus"), c["ref"], c["comp"], c.get("shift"), c.get("only")) for c in corpus if c["kind"] == "indicator"]
    for _ in range(ctx.pick(500, 10000)):
        icases.append(gen_indicator_case(rng) + (None,))
    n_small = len(icases)
    icases.extend(gen_big_indicator_cases(rng, ctx.thorough))       # sizes around 2^8 .. 2^12 (red team round 2)
    big_start = None
    cases, expected, meta = [], [], []
    istats = {"styles": {}, "eps_values": {"zero": 0, "positive": 0, "inf": 0, "error": 0}, "gd_values": {"zero": 0, "positive": 0, "error": 0},
              "through_performance_measure": 0, "dims": {}, "sizes_big": {}}

    def ifail(what, inp, observed, which):
        ctx.oracle_failures.append({"what": what, "input": inp, "observed": repr(observed),
                                    "match": {"kind": "indicator", "indicator": which}})

    def via_results(which, ref, comp):
        """the same call through Results.performance_measure: the computed set is the cost vectors of the last generation."""
        m = len(comp[0])
        p = problem(1, [None] * m)[0]
        inds = []
        for t in range(rng.randrange(0, 3)):          # an older generation with other costs
            o = Individual([0.0]); o.costs = [dy(rng) for _ in range(m)]; o.population_id = rng.randrange(0, 3)
            inds.append(o)
        for c in comp:
            o = Individual([0.0]); o.costs = list(c); o.population_id = 5
            inds.append(o)
        p.individuals = inds
        return Results(p).performance_measure([list(r) for r in ref], type=which)

    for icase_no, (style, ref, comp, shift, only) in enumerate(icases):
        if icase_no == n_small:
            big_start = len(cases)
        ref = [[float(x) for x in p] for p in ref]
        comp = [[float(x) for x in p] for p in comp]
        istats["styles"][style] = istats["styles"].get(style, 0) + 1
        m = len((ref + comp)[0]) if ref + comp else 0
        istats["dims"][m] = istats["dims"].get(m, 0) + 1
        wf = bool(ref + comp) and m >= 1 and all(len(p) == m for p in ref + comp)
        inp = {"kind": "indicator", "style": style, "ref": ref, "comp": comp, "shift": shift}
        through = len(comp) >= 2 and wf and rng.random() < 0.3
        if len(ref) + len(comp) >= 200:
            istats["sizes_big"][("ref %d, comp %d" % (len(ref), len(comp)))] = istats["sizes_big"].get("ref %d, comp %d" % (len(ref), len(comp)), 0) + 1
        istats["through_performance_measure"] += 2 * through
        if only in (None, "eps"):
            # ---------- epsilon_add
            try:
                y = via_results("epsilon", ref, comp) if through else qi.epsilon_add([list(r) for r in ref], [list(c) for c in comp])
                y = float(y)
                err = None
            except Exception as e:
                y, err = None, e
            cases.append("IEps %s %s" % (qll(ref), qll(comp)))
            if err is not None:
                expected.append("IErr")
                istats["eps_values"]["error"] += 1
                if wf or (not ref and all(len(c) == len(comp[0]) for c in comp)):
                    ifail("epsilon_add raised %r on two finite point sets" % (err,), dict(inp, indicator="epsilon_add"), repr(err), "epsilon_add")
            elif math.isinf(y) and y > 0:
                expected.append("IInf")
                istats["eps_values"]["inf"] += 1
                if comp:
                    ifail("epsilon_add is infinite for a non-empty computed set", dict(inp, indicator="epsilon_add"), y, "epsilon_add")
            elif math.isnan(y) or math.isinf(y):
                expected.append("IErr")
                ifail("epsilon_add returned %r" % y, dict(inp, indicator="epsilon_add"), y, "epsilon_add")
            else:
                expected.append("IFin %s" % ql(y))
                istats["eps_values"]["zero" if y == 0 else "positive"] += 1
                want = exact_eps(ref, comp)
                if y < 0:
                    ifail("epsilon_add is negative", dict(inp, indicator="epsilon_add"), y, "epsilon_add")
                if want is not None and Fraction(y) != want:
                    ifail("epsilon_add = %r, the non-negative max-min-max of coordinate differences is %s" % (y, want),
                          dict(inp, indicator="epsilon_add"), y, "epsilon_add")
                if style == "identical" and y != 0:
                    ifail("epsilon_add of identical sets is %r, not 0" % y, dict(inp, indicator="epsilon_add"), y, "epsilon_add")
                if style == "shift" and wf and y != shift:
                    ifail("epsilon_add of the reference set shifted by d=%r is %r" % (shift, y), dict(inp, indicator="epsilon_add"), y, "epsilon_add")
            meta.append(dict(inp, indicator="epsilon_add", through_performance_measure=through))
            ctx.count(("E", hxl(sum(ref, [])), hxl(sum(comp, [])), len(ref), len(comp)), nontrivial=wf and len(ref) + len(comp) >= 3)
        if only in (None, "gd") and (m >= 1 or not ref + comp):     # zero-dimensional points: cdist returns 0.0, not modelled
            # ---------- gd
            try:
                y = via_results("gd", ref, comp) if through else qi.gd([list(r) for r in ref], [list(c) for c in comp])
                y = float(y)
                err = None
            except Exception as e:
                y, err = None, e
            cases.append("IGd %s %s" % (qll(ref), qll(comp)))
            if err is not None or not math.isfinite(y):
                expected.append("IErr")
                istats["gd_values"]["error"] += 1
                if wf and ref and comp:
                    ifail("gd %s on two finite non-empty point sets" % ("raised %r" % (err,) if err is not None else "returned %r" % y),
                          dict(inp, indicator="gd"), repr(err) if err is not None else y, "gd")
            else:
                expected.append("IFin %s" % ql(y))
                istats["gd_values"]["zero" if y == 0 else "positive"] += 1
                if wf and ref and comp:
                    want = float_gd(ref, comp)
                    if abs(y - want) > 1e-9 * (1 + abs(want)):
                        ifail("gd = %r, the mean distance from each computed point to its nearest reference point is %r" % (y, want),
                              dict(inp, indicator="gd"), y, "gd")
                    subset = all(any(c == r for r in ref) for c in comp)
                    if (y == 0) != subset:
                        ifail("gd = %r but %s computed point is a reference point" % (y, "every" if subset else "not every"),
                              dict(inp, indicator="gd"), y, "gd")
            meta.append(dict(inp, indicator="gd", through_performance_measure=through))
            ctx.count(("G", hxl(sum(ref, [])), hxl(sum(comp, [])), len(ref), len(comp)), nontrivial=wf and len(ref) + len(comp) >= 3)
        if len(ctx.samples) < 4 and style in ("random", "shift") and len(ref) >= 2 and m >= 2:
            ctx.sample({"indicator_case": inp, "observed": expected[-2:]})
    if big_start is None:
        big_start = len(cases)
    ctx.coq_compare("c17_indicators", IHEADER, "icase", "iobs", "c17_irun", "c17_iobs_eqb", cases[:big_start], expected[:big_start],
                    meta[:big_start], shard=ctx.pick(80, 500))
    # the big point sets: few cases per file, the files are evaluated in parallel
    n0 = len(ctx.mismatches)
    ctx.coq_compare("c17_indicators_big", IHEADER, "icase", "iobs", "c17_irun", "c17_iobs_eqb", cases[big_start:], expected[big_start:],
                    meta[big_start:], shard=ctx.pick(6, 10))
    for mm in ctx.mismatches[n0:]:          # a mismatching case keeps its description, not its thousands of points
        c = mm.get("case")
        if isinstance(c, dict) and "ref" in c:
            mm["case"] = dict(c, ref=c["ref"][:6] + ["... %d points" % len(c["ref"])] if len(c["ref"]) > 6 else c["ref"],
                              comp=("%d points; those that are not reference points: %r"
                                    % (len(c["comp"]), [(i, q) for i, q in enumerate(c["comp"]) if q not in c["ref"][:64]][:8]))
                              if len(c["comp"]) > 6 else c["comp"])
            mm.pop("implementation", None) if len(str(mm.get("implementation", ""))) > 2000 else None
            if len(str(mm.get("model", ""))) > 2000:
                mm["model"] = str(mm["model"])[:300] + " ..."

    del stats["flip"]
    ctx.rule = ("result queries: 1-3 parameters, 1-3 goals with criteria drawn from {absent, minimize, maximize}, 0-10 recorded "
                "individuals whose tags are drawn unsorted and repeated from a pool (plus ascending/descending/constant/all -1 "
                "templates). Individuals are put on a real Problem by hand (costs assigned, costs_signed empty), through "
                "Job.evaluate / Algorithm.evaluate / Evaluator.evaluate_scalar (costs_signed = sign * round(cost, precision) "
                "++ [feasibility marker]), through to_dict/JSON/from_dict, by Individual.copy(), as IndividualNSGAII / "
                "IndividualEpsMOEA / IndividualSwarm objects, with float / numpy.float64 / int values, colliding ids, varied "
                "precision and feasibility features, and with costs_signed left stale (costs replaced after the evaluation) or "
                "set to reversed / constant / permuted / too short / unrounded lists: the model sees tag, vector and costs only. "
                "Values from small grids with ties, signed zeros, adjacent floats, huge magnitudes and infinities, and from "
                "grids whose members differ by 1e-8, 1e-11 or single ulps (equal after rounding to the stored precision, "
                "different raw), duplicated individuals (same vector, other costs), front numbers 1-3. Every query method "
                "(population, Problem.population/last_population/populations, table, parameters, costs, the three listings "
                "sorted and unsorted, goal/parameter_on_index, pareto_individuals/front/values, get_population_ids, "
                "find_optimum per goal) is run on every case (all tags, an absent tag and the default); the containers handed "
                "out by the queries are modified by the caller and population, populations, table and find_optimum are asked "
                "again at the end. Three kinds of cases: one recording on a problem / Results object shared by many cases; "
                "histories on one problem and one long-lived Results object (record, query, record more, re-tag, replace costs / "
                "vector, reorder or replace the individuals list, change a goal's criteria, query again: each query step is a "
                "case on the recording as it is then); a problem with a SqliteDataStore (queried live while the store holds "
                "older copies, and read back through ProblemViewDataStore). A case is non-trivial with >= 2 individuals; distinct "
                "= distinct (kind, parameters, criteria, recording incl. how it was recorded). Indicators: "
                "point sets of 1-6 points with 1-4 dyadic coordinates (random, identical, subset, shifted by d >= 0, shifted by "
                "d < 0, near-duplicates, empty/zero-dimensional), non-trivial when well formed with >= 3 points in total; plus point "
                "sets of 255..257, 511..513, 1023..1025, 2047..2049 and 4097 points with the point that decides the indicator at "
                "a block-boundary index (first, last, 2^k - 1, 2^k) of the computed resp. reference set, and identical / shifted "
                "sets of 255..257 points (thorough: more); "
                "30% of the cases with >= 2 computed points go through Results.performance_measure")
    for parts in problems.values():
        retire(parts[0])
    ctx.extra.update({"results_stats": stats, "indicator_stats": istats, "corpus_cases": len(corpus), "result_query_cases": nresults,
                      "near_boundary": 0, "order_only_differences": order_only})


LEVEL_TEXT = ("Machine-checked Coq theorems over a model of Problem.populations/population/last_population and of the Results "
              "query methods, for every number of recorded individuals, tags in any order, duplicate values and any value type with "
              "a strict weak order (instantiated at binary64): population queries are the filter of the recording by tag (default: "
              "largest tag), table rows are each individual's vector followed by its own costs and a permutation of the recording, "
              "the sorted listings are the components of one sorted arrangement of the individuals' own (key, value) pairs, "
              "find_optimum returns the first recorded individual whose named cost is minimal (maximal for a maximised goal), "
              "the Pareto views are the queried population's front-1 individuals and their own costs. "
              "epsilon_add (exact rationals): non-negative max-min-max, 0 when every reference point is computed, d for the "
              "reference set shifted by d >= 0. gd (reals): mean distance to a nearest reference point, zero iff the computed "
              "points are reference points; its executable rational enclosure is proved to contain the real value. The models "
              "are tied to the code on every run by evaluating them in Coq on the recorded cases: ids and float bit patterns "
              "compared exactly, epsilon_add exactly, gd against the proved enclosure. The recorded individuals are put on real "
              "Problem objects the ways artap does it (Job / Algorithm.evaluate / evaluate_scalar with costs_signed populated, "
              "from_dict, copy, read back from a SqliteDataStore) as well as by hand, with costs that differ below the stored "
              "precision of costs_signed, stale or wrong costs_signed, colliding ids, shared vectors, and as histories on "
              "long-lived Problem / Results objects whose returned containers the caller modifies between queries; the direct "
              "oracle compares the raw recorded costs exactly.")
LEVEL_NOTE = ("Trusted: Coq kernel + vm_compute; FloatAxioms for the binary64 order instance; classical-reals axioms for gd; the "
              "hand-written models, the Python harness and the translator tools/py2coq.py (Problem.population / last_population / "
              "populations and Results.find_optimum are translated on every run and proved equal to the model). Sorted listings are proved paired up to `==` on keys (exactly when "
              "`==` is identity: -0.0/0.0 keys can swap places). Cases that differ from the model only in an order the property "
              "does not fix (rows/groups, ties) are counted as order-only differences, not as mismatches (0 on the current code). "
              "The model takes tag, vector, costs, front number and criteria as the recorded data; that the code reads nothing "
              "else (costs_signed, ids, features, the store, earlier calls) is checked by sampling, not proved. "
              "Indicator theorems are over Q/R; binary64 rounding is checked "
              "on the sampled dyadic point sets only. Correspondence is sampled, the theorems are unbounded.")
