"""C17 - result queries and quality indicators: correspondence with Model/Results.v (float instance, ids and
float bits compared exactly) and Model/Indicators.v (exact rationals; gd through its proved rational
enclosure), and the direct oracle (the property's clauses evaluated on the implementation's outputs alone)."""
import glob
import json
import math
import os
from collections import Counter
from fractions import Fraction

from harness.core import fl, zl, nl, bl, ql, ll, optl, FLOAT_AXIOMS, REAL_AXIOMS, VERIF

PROP = "C17"
THEOREMS = {"Artap.Props.C17": [
    "C17_population_is_filter", "C17_populations_grouping", "C17_table_rows_paired", "C17_table_transposed_columns",
    "C17_pareto_front_spec", "C17_pareto_values_spec",
    "C17_sorted_listing_is_permutation_of_pairs", "C17_sorted_listing_exact", "C17_goal_on_parameter_pairs",
    "C17_parameter_on_goal_pairs", "C17_find_optimum_extremal", "C17_find_optimum_first", "C17_float_find_optimum",
    "C17_maxdiff_is_max", "C17_eps_add_max_min_max", "C17_eps_add_nonneg", "C17_eps_add_identical_zero",
    "C17_eps_add_shift", "C17_gd_mean_min_distance", "C17_gd_zero_iff_subset", "C17_gd_enclosure_sound"]}
AXIOMS_OK = FLOAT_AXIOMS + REAL_AXIOMS
TRUSTED = [
    "Coq 8.16.1 kernel; vm_compute for model evaluation in the generated case files (no native_compute)",
    "result-query theorems: closed under the global context for every strictly-weakly-ordered value type; the binary64 "
    "instance (C17_float_find_optimum, and what the correspondence runs) rests on FloatAxioms.ltb_spec/eqb_spec and the "
    "primitive float operations of the standard library",
    "epsilon-indicator theorems: exact rationals, closed under the global context",
    "generational-distance theorems: Coq's classical real numbers (ClassicalDedekindReals.sig_forall_dec, sig_not_dec, "
    "FunctionalExtensionality.functional_extensionality_dep)",
    "hand-written models Model/Results.v and Model/Indicators.v, tied to results.py / problem.py / quality_indicator.py by "
    "this correspondence run (sampled cases)",
    "Python harness: recording of individuals, id renumbering, float -> hex / exact-rational encoders, generators, direct oracle",
]
ASSUMPTIONS = [
    "recorded values are non-NaN binary64 floats (Python `<`/`==` on them is the strict weak order fltb, -0.0 == 0.0); "
    "every recorded individual has one vector entry per declared parameter and one cost per declared goal; population tags "
    "are integers >= -1 (-1 = never assigned, and population_id=-1 means 'the last population' in Results.population)",
    "sorted listings: Python's sorted()/list.sort() is the stable sort, tuples compare lexicographically with `==` on the "
    "first component; keys that are `==` but not identical (-0.0 / 0.0) may exchange their places between the two returned "
    "lists (theorem C17_sorted_listing_is_permutation_of_pairs states pairing up to `==` on keys, C17_sorted_listing_exact "
    "exactly when `==` is identity)",
    "indicators: the theorems are about exact rational / real arithmetic on point sets whose points all have the same "
    "number m >= 1 of coordinates; numpy/scipy binary64 rounding is bounded only on the sampled dyadic point sets "
    "(epsilon_add compared exactly, gd within 2^-40*(1+|y|) of the proved enclosure of the real value)",
    "scipy.spatial.distance.cdist with another norm than 'euclidean' is not modelled",
]

HEADER = ("From Artap Require Import Run.C17Run.\nFrom Coq Require Import List ZArith QArith Floats.\n"
          "Import ListNotations.\nOpen Scope float_scope.\n")
IHEADER = ("From Artap Require Import Run.C17Run.\nFrom Coq Require Import List ZArith QArith.\n"
           "Import ListNotations.\n")

SMALL = [0.0, 1.0, 2.0, 3.0]
GRID = [0.0, -0.0, 1.0, 2.0, 3.0, 0.5, 1.5, -1.0, -2.5, 1e-9, 1.0 + 2 ** -52, 1.0 - 2 ** -53, 1e300, -1e300, 5e-324,
        0.1, 0.2, 0.30000000000000004, 0.3, 7.25, float("inf"), float("-inf")]
ZEROS = [0.0, -0.0, 0.0, -0.0, 1.0, -1.0]
CRITS = [None, "minimize", "maximize"]


def hx(x):
    return float(x).hex()


def hxl(l):
    return tuple(hx(v) for v in l)


def eqkey(x):
    """key under Python's `==` on floats (-0.0 == 0.0)."""
    return hx(float(x) + 0.0)


# ---------------------------------------------------------------------------------------------
# result queries
class Rec:
    __slots__ = ("tag", "vec", "costs", "front")

    def __init__(self, tag, vec, costs, front=1):
        self.tag, self.vec, self.costs = int(tag), [float(v) for v in vec], [float(v) for v in costs]
        self.front = int(front)         # recorded feature 'front_number'


def gen_tags(rng, n):
    style = rng.random()
    pool = rng.sample([0, 1, 2, 3, 4, 7], rng.choice([1, 2, 2, 3, 3, 4]))
    if rng.random() < 0.2:
        pool.append(-1)
    if style < 0.55:                       # unsorted, repeated
        return [rng.choice(pool) for _ in range(n)]
    if style < 0.70:                       # the way an algorithm records: ascending blocks
        return sorted(t for t in (rng.choice(pool) for _ in range(n)))
    if style < 0.80:                       # descending: the last generation was recorded first
        return sorted((rng.choice(pool) for _ in range(n)), reverse=True)
    if style < 0.88:
        return [pool[0]] * n
    if style < 0.93:
        return [-1] * n                    # never assigned
    tags = [rng.choice(pool) for _ in range(n)]      # the largest tag exactly once, somewhere in the middle
    if n:
        tags[rng.randrange(n)] = max(pool) + 1
    return tags


def gen_results_case(rng):
    npar = rng.choice([1, 2, 2, 3])
    ng = rng.choice([1, 2, 2, 3])
    crit = [rng.choice(CRITS) for _ in range(ng)]
    r = rng.random()
    n = 0 if r < 0.03 else 1 if r < 0.08 else rng.randrange(2, 11)
    r = rng.random()
    grid = SMALL if r < 0.55 else ZEROS if r < 0.7 else GRID
    tags = gen_tags(rng, n)
    recs = []
    for i in range(n):
        if recs and rng.random() < 0.2:       # a duplicate of an earlier individual (other tag, other object)
            o = rng.choice(recs)
            vec, costs = list(o.vec), list(o.costs)
            if rng.random() < 0.5:
                costs[rng.randrange(ng)] = rng.choice(grid)
        else:
            vec = [rng.choice(grid) for _ in range(npar)]
            costs = [rng.choice(grid) for _ in range(ng)]
        recs.append(Rec(tags[i], vec, costs, rng.choice([1, 1, 2, 3])))
    return npar, crit, recs


def crit_l(c):
    return {None: "CritAbsent", "minimize": "CritMinimize"}.get(c, "CritOther")


def rec_l(i, r):
    return "{| r_id := %s; r_tag := %s; r_vec := %s; r_costs := %s |}" % (nl(i), zl(r.tag), ll(r.vec, fl), ll(r.costs, fl))


def fll(rows):
    return ll([ll([float(v) for v in row], fl) for row in rows])


class Err(Exception):
    pass


def results_queries(rng, npar, crit, recs, full):
    """(coq query term, python thunk description) list for one case."""
    ng = len(crit)
    tags = sorted(set(r.tag for r in recs))
    absent = next(t for t in range(0, 12) if t not in tags)
    pids = [-1] + tags + [absent]
    qs = []
    for pid in pids:
        qs.append(("QPopulation %s" % zl(pid), ("population", pid)))
    for pid in ([-1] + tags[:2] + [absent]) if full else [rng.choice(pids)]:
        qs.append(("QProblemPopulation %s" % zl(pid), ("problem_population", pid)))
    qs.append(("QLastPopulation", ("last_population",)))
    qs.append(("QPopulations", ("populations",)))
    qs.append(("QTable true", ("table", True)))
    qs.append(("QTable false", ("table", False)))
    qs.append(("QParameters", ("parameters",)))
    qs.append(("QCosts", ("costs",)))
    for pi in range(npar):
        for gi in range(ng):
            pid = rng.choice(pids)
            for s in (False, True):
                qs.append(("QGoalOnParameter %s %s %s %s" % (nl(pi), nl(gi), zl(pid), bl(s)), ("goal_on_parameter", pi, gi, pid, s)))
            pid = rng.choice(pids)
            for s in (False, True):
                qs.append(("QParameterOnGoal %s %s %s %s" % (nl(gi), nl(pi), zl(pid), bl(s)), ("parameter_on_goal", gi, pi, pid, s)))
    for _ in range(2):
        p1, p2, pid = rng.randrange(npar), rng.randrange(npar), rng.choice(pids)
        for s in (False, True):
            qs.append(("QParameterOnParameter %s %s %s %s" % (nl(p1), nl(p2), zl(pid), bl(s)), ("parameter_on_parameter", p1, p2, pid, s)))
    pid = rng.choice(pids)
    for w in [None] + list(range(ng)):
        qs.append(("QGoalOnIndex %s %s" % (optl(w, nl), zl(pid)), ("goal_on_index", w, pid)))
    pid = rng.choice(pids)
    for w in [None] + list(range(npar)):
        qs.append(("QParameterOnIndex %s %s" % (optl(w, nl), zl(pid)), ("parameter_on_index", w, pid)))
    front = ll([i for i, r in enumerate(recs) if r.front == 1], nl)
    for pid in [None, rng.choice(pids)]:
        qs.append(("QParetoIndividuals %s %s" % (front, zl(-1 if pid is None else pid)), ("pareto_individuals", pid)))
        qs.append(("QParetoFront %s %s" % (front, zl(-1 if pid is None else pid)), ("pareto_front", pid)))
    qs.append(("QParetoValues", ("pareto_values",)))
    qs.append(("QPopulationIds", ("get_population_ids",)))
    qs.append(("QFindOptimum %s" % nl(0), ("find_optimum", None)))
    for gi in range(ng):
        qs.append(("QFindOptimum %s" % nl(gi), ("find_optimum", gi)))
    return qs


def run_results_case(env, npar, crit, recs, queries, ctx, stats):
    """Records the individuals on a problem, runs every query on the implementation, runs the direct oracle on
    the outputs, returns the list of observation terms."""
    Individual, Results = env["Individual"], env["Results"]
    problem = env["problem"](npar, crit)
    inds = []
    for r in recs:
        ind = Individual(list(r.vec))
        ind.costs = list(r.costs)
        ind.population_id = r.tag
        ind.features["front_number"] = r.front
        inds.append(ind)
    problem.individuals = list(inds)          # the recording
    ident = {id(o): i for i, o in enumerate(inds)}
    res = Results(problem)
    case_json = {"kind": "results", "nparams": npar, "criteria": crit,
                 "recorded": [[r.tag, list(r.vec), list(r.costs), r.front] for r in recs]}

    def ids(lst):
        out = []
        for o in lst:
            if id(o) not in ident:
                raise Err("returned an object that was not recorded")
            out.append(ident[id(o)])
        return out

    def fail(what, q, observed):
        ctx.oracle_failures.append({"what": what, "input": dict(case_json, query=list(q)), "observed": repr(observed)[:600],
                                    "match": {"kind": "results_query", "query": q[0]}})

    maxtag = max([r.tag for r in recs], default=None)

    def want_population(pid):
        t = pid
        if pid == -1:
            t = maxtag
        return [i for i, r in enumerate(recs) if r.tag == t]

    rows_want = Counter(hxl(r.vec + r.costs) for r in recs)
    obs = []
    for term, q in queries:
        kind = q[0]
        stats["queries"][kind] = stats["queries"].get(kind, 0) + 1
        try:
            if kind == "population":
                out = ids(res.population(q[1]) if q[1] != -1 or stats["flip"]() else res.population())
                obs.append("OIds %s" % ll(out, nl))
                if out != want_population(q[1]):
                    fail("population(%d) returned individuals %r, the individuals carrying that tag in recording order are %r"
                         % (q[1], out, want_population(q[1])), q, out)
            elif kind == "problem_population":
                out = ids(problem.population(q[1]))
                obs.append("OIds %s" % ll(out, nl))
                want = [i for i, r in enumerate(recs) if r.tag == q[1]]
                if out != want:
                    fail("Problem.population(%d) returned %r, expected %r" % (q[1], out, want), q, out)
            elif kind == "last_population":
                out = ids(problem.last_population())
                obs.append("OIds %s" % ll(out, nl))
                if out != want_population(-1):
                    fail("last_population() returned %r, the last generation is %r" % (out, want_population(-1)), q, out)
            elif kind == "populations":
                d = problem.populations()
                out = [(int(k), ids(v)) for k, v in d.items()]
                obs.append("OGroups %s" % ll(["(%s, %s)" % (zl(k), ll(v, nl)) for k, v in out]))
                for k, v in out:
                    if v != [i for i, r in enumerate(recs) if r.tag == k]:
                        fail("populations()[%d] = %r is not the recording filtered by that tag" % (k, v), q, out)
                if sorted(k for k, _ in out) != sorted(set(r.tag for r in recs)):
                    fail("populations() keys %r differ from the recorded tags" % ([k for k, _ in out],), q, out)
            elif kind in ("table", "parameters"):
                out = res.table(transpose=q[1]) if kind == "table" else res.parameters()
                out = [list(map(float, row)) for row in out]
                obs.append("OTable %s" % fll(out))
                if kind == "parameters":
                    if Counter(hxl(row) for row in out) != Counter(hxl(r.vec) for r in recs):
                        fail("parameters() is not the multiset of recorded vectors", q, out)
                else:
                    rows = out
                    if q[1]:
                        rows = [list(c) for c in zip(*out)] if out else []
                        if recs and len(out) != npar + len(crit):
                            fail("transposed table has %d columns for %d parameters + %d goals" % (len(out), npar, len(crit)), q, out)
                    if Counter(hxl(row) for row in rows) != rows_want:
                        fail("table rows are not the recorded individuals' (vector + own costs) rows", q, out)
            elif kind == "costs":
                out = [list(map(float, col)) for col in res.costs()]
                obs.append("OTable %s" % fll(out))
                if Counter(hxl(t) for t in zip(*out)) != Counter(hxl(r.costs) for r in recs) or len(out) != len(crit):
                    fail("costs() columns do not zip back to the recorded individuals' cost vectors", q, out)
            elif kind in ("goal_on_parameter", "parameter_on_goal", "parameter_on_parameter"):
                a, b, pid, s = q[1], q[2], q[3], q[4]
                pn, gn = env["pname"], env["gname"]
                kw = {} if (pid == -1 and stats["flip"]()) else {"population_id": pid}
                if kind == "goal_on_parameter":
                    out = res.goal_on_parameter(pn(a), gn(b), sorted=s, **kw)
                    pairs = [(recs[i].vec[a], recs[i].costs[b]) for i in want_population(pid)]
                elif kind == "parameter_on_goal":
                    out = res.parameter_on_goal(gn(a), pn(b), sorted=s, **kw)
                    pairs = [(recs[i].costs[a], recs[i].vec[b]) for i in want_population(pid)]
                else:
                    out = res.parameter_on_parameter(pn(a), pn(b), sorted=s, **kw)
                    pairs = [(recs[i].vec[a], recs[i].vec[b]) for i in want_population(pid)]
                if len(out) != 2:
                    raise Err("listing does not have two lists")
                k, v = [float(x) for x in out[0]], [float(x) for x in out[1]]
                obs.append("OPair %s %s" % (ll(k, fl), ll(v, fl)))
                if len(k) != len(v):
                    fail("%s returned lists of different lengths" % kind, q, out)
                elif not s:
                    if [(hx(x), hx(y)) for x, y in zip(k, v)] != [(hx(x), hx(y)) for x, y in pairs]:
                        fail("%s (unsorted) is not the population's own (key, value) pairs in recording order" % kind, q, out)
                else:
                    if Counter((eqkey(x), hx(y)) for x, y in zip(k, v)) != Counter((eqkey(x), hx(y)) for x, y in pairs):
                        fail("%s (sorted) re-paired the values: the returned (key, value) pairs are not the individuals' own pairs" % kind, q, out)
                    if any(k[i + 1] < k[i] for i in range(len(k) - 1)):
                        fail("%s (sorted) keys are not in ascending order" % kind, q, out)
            elif kind in ("goal_on_index", "parameter_on_index"):
                w, pid = q[1], q[2]
                kw = {} if (pid == -1 and stats["flip"]()) else {"population_id": pid}
                if kind == "goal_on_index":
                    out = res.goal_on_index(None if w is None else env["gname"](w), **kw)
                    cols = [[recs[i].costs[j] for i in want_population(pid)] for j in (range(len(crit)) if w is None else [w])]
                else:
                    out = res.parameter_on_index(None if w is None else env["pname"](w), **kw)
                    cols = [[recs[i].vec[j] for i in want_population(pid)] for j in (range(npar) if w is None else [w])]
                idx = list(out[0])
                got = [list(map(float, c)) for c in out[1:]]
                obs.append("OIndexed %s %s" % (nl(len(idx)), fll(got)))
                if idx != list(range(len(idx))):
                    ctx.mismatches.append({"what": "%s: index list is not range(n): %r" % (kind, idx), "correspondence": "c17_results",
                                           "case": dict(case_json, query=list(q))})
                if [hxl(c) for c in got] != [hxl(c) for c in cols]:
                    fail("%s does not list the population's own values in recording order" % kind, q, out)
            elif kind in ("pareto_individuals", "pareto_front"):
                pid = q[1]
                kw = {} if pid is None else {"population_id": pid}
                want = [i for i in want_population(-1 if pid is None else pid) if recs[i].front == 1]
                if kind == "pareto_individuals":
                    out = ids(res.pareto_individuals(**kw))
                    obs.append("OIds %s" % ll(out, nl))
                    if out != want:
                        fail("pareto_individuals(%r) returned %r, the population's individuals with front number 1 are %r" % (pid, out, want), q, out)
                else:
                    out = [list(map(float, c)) for c in res.pareto_front(**kw)]
                    obs.append("OTable %s" % fll(out))
                    if [hxl(c) for c in out] != [hxl([recs[i].costs[j] for i in want]) for j in range(len(crit))]:
                        fail("pareto_front(%r) does not list, goal by goal, the costs of the population's individuals with front number 1" % (pid,), q, out)
            elif kind == "pareto_values":
                out = [list(map(float, c)) for c in res.pareto_values()]
                obs.append("OTable %s" % fll(out))
                last = want_population(-1)
                full = [hxl(recs[i].costs) for i in last]
                if [hxl(c) for c in out] != full and not (len(last) <= 1 and out == []):      # the code returns [] for <= 1 member
                    fail("pareto_values() is not the list of cost vectors of the last generation", q, out)
            elif kind == "get_population_ids":
                out = sorted(int(t) for t in res.get_population_ids())
                obs.append("OTags %s" % ll(out, zl))
                if out != sorted(set(r.tag for r in recs)):
                    fail("get_population_ids() = %r differs from the recorded tags" % (out,), q, out)
            elif kind == "find_optimum":
                gi = q[1]
                o = res.find_optimum() if gi is None else res.find_optimum(env["gname"](gi))
                if id(o) not in ident:
                    obs.append("OErr")
                    fail("find_optimum returned an object that is not a recorded individual", q, o)
                    continue
                oi = ident[id(o)]
                obs.append("OOpt %s" % nl(oi))
                idx = 0 if gi is None else gi
                vals = [r.costs[idx] for r in recs]
                if crit[idx] in (None, "minimize"):
                    if any(v < vals[oi] for v in vals):
                        fail("find_optimum(%r): cost %r of the returned individual %d is not minimal over the recorded costs %r"
                             % (gi, vals[oi], oi, vals), q, oi)
                else:
                    if any(v > vals[oi] for v in vals):
                        fail("find_optimum(%r): goal is maximised, cost %r of the returned individual %d is not maximal over %r"
                             % (gi, vals[oi], oi, vals), q, oi)
                stats["optimum_ties"] += sum(1 for v in vals if v == vals[oi]) > 1
            else:
                raise ValueError(kind)
        except Exception as e:
            obs.append("OErr")
            stats["errors"][type(e).__name__] = stats["errors"].get(type(e).__name__, 0) + 1
            legit = (not recs) and kind in ("costs", "find_optimum")      # nothing recorded: IndexError / ValueError
            if not legit:
                fail("%s raised %r on a well-formed recording" % (kind, e), q, repr(e))
    return obs, case_json


# ---------------------------------------------------------------------------------------------
# indicators
def dy(rng, lo=-16, hi=32, den=8):
    return rng.randrange(lo, hi + 1) / den


def gen_points(rng, m, n, grid):
    return [[rng.choice(grid) if grid else dy(rng) for _ in range(m)] for _ in range(n)]


def gen_indicator_case(rng):
    """(style, ref, comp, shift) with dyadic coordinates."""
    m = rng.choice([1, 2, 2, 3, 3, 4])
    grid = [0.0, 0.5, 1.0, 1.5, 2.0] if rng.random() < 0.4 else None
    nr = rng.choice([1, 2, 3, 3, 4, 5, 6])
    ref = gen_points(rng, m, nr, grid)
    r = rng.random()
    if r < 0.35:
        return "random", ref, gen_points(rng, m, rng.choice([1, 2, 3, 4, 5]), grid), None
    if r < 0.47:            # identical sets: any order, with repetitions
        comp = [list(p) for p in ref] + [list(rng.choice(ref)) for _ in range(rng.randrange(0, 3))]
        rng.shuffle(comp)
        return "identical", ref, comp, None
    if r < 0.57:            # computed points all taken from the reference (gd = 0), not all reference points covered
        comp = [list(rng.choice(ref)) for _ in range(rng.choice([1, 2, 3]))]
        return "subset", ref, comp, None
    if r < 0.80:            # the reference set shifted by d >= 0 in every coordinate
        d = rng.choice([0.0, 0.125, 0.5, 1.0, 2.5, 2 ** -20, 7.0])
        return "shift", ref, [[x + d for x in p] for p in ref], d
    if r < 0.88:            # shifted by d < 0 (the computed set dominates the reference)
        d = -rng.choice([0.125, 0.5, 1.0])
        return "shift_neg", ref, [[x + d for x in p] for p in ref], d
    if r < 0.94:            # near duplicates: reference points plus tiny dyadic offsets
        comp = [[x + rng.choice([0.0, 2 ** -30, -2 ** -30]) for x in rng.choice(ref)] for _ in range(rng.choice([1, 2, 3]))]
        return "near", ref, comp, None
    k = rng.randrange(4)
    if k == 0:
        return "empty_computed", ref, [], None
    if k == 1:
        return "empty_reference", [], gen_points(rng, m, 2, grid), None
    if k == 2:
        return "zero_dim", [[] for _ in range(nr)], [[]], None
    return "single", [ref[0]], [list(ref[0])], None


def qll(points):
    return ll([ll(p, ql) for p in points])


def exact_eps(ref, comp):
    """max(0, max_r min_c max_i (c_i - r_i)) in exact rationals (None: no computed point)."""
    e = Fraction(0)
    for r in ref:
        if not comp:
            return None
        j = min(max(Fraction(c[i]) - Fraction(r[i]) for i in range(len(r))) for c in comp)
        e = max(e, j)
    return e


def float_gd(ref, comp):
    return math.fsum(min(math.sqrt(math.fsum((a - b) ** 2 for a, b in zip(r, c))) for r in ref) for c in comp) / len(comp)


def run(ctx):
    import logging
    logging.disable(logging.CRITICAL)
    from artap.problem import Problem
    from artap.individual import Individual
    from artap.results import Results
    import artap.quality_indicator as qi
    rng = ctx.rng

    class RecordedProblem(Problem):
        def set(self, **kwargs):
            self.name = "recorded"
            self.parameters = kwargs["parameters"]
            self.costs = kwargs["costs"]

        def evaluate(self, individual):
            raise AssertionError("the harness records individuals itself")

    pname = lambda i: "x_%d" % i
    gname = lambda j: "F_%d" % j
    problems = {}

    def problem(npar, crit):
        key = (npar, tuple(crit))
        if key not in problems:
            costs = []
            for j, c in enumerate(crit):
                d = {"name": gname(j)}
                if c is not None:
                    d["criteria"] = c
                costs.append(d)
            problems[key] = RecordedProblem(parameters=[{"name": pname(i), "bounds": [-10, 10]} for i in range(npar)], costs=costs)
        return problems[key]

    env = {"Individual": Individual, "Results": Results, "problem": problem, "pname": pname, "gname": gname}
    stats = {"queries": {}, "errors": {}, "optimum_ties": 0, "flip": lambda: rng.random() < 0.5,
             "individuals_hist": {}, "distinct_tags_hist": {}, "goals_hist": {}, "criteria_hist": {},
             "unsorted_tags": 0, "repeated_tags": 0, "duplicate_values": 0, "signed_zero_cases": 0}

    # ---- result queries -------------------------------------------------------------------
    corpus = []
    for path in sorted(glob.glob(os.path.join(VERIF, "corpus", "C17", "*.json"))):
        for c in json.load(open(path))["cases"]:
            corpus.append(c)
    rcases = [(c["nparams"], c["criteria"], [Rec(*r) for r in c["recorded"]]) for c in corpus if c["kind"] == "results"]
    n_random = ctx.pick(450, 12000)
    for _ in range(n_random):
        rcases.append(gen_results_case(rng))

    cases, expected, meta = [], [], []
    for k, (npar, crit, recs) in enumerate(rcases):
        queries = results_queries(rng, npar, crit, recs, full=(k < len(corpus) or k % 5 == 0))
        obs, cj = run_results_case(env, npar, crit, recs, queries, ctx, stats)
        cases.append("{| c_nparams := %s; c_crit := %s; c_recs := %s; c_queries := %s |}" % (
            nl(npar), ll([crit_l(c) for c in crit]), ll([rec_l(i, r) for i, r in enumerate(recs)]), ll([t for t, _ in queries])))
        expected.append(ll(obs))
        meta.append(dict(cj, queries=[list(q) for _, q in queries]))
        tags = [r.tag for r in recs]
        allv = [hx(v) for r in recs for v in r.vec + r.costs]
        nontrivial = len(recs) >= 2
        ctx.count(("R", npar, tuple(crit), tuple((r.tag, hxl(r.vec), hxl(r.costs), r.front) for r in recs)), nontrivial=nontrivial)
        for h, v in (("individuals_hist", len(recs)), ("distinct_tags_hist", len(set(tags))), ("goals_hist", len(crit))):
            stats[h][v] = stats[h].get(v, 0) + 1
        for c in crit:
            stats["criteria_hist"][str(c)] = stats["criteria_hist"].get(str(c), 0) + 1
        stats["unsorted_tags"] += tags != sorted(tags)
        stats["repeated_tags"] += len(set(tags)) < len(tags)
        stats["duplicate_values"] += any(n > 1 for n in Counter(hx(r.costs[0]) for r in recs).values())
        stats["signed_zero_cases"] += (float(0).hex() in allv and (-0.0).hex() in allv)
        if len(ctx.samples) < 2 and len(recs) >= 4 and len(set(tags)) >= 2:
            ctx.sample({"nparams": npar, "criteria": crit, "recorded": cj["recorded"],
                        "queries": [list(q) for _, q in queries[:8]], "observed": obs[:8]})
    n0 = len(ctx.mismatches)
    bad = ctx.coq_compare("c17_results", HEADER, "c17_case", "list obs", "c17_run", "c17_obs_eqb", cases, expected, meta,
                          shard=ctx.pick(40, 300))
    order_only = 0
    if bad:
        # Exact comparison failed somewhere.  The property does not fix row/group order, the order of values among
        # `==` keys, or which of several extremal individuals is returned: re-compare those cases up to that order
        # (Run/C17Run.v, c17_run_canon) and keep as mismatches only the cases that still differ.
        exact = ctx.mismatches[n0:]
        del ctx.mismatches[n0:]
        ctx.mismatches.extend(m for m in exact if "case_index" not in m)          # model evaluation failed
        n1 = len(ctx.mismatches)
        bad2 = ctx.coq_compare("c17_results_canon", HEADER, "c17_case * list obs", "bool", "c17_run_canon", "Bool.eqb",
                               ["(%s, %s)" % (cases[i], expected[i]) for i in bad], ["true"] * len(bad),
                               [meta[i] for i in bad], shard=ctx.pick(40, 300))
        canon = ctx.mismatches[n1:]
        del ctx.mismatches[n1:]
        ctx.mismatches.extend(m for m in canon if "case_index" not in m)
        still = set(bad[j] for j in bad2)
        ctx.mismatches.extend(m for m in exact if m.get("case_index") in still)
        order_only = len(bad) - len(still)
        if order_only:
            ctx.notes.append("%d case(s) differ from the model only in an order the property does not fix (table rows / groups, "
                             "values among equal keys of a sorted listing, choice among several extremal individuals)" % order_only)

    # ---- indicators -----------------------------------------------------------------------
    icases = [(c.get("style", "corpus"), c["ref"], c["comp"], c.get("shift"), c.get("only")) for c in corpus if c["kind"] == "indicator"]
    for _ in range(ctx.pick(500, 10000)):
        icases.append(gen_indicator_case(rng) + (None,))
    cases, expected, meta = [], [], []
    istats = {"styles": {}, "eps_values": {"zero": 0, "positive": 0, "inf": 0, "error": 0}, "gd_values": {"zero": 0, "positive": 0, "error": 0},
              "through_performance_measure": 0, "dims": {}}

    def ifail(what, inp, observed, which):
        ctx.oracle_failures.append({"what": what, "input": inp, "observed": repr(observed),
                                    "match": {"kind": "indicator", "indicator": which}})

    def via_results(which, ref, comp):
        """the same call through Results.performance_measure: the computed set is the cost vectors of the last generation."""
        m = len(comp[0])
        p = problem(1, [None] * m)
        inds = []
        for t in range(rng.randrange(0, 3)):          # an older generation with other costs
            o = Individual([0.0]); o.costs = [dy(rng) for _ in range(m)]; o.population_id = rng.randrange(0, 3)
            inds.append(o)
        for c in comp:
            o = Individual([0.0]); o.costs = list(c); o.population_id = 5
            inds.append(o)
        p.individuals = inds
        return Results(p).performance_measure([list(r) for r in ref], type=which)

    for style, ref, comp, shift, only in icases:
        ref = [[float(x) for x in p] for p in ref]
        comp = [[float(x) for x in p] for p in comp]
        istats["styles"][style] = istats["styles"].get(style, 0) + 1
        m = len((ref + comp)[0]) if ref + comp else 0
        istats["dims"][m] = istats["dims"].get(m, 0) + 1
        wf = bool(ref + comp) and m >= 1 and all(len(p) == m for p in ref + comp)
        inp = {"kind": "indicator", "style": style, "ref": ref, "comp": comp, "shift": shift}
        through = len(comp) >= 2 and wf and rng.random() < 0.3
        istats["through_performance_measure"] += 2 * through
        if only in (None, "eps"):
            # ---------- epsilon_add
            try:
                y = via_results("epsilon", ref, comp) if through else qi.epsilon_add([list(r) for r in ref], [list(c) for c in comp])
                y = float(y)
                err = None
            except Exception as e:
                y, err = None, e
            cases.append("IEps %s %s" % (qll(ref), qll(comp)))
            if err is not None:
                expected.append("IErr")
                istats["eps_values"]["error"] += 1
                if wf or (not ref and all(len(c) == len(comp[0]) for c in comp)):
                    ifail("epsilon_add raised %r on two finite point sets" % (err,), dict(inp, indicator="epsilon_add"), repr(err), "epsilon_add")
            elif math.isinf(y) and y > 0:
                expected.append("IInf")
                istats["eps_values"]["inf"] += 1
                if comp:
                    ifail("epsilon_add is infinite for a non-empty computed set", dict(inp, indicator="epsilon_add"), y, "epsilon_add")
            elif math.isnan(y) or math.isinf(y):
                expected.append("IErr")
                ifail("epsilon_add returned %r" % y, dict(inp, indicator="epsilon_add"), y, "epsilon_add")
            else:
                expected.append("IFin %s" % ql(y))
                istats["eps_values"]["zero" if y == 0 else "positive"] += 1
                want = exact_eps(ref, comp)
                if y < 0:
                    ifail("epsilon_add is negative", dict(inp, indicator="epsilon_add"), y, "epsilon_add")
                if want is not None and Fraction(y) != want:
                    ifail("epsilon_add = %r, the non-negative max-min-max of coordinate differences is %s" % (y, want),
                          dict(inp, indicator="epsilon_add"), y, "epsilon_add")
                if style == "identical" and y != 0:
                    ifail("epsilon_add of identical sets is %r, not 0" % y, dict(inp, indicator="epsilon_add"), y, "epsilon_add")
                if style == "shift" and wf and y != shift:
                    ifail("epsilon_add of the reference set shifted by d=%r is %r" % (shift, y), dict(inp, indicator="epsilon_add"), y, "epsilon_add")
            meta.append(dict(inp, indicator="epsilon_add", through_performance_measure=through))
            ctx.count(("E", hxl(sum(ref, [])), hxl(sum(comp, [])), len(ref), len(comp)), nontrivial=wf and len(ref) + len(comp) >= 3)
        if only in (None, "gd") and (m >= 1 or not ref + comp):     # zero-dimensional points: cdist returns 0.0, not modelled
            # ---------- gd
            try:
                y = via_results("gd", ref, comp) if through else qi.gd([list(r) for r in ref], [list(c) for c in comp])
                y = float(y)
                err = None
            except Exception as e:
                y, err = None, e
            cases.append("IGd %s %s" % (qll(ref), qll(comp)))
            if err is not None or not math.isfinite(y):
                expected.append("IErr")
                istats["gd_values"]["error"] += 1
                if wf and ref and comp:
                    ifail("gd %s on two finite non-empty point sets" % ("raised %r" % (err,) if err is not None else "returned %r" % y),
                          dict(inp, indicator="gd"), repr(err) if err is not None else y, "gd")
            else:
                expected.append("IFin %s" % ql(y))
                istats["gd_values"]["zero" if y == 0 else "positive"] += 1
                if wf and ref and comp:
                    want = float_gd(ref, comp)
                    if abs(y - want) > 1e-9 * (1 + abs(want)):
                        ifail("gd = %r, the mean distance from each computed point to its nearest reference point is %r" % (y, want),
                              dict(inp, indicator="gd"), y, "gd")
                    subset = all(any(c == r for r in ref) for c in comp)
                    if (y == 0) != subset:
                        ifail("gd = %r but %s computed point is a reference point" % (y, "every" if subset else "not every"),
                              dict(inp, indicator="gd"), y, "gd")
            meta.append(dict(inp, indicator="gd", through_performance_measure=through))
            ctx.count(("G", hxl(sum(ref, [])), hxl(sum(comp, [])), len(ref), len(comp)), nontrivial=wf and len(ref) + len(comp) >= 3)
        if len(ctx.samples) < 4 and style in ("random", "shift") and len(ref) >= 2 and m >= 2:
            ctx.sample({"indicator_case": inp, "observed": expected[-2:]})
    ctx.coq_compare("c17_indicators", IHEADER, "icase", "iobs", "c17_irun", "c17_iobs_eqb", cases, expected, meta,
                    shard=ctx.pick(80, 500))

    del stats["flip"]
    ctx.rule = ("result queries: 1-3 parameters, 1-3 goals with criteria drawn from {absent, minimize, maximize}, 0-10 recorded "
                "individuals whose tags are drawn unsorted and repeated from a pool (plus ascending/descending/constant/all -1 "
                "templates), values from small grids with ties, signed zeros, adjacent floats, huge magnitudes and infinities, "
                "duplicated individuals, front numbers 1-3; every query method (population, Problem.population/last_population/"
                "populations, table, parameters, costs, the three listings sorted and unsorted, goal/parameter_on_index, "
                "pareto_individuals/front/values, get_population_ids, find_optimum per goal) is run on every case (all tags, an "
                "absent tag and the default), a "
                "case is non-trivial with >= 2 individuals; distinct = distinct (parameters, criteria, recording). Indicators: "
                "point sets of 1-6 points with 1-4 dyadic coordinates (random, identical, subset, shifted by d >= 0, shifted by "
                "d < 0, near-duplicates, empty/zero-dimensional), non-trivial when well formed with >= 3 points in total; "
                "30% of the cases with >= 2 computed points go through Results.performance_measure")
    ctx.extra.update({"results_stats": stats, "indicator_stats": istats, "corpus_cases": len(corpus),
                      "near_boundary": 0, "order_only_differences": order_only})


LEVEL_TEXT = ("Machine-checked Coq theorems over a model of Problem.populations/population/last_population and of the Results "
              "query methods, for every number of recorded individuals, tags in any order, duplicate values and any value type with "
              "a strict weak order (instantiated at binary64): population queries are the filter of the recording by tag (default: "
              "largest tag), table rows are each individual's vector followed by its own costs and a permutation of the recording, "
              "the sorted listings are the components of one sorted arrangement of the individuals' own (key, value) pairs, "
              "find_optimum returns the first recorded individual whose named cost is minimal (maximal for a maximised goal), "
              "the Pareto views are the queried population's front-1 individuals and their own costs. "
              "epsilon_add (exact rationals): non-negative max-min-max, 0 when every reference point is computed, d for the "
              "reference set shifted by d >= 0. gd (reals): mean distance to a nearest reference point, zero iff the computed "
              "points are reference points; its executable rational enclosure is proved to contain the real value. The models "
              "are tied to the code on every run by evaluating them in Coq on the recorded cases: ids and float bit patterns "
              "compared exactly, epsilon_add exactly, gd against the proved enclosure.")
LEVEL_NOTE = ("Trusted: Coq kernel + vm_compute; FloatAxioms for the binary64 order instance; classical-reals axioms for gd; the "
              "hand-written models and the Python harness. Sorted listings are proved paired up to `==` on keys (exactly when "
              "`==` is identity: -0.0/0.0 keys can swap places). Cases that differ from the model only in an order the property "
              "does not fix (rows/groups, ties) are counted as order-only differences, not as mismatches (0 on the current code). "
              "Indicator theorems are over Q/R; binary64 rounding is checked "
              "on the sampled dyadic point sets only. Correspondence is sampled, the theorems are unbounded.")
