"""C20 - Individual equality / hashing and the container operations built on them.

Four correspondence streams (one coq_compare call, all compared exactly with the Coq model of Run/C20Run.v):
  pools    - pools of real Individual objects (all classes, all construction paths, scrambled non-vector
             fields, colliding Individual.id, hash-colliding vectors, int / numpy representations) under
             ==, in, any(==), list.remove, Archive.remove, Selector.pop_acceptance, set(),
             nondominated_truncate;
  generate - the real GeneticAlgorithm.generate() driven by scripted selector / crossover / mutator stubs;
  foreign  - designs created by a second interpreter (own Individual.counter) and read back with
             Individual.from_dict, mixed with local designs carrying the same ids;
  mutated  - pools of LONG-LIVED designs: every object is hashed (hash, set, dict key, x in set, nondominated_truncate), then
             vectors change (in-place element assignment, clamping onto bounds, whole-list assignment, sync, swap) so
             that distinct designs become identical and identical ones distinct, fresh twins with the same coordinates
             join the pool, and the pool operations run again on the current vectors (several rounds).
Direct oracle: the property text evaluated on the implementation's own results.
"""
import copy
import json
import math
import os
import subprocess
import sys

from harness.core import fl, zl, nl, ll, pl

PROP = "C20"
THEOREMS = {"Artap.Props.C20": [
    "C20_eq_iff_all_close", "C20_eq_total", "C20_eq_detects_any_coordinate", "C20_eq_symmetric",
    "C20_identical_same_hash", "C20_mem_spec", "C20_item_eq_spec", "C20_generate_rejects_only_repeats",
    "C20_remove_hits_equal_only", "C20_remove_fails_iff_absent", "C20_set_dedupe_exact", "C20_merged_is_equal",
    "C20_depends_on_vectors_only", "C20_generate_discards_only_repeats", "C20_generate_accepts_no_repeat"]}
AXIOMS_OK = []
# second tie to the code (tools/py2coq.py + coq/theories/GenProofs): the source of Individual.__eq__ / __hash__ is translated on every run and proved equal to Model/IndividualEq.v ind_eq / ihash
from harness.core import translated_specs
TRANSLATED = translated_specs("IndividualEqGen")
TRUSTED = [
    "Coq 8.16.1 kernel; vm_compute for model evaluation",
    "theorems are closed under the global context (abstract coordinate type, comparison, |a-b| and tolerance)",
    "binary64 instance used by the correspondence: abs(a-b) < 1e-10 with PrimFloat sub/abs/ltb (bit-identical to CPython)",
    "C20_eq_symmetric has the premise close a b = close b a; proved for exact integers (Example), assumed for binary64 (|a-b| = |b-a| in IEEE-754) and exercised on every generated pair (both a == b and b == a are compared with the model)",
    "hash(tuple(vector)) is an oracle function of the vector; Python's set probing is modelled as 'same hash and entry == element', iteration order compared as a sorted set of objects",
    "the model individual is (object identity, vector): Individual.id, costs, state, population_id, features, custom and the class are absent from the model, so independence of them holds by construction; the harness varies all of them on the real objects",
    "generate: the selector/crossover/mutator results are an input tape (stream of child pairs) of the model; scripted stubs supply the same tape to the real GeneticAlgorithm.generate",
]
ASSUMPTIONS = ["no NaN/inf coordinates; vectors of equal length n >= 1 (as the property states; __eq__ on vectors of different length is not compared); "
               "CPython list.__contains__/list.remove/set use identity-or-__eq__ with the container's item as left operand; "
               "generate theorems and oracle for max_population_size >= 2 (for 1 the loop returns its first child twice; population sizes are C09's subject)"]
LEVEL_TEXT = ("Coq theorems over a model of Individual.__eq__/__hash__, of `in`, list.remove and set() as Python applies them, and of the whole "
              "duplicate-rejecting loop of GeneticAlgorithm.generate: equality iff all coordinates within the tolerance, any single differing "
              "coordinate (whichever) makes points unequal, symmetry, identical vectors hash alike, results depend on the two vectors only, "
              "membership/remove/set-dedupe hit only equal designs, generate discards only repeats of kept designs and keeps no repeat - for all "
              "vector lengths, values, streams of children and population sizes >= 2. Each run the binary64 instance of the model is compared exactly "
              "with the real objects: pools of all Individual classes built through every construction path (constructor, copy, copy.copy/deepcopy, "
              "sync, to_dict/from_dict incl. a second interpreter, colliding ids, scrambled costs/state/features, int/numpy coordinates, "
              "hash-colliding vectors) under ==, !=, in, list.remove, Archive.remove, pop_acceptance, set(), nondominated_truncate, the same operations on "
              "long-lived objects whose vectors change AFTER they were hashed (in-place element assignment, clamping onto bounds, whole-list "
              "assignment, sync, swap; fresh twins with the current coordinates), and the real "
              "generate() driven by scripted operators with exact repeats, near-repeats and hash collisions.")
LEVEL_NOTE = ("Trusted: Coq kernel, the hand-written model, the harness; symmetry of |a-b| for binary64 is a stated premise (exercised, not proved); "
              "hash is an oracle function of the vector in the model (collisions between distinct tuples are allowed by the model and exercised: "
              "-1.0/-2.0, x/x*2^61); independence of non-vector fields is by construction of the model and checked on the implementation by "
              "the correspondence and an invariance oracle; generate for max_population_size = 1 and __eq__ on vectors of different length are outside the statement.")

HEADER = "From Artap Require Import Run.C20Run.\nFrom Coq Require Import List ZArith Floats.\nImport ListNotations.\nOpen Scope float_scope.\n"

BASE = [0.0, 1.0, -1.0, 2.5, 1000.0, 1e-10, 1e-9, -3.75, 0.1, 1e6, 5e-11, -0.0, 2.0, 0.5, -2.0, 4.0]
DELTAS = [0.0, 0.0, 1e-11, -1e-11, 5e-11, 9.9e-11, 1e-10, 1.1e-10, 2e-10, 1e-9, -1e-9, 1.0, -1.0, 1e-3]
# distinct floats with the same CPython hash (hash(-1) is -2; float hash is the value modulo 2^61-1)
COLLIDE = {-1.0: -2.0, -2.0: -1.0, 1.0: 2.0 ** 61, 2.0: 2.0 ** 62, 0.5: 2.0 ** 60, 4.0: 2.0 ** 63, 3.0: 2.0 ** 61 + 2.0 ** 62,
           2.0 ** 61: 1.0, 2.0 ** 62: 2.0, 2.0 ** 60: 0.5, 2.0 ** 63: 4.0}


def close(a, b):
    return abs(a - b) < 1e-10


def oracle_eq(v, w):
    return all(close(a, b) for a, b in zip(v, w))


def fvec(x):
    """the coordinates of a real Individual as Python floats (ints / numpy scalars converted exactly)"""
    return [float(c) for c in x.vector]


def bits_equal(v, w):
    return len(v) == len(w) and all(a == b and math.copysign(1, a) == math.copysign(1, b) for a, b in zip(v, w))


class _Stop(Exception):
    pass


def run(ctx):
    import random as _random
    import numpy as np
    from artap.individual import Individual
    from artap.archive import Archive
    from artap.problem import Problem
    from artap.algorithm_genetic import GeneticAlgorithm, IndividualEpsMOEA
    from artap.algorithm_NSGAII import IndividualNSGAII
    from artap.algorithm_swarm import IndividualSwarm
    from artap.operators import nondominated_truncate, TournamentSelector
    rng = ctx.rng
    CLASSES = [Individual, Individual, IndividualNSGAII, IndividualEpsMOEA, IndividualSwarm]
    n_pool = ctx.pick(1300, 30000)
    n_gen = ctx.pick(500, 12000)
    n_foreign = ctx.pick(120, 1500)
    n_mutated = ctx.pick(160, 4000)
    cases, expected, meta = [], [], []
    stats = {"eq_true": 0, "eq_false": 0, "differs_only_in_one_coord": 0, "diff_position_hist": {},
             "ops": {}, "paths": {}, "classes": {}, "representations": {},
             "eq_pairs_same_Individual_id_different_vectors": 0, "eq_pairs_different_id_equal_vectors": 0,
             "eq_pairs_hash_collision_distinct": 0, "eq_pairs_mixed_classes": 0,
             "set_cases_with_colliding_ids": 0, "set_cases_with_hash_collision": 0,
             "invariance_probes": 0, "representation_probes": 0,
             "mutated": {"pools": 0, "rounds": 0, "cases": 0, "moves": {}, "objects_hashed_before_their_vector_changed": 0,
                         "pairs_distinct_then_identical": 0, "pairs_identical_then_distinct": 0, "fresh_twins": 0,
                         "in_place_changes": 0, "reassignments": 0},
             "generate": {"cases": 0, "children": 0, "rejected_exact_repeat": 0, "rejected_near_repeat": 0,
                          "kept_near_but_distinct": 0, "kept_hash_colliding_distinct": 0, "capacity_cut": 0,
                          "by_N": {}, "by_mode": {}, "by_class": {}}}

    def bump(d, k, by=1):
        d[k] = d.get(k, 0) + by

    def fail(what, inp, match):
        ctx.oracle_failures.append({"what": what, "input": inp, "match": match})

    # ------------------------------------------------------------------ representations of a vector
    def rep(v, kind=None):
        kind = kind or rng.choice(["list", "list", "list", "npf", "arr", "int"])
        bump(stats["representations"], kind)
        if kind == "npf":
            return [np.float64(x) for x in v]
        if kind == "arr":
            return np.array(v, dtype=float)
        if kind == "int":
            return [int(x) if (float(x).is_integer() and abs(x) <= 1e6 and not (x == 0 and math.copysign(1, x) < 0)) else x for x in v]
        return [float(x) for x in v]

    def decorate(x):
        """scramble every field the property does not mention"""
        if rng.random() < 0.5:
            x.costs = [rng.choice([0.0, 1.0, -3.5, 7.25]) for _ in range(rng.choice([1, 2]))]
            x.costs_signed = list(x.costs) + [True]
        if rng.random() < 0.4:
            x.state = rng.choice(list(Individual.State))
        if rng.random() < 0.4:
            x.population_id = rng.choice([-1, 0, 1, 5])
            x.algorithm_id = rng.choice([0, 1, 2])
        if rng.random() < 0.3:
            x.custom = {"tag": rng.randrange(4)}
        x.features["front_number"] = rng.randrange(3)
        x.features["crowding_distance"] = rng.choice([0, 0.5, 1.0, 2.0])
        return x

    def make_object(v, objs):
        """one real design with coordinates v, built through one of the ways artap (or a user) builds it"""
        paths = ["fresh", "fresh", "fresh"]
        if objs:
            paths += ["copy", "copycopy", "deepcopy", "from_dict_same_id", "assign_id", "sync", "from_dict"]
        else:
            paths += ["from_dict", "sync"]
        path = rng.choice(paths)
        bump(stats["paths"], path)
        cls = rng.choice(CLASSES)
        if path == "fresh":
            y = cls(rep(v))
        elif path == "copy":                       # Individual*.copy(), then the vector is assigned as generate() does
            y = rng.choice(objs).copy()
            y.vector = rep(v)
        elif path == "copycopy":                   # shallow copy: same Individual.id, shared features dict
            y = copy.copy(rng.choice(objs))
            y.features = dict(y.features)
            y.vector = rep(v)
        elif path == "deepcopy":                   # same Individual.id
            y = copy.deepcopy(rng.choice(objs))
            y.vector = rep(v)
        elif path == "from_dict":                  # JSON round trip (datastore reload), id of the dumped object
            y = Individual.from_dict(json.loads(json.dumps(decorate(cls(rep(v, rng.choice(["list", "npf", "int"])))).to_dict())))
        elif path == "from_dict_same_id":          # reloaded design that carries the id of a local design
            d = json.loads(json.dumps(cls(rep(v, "list")).to_dict()))
            d["id"] = rng.choice(objs).id
            y = Individual.from_dict(d)
        elif path == "assign_id":
            y = cls(rep(v))
            y.id = rng.choice(objs).id
        else:                                      # sync: takes over vector (aliased) and fields, keeps its own id
            z = decorate(cls(rep(v)))
            y = cls(rep([0.0] * len(v), "list"))
            y.sync(z)
        bump(stats["classes"], type(y).__name__)
        return decorate(y)

    def make_vectors(n, size):
        base = [rng.choice(BASE) for _ in range(n)]
        pool = [list(base)]
        for _ in range(size - 1):
            r = rng.random()
            src = rng.choice(pool)
            if r < 0.22:
                v = list(src)                               # identical vector, different object
            elif r < 0.62:
                v = list(src)
                k = rng.choice([1, 1, 1, 2, n])
                for pos in rng.sample(range(n), min(k, n)):
                    v[pos] = v[pos] + rng.choice(DELTAS)
            elif r < 0.80:                                  # distinct vector with the same hash
                v = list(src)
                cand = [p for p in range(n) if v[p] in COLLIDE]
                if cand:
                    p = rng.choice(cand)
                    v[p] = COLLIDE[v[p]]
                else:
                    v[rng.randrange(n)] = rng.choice([-1.0, -2.0, 1.0, 2.0 ** 61])
            else:
                v = [rng.choice(BASE) for _ in range(n)]
            pool.append(v)
        return pool

    def make_pool():
        n = rng.choice([1, 1, 2, 3, 3, 4, 6])
        size = rng.choice([2, 3, 4, 5, 7])
        objs = []
        for v in make_vectors(n, size):
            objs.append(make_object(v, objs))
        return objs

    def enc_pool(objs):
        return ll([pl(pl(pl(nl(t), zl(int(x.id))), ll(fvec(x), fl)), zl(hash(x))) for t, x in enumerate(objs)])

    def emit(pool_txt, op, obs, m, key, nontrivial=True):
        cases.append("{| c20_pool := %s; c20_op_ := %s |}" % (pool_txt, op))
        expected.append(obs)
        m["observed"] = obs
        meta.append(m)
        ctx.count(key, nontrivial=nontrivial)

    def describe(objs):
        return [{"vector": fvec(x), "Individual.id": x.id, "class": type(x).__name__,
                 "repr": type(x.vector).__name__ + "/" + ",".join(sorted({type(c).__name__ for c in x.vector}))} for x in objs]

    selector = TournamentSelector([])
    hash_reported = {}

    # ------------------------------------------------------------------ pool operations
    def pool_case(objs, source, kind=None, i=None, sel=None, j=None):
        k = len(objs)
        tok = {id(x): t for t, x in enumerate(objs)}
        pool_txt = enc_pool(objs)
        kind = kind or rng.choice(["eq", "eq", "eq", "in", "remove", "set", "repeated", "archive_remove", "truncate", "pop_acceptance"])
        bump(stats["ops"], kind)
        i = rng.randrange(k) if i is None else i
        sel = [rng.randrange(k) for _ in range(rng.choice([0, 1, 2, 3, 5]))] if sel is None else list(sel)
        m = {"source": source, "pool": describe(objs), "op": kind, "i": i, "sel": sel}
        vecs = [fvec(x) for x in objs]
        keyv = tuple(tuple(v) for v in vecs)
        # "points with identical vectors have identical hashes": every pair of the pool, whatever happened to the objects before
        for p in range(k):
            for q in range(p):
                if bits_equal(vecs[p], vecs[q]) and hash(objs[p]) != hash(objs[q]):
                    hk = (id(objs[p]), id(objs[q]), hash(objs[p]), hash(objs[q]), keyv[p])
                    if hk in hash_reported:                  # one report per pair of objects and state, not one per operation
                        continue
                    hash_reported[hk] = (objs[p], objs[q])   # keeps the objects alive: the ids in the key stay unambiguous
                    fail("identical vectors hash differently (pool members %d and %d)" % (q, p),
                         {"v": vecs[p], "a": m["pool"][q], "b": m["pool"][p], "hashes": [hash(objs[q]), hash(objs[p])], "source": source},
                         {"kind": "hash", "v": vecs[p]})

        def same(p, q):                       # what the property calls the same design for containers
            return objs[p] is objs[q] or oracle_eq(vecs[p], vecs[q])

        if kind == "eq":
            j = rng.randrange(k) if j is None else j
            m["j"] = j
            a, b = objs[i], objs[j]
            r, r2 = bool(a == b), bool(b == a)
            ne = bool(a != b)
            want = oracle_eq(vecs[i], vecs[j])
            stats["eq_true" if r else "eq_false"] += 1
            diffpos = [p for p in range(len(vecs[i])) if not close(vecs[i][p], vecs[j][p])]
            if len(diffpos) == 1:
                stats["differs_only_in_one_coord"] += 1
                bump(stats["diff_position_hist"], diffpos[0])
            if i != j and a.id == b.id and not want:
                stats["eq_pairs_same_Individual_id_different_vectors"] += 1
            if a.id != b.id and want:
                stats["eq_pairs_different_id_equal_vectors"] += 1
            if not want and hash(a) == hash(b):
                stats["eq_pairs_hash_collision_distinct"] += 1
            if type(a) is not type(b):
                stats["eq_pairs_mixed_classes"] += 1
            inp = {"v": vecs[i], "w": vecs[j], "a": m["pool"][i], "b": m["pool"][j]}
            if r != want:
                fail("a == b is %s but coordinates are %s within 1e-10" % (r, "all" if want else "not all"), inp,
                     {"kind": "eq_pair", "v": vecs[i], "w": vecs[j]})
            if r != r2:
                fail("equality is not symmetric: a == b is %s, b == a is %s" % (r, r2), inp, {"kind": "eq_sym", "v": vecs[i], "w": vecs[j]})
            if ne == r:
                fail("a != b is %s while a == b is %s" % (ne, r), inp, {"kind": "eq_ne", "v": vecs[i], "w": vecs[j]})
            if bits_equal(vecs[i], vecs[j]) and hash(a) != hash(b):
                fail("identical vectors hash differently", inp, {"kind": "hash", "v": vecs[i]})
            # invariance: the verdict and the hashes are functions of the vectors only
            if rng.random() < 0.5 and a is not b:
                stats["invariance_probes"] += 1
                saved = [(x, x.id, x.costs, x.costs_signed, x.state, x.population_id) for x in (a, b)]
                h0 = (hash(a), hash(b))
                for variant in ("same_id", "swapped_id", "fields"):
                    if variant == "same_id":
                        a.id = b.id
                    elif variant == "swapped_id":
                        a.id, b.id = saved[1][1], saved[0][1]
                    else:
                        a.costs, a.costs_signed, a.state, a.population_id = [123.0], [123.0, True], Individual.State.FAILED, 77
                        b.costs, b.costs_signed, b.state, b.population_id = [], [], Individual.State.EVALUATED, -5
                    got = (bool(a == b), bool(b == a), (hash(a), hash(b)))
                    if got != (r, r2, h0):
                        fail("==/hash changed (%r -> %r) when only non-vector fields were changed (%s)" % ((r, r2, h0), got, variant),
                             dict(inp, variant=variant, ids=[a.id, b.id]), {"kind": "eq_invariance", "v": vecs[i], "w": vecs[j], "variant": variant})
                for x, xid, c, cs, st, pid in saved:
                    x.id, x.costs, x.costs_signed, x.state, x.population_id = xid, c, cs, st, pid
            # the same coordinates as Python floats / numpy scalars / array / ints: same hash, equal
            if rng.random() < 0.3:
                stats["representation_probes"] += 1
                twins = [Individual(rep(vecs[i], kd)) for kd in ("list", "npf", "arr", "int")]
                for tw in twins:
                    if not bits_equal(fvec(tw), vecs[i]):
                        continue
                    if hash(tw) != hash(a) or not (tw == a) or not (a == tw):
                        fail("the same coordinates given as %s hash/compare differently" % type(tw.vector[0]).__name__,
                             {"v": vecs[i], "hash": [hash(tw), hash(a)], "eq": [bool(tw == a), bool(a == tw)]},
                             {"kind": "hash_repr", "v": vecs[i]})
            emit(pool_txt, "OpEq %s %s" % (nl(i), nl(j)), "ObB %s" % ("true" if r else "false"), m, ("eq", keyv, i, j), k > 1)
            m2 = dict(m, i=j, j=i, op="eq(reversed)")
            emit(pool_txt, "OpEq %s %s" % (nl(j), nl(i)), "ObB %s" % ("true" if r2 else "false"), m2, ("eq", keyv, j, i), k > 1)
            ctx.sample(m)
            return
        lst = [objs[s] for s in sel]
        if kind in ("in", "repeated"):
            if kind == "in":
                r = objs[i] in lst
                op = "OpIn %s %s" % (nl(i), ll(sel, nl))
                want = any(same(s, i) for s in sel)
            else:
                r = any(objs[i] == o for o in lst)
                op = "OpRepeated %s %s" % (nl(i), ll(sel, nl))
                want = any(oracle_eq(vecs[i], vecs[s]) for s in sel)
            obs = "ObB %s" % ("true" if r else "false")
            if bool(r) != want:
                fail("membership test says %s but an equal design %s" % (r, "exists" if want else "does not exist"),
                     m, {"kind": "mem", "pool": vecs, "i": i, "sel": sel})
        elif kind in ("remove", "archive_remove", "pop_acceptance"):
            newcomer = None
            if kind == "remove":
                try:
                    lst.remove(objs[i])
                    ok = True
                except ValueError:
                    ok = False
            elif kind == "archive_remove":
                ar = Archive()
                ar._contents = lst
                ok = ar.remove(objs[i])
                lst = ar._contents
            else:
                # Selector.pop_acceptance with mutually non-dominated costs: individuals.remove(random.choice(individuals))
                if not sel:
                    sel = [i]
                    m["sel"] = sel
                    lst = [objs[i]]
                c = rng.randrange(len(sel))
                i = sel[c]
                m["i"] = i
                newcomer = Individual([0.0] * len(vecs[0]))
                saved = [(x, x.costs_signed) for x in lst]
                for x in lst + [newcomer]:
                    x.costs_signed = [1.0, True]
                orig_choice = _random.choice
                _random.choice = lambda seq: seq[c]
                try:
                    selector.pop_acceptance(lst, newcomer)
                finally:
                    _random.choice = orig_choice
                    for x, cs in saved:
                        x.costs_signed = cs
                ok = True
                if not lst or lst[-1] is not newcomer:
                    fail("pop_acceptance did not append the accepted design", m, {"kind": "pop_acceptance_append"})
                else:
                    lst = lst[:-1]
            op = "OpRemove %s %s" % (nl(i), ll(sel, nl))
            got = [tok.get(id(x), 99) for x in lst] if ok else None
            obs = ("ObL %s" % ll(got, nl)) if ok else "ObErr"
            first = next((p for p, s in enumerate(sel) if same(s, i)), None)
            want = None if first is None else [s for p, s in enumerate(sel) if p != first]
            if got != want:
                fail("%s took out %r, removing the first equal design gives %r" % (kind, got, want),
                     m, {"kind": "remove", "pool": vecs, "i": i, "sel": sel})
        else:
            if kind == "set":
                res = set(lst)
            else:
                res = nondominated_truncate(list(lst), len(lst))
            got = sorted(tok.get(id(x), 99) for x in res)
            op = "OpSet %s" % ll(sel, nl)
            obs = "ObL %s" % ll(got, nl)
            ids = [objs[s].id for s in set(sel)]
            if len(set(ids)) < len(ids):
                stats["set_cases_with_colliding_ids"] += 1
            if any(hash(objs[p]) == hash(objs[q]) and not oracle_eq(vecs[p], vecs[q]) for p in set(sel) for q in set(sel)):
                stats["set_cases_with_hash_collision"] += 1
            if len(res) != len(got) or len(set(got)) != len(got):
                fail("%s returned an object twice or a foreign object" % kind, m, {"kind": "set_foreign", "pool": vecs, "sel": sel})
            # never discard a distinct design; never keep two identical ones
            for s in sel:
                if not any(same(g, s) for g in got if g < k):
                    fail("%s discarded a design that differs from every survivor" % kind, dict(m, survivors=got, discarded=s),
                         {"kind": "set_drop", "pool": vecs, "sel": sel})
                    break
            for p in got:
                for q in got:
                    if p < q < k and bits_equal(vecs[p], vecs[q]) and hash(objs[p]) == hash(objs[q]):
                        fail("%s kept two identical designs" % kind, dict(m, survivors=got), {"kind": "set_dup", "pool": vecs, "sel": sel})
            ctx.sample(m)
        emit(pool_txt, op, obs, m, (kind, keyv, i, tuple(sel)), k > 1)

    # fixed scenarios (independent of the seed): a reloaded design that carries the id of a local design with
    # other coordinates; equal coordinates under different ids and classes; a hash collision
    a0 = Individual([1.0, 2.0])
    d0 = json.loads(json.dumps(Individual([3.0, 4.0]).to_dict()))
    d0["id"] = a0.id
    b0 = Individual.from_dict(d0)
    c0_ = IndividualNSGAII([1.0, 2.0 + 1e-11])
    e0 = IndividualSwarm([-1.0, 2.0])
    f0 = copy.copy(e0)
    f0.features = dict(e0.features)
    f0.vector = [-2.0, 2.0]
    fixed = [decorate(x) for x in (a0, b0, c0_, e0, f0, Individual([5.0, 6.0]))]
    for (p_, q_) in ((0, 1), (0, 2), (3, 4), (2, 0), (1, 5)):
        pool_case(fixed, "fixed", "eq", p_, [], q_)
    for kind_ in ("in", "remove", "archive_remove", "repeated", "pop_acceptance"):
        pool_case(fixed, "fixed", kind_, 1, [0, 5])
        pool_case(fixed, "fixed", kind_, 4, [0, 3, 5])
        pool_case(fixed, "fixed", kind_, 2, [5, 0, 2])
    for kind_ in ("set", "truncate"):
        pool_case(fixed, "fixed", kind_, 0, [0, 1, 5])
        pool_case(fixed, "fixed", kind_, 0, [3, 4, 0, 2])
    for _ in range(n_pool):
        try:
            pool_case(make_pool(), "local")
        except IndexError as e:          # vectors of one pool have one length: an IndexError is not expected
            ctx.mismatches.append({"what": "IndexError in a pool operation on vectors of equal length: %r" % (e,)})

    # ------------------------------------------------------------------ long-lived designs whose vectors change after hashing
    # (red team: a lazily cached __hash__ is invisible while every object is hashed only after its vector got its final value;
    # the swarm algorithms update positions in place and clamp them onto the bounds, sync() and assignment replace the list)
    MU = stats["mutated"]

    def mutated_pool():
        n = rng.choice([1, 2, 2, 3, 4])
        objs = []
        for v in make_vectors(n, rng.choice([3, 4, 5])):
            objs.append(make_object(v, objs))
        MU["pools"] += 1
        hashed = set()
        for rnd in range(rng.choice([2, 3, 3])):
            MU["rounds"] += 1
            # every object is hashed, by one of the routes the package / a user takes
            route = rng.choice(["hash", "set", "dict", "truncate", "in_set"])
            if route == "hash":
                _ = [hash(x) for x in objs]
            elif route == "set":
                _ = set(objs)
            elif route == "dict":
                _ = {x: t for t, x in enumerate(objs)}
            elif route == "truncate":
                _ = nondominated_truncate(list(objs), len(objs))
            else:
                pool_set = set(objs)
                _ = [x in pool_set for x in objs]
            hashed.update(id(x) for x in objs)
            before = [fvec(x) for x in objs]
            touched = []
            for _mv in range(rng.choice([1, 2, 3])):
                kind = rng.choice(["clamp", "clamp", "copy_in_place", "perturb_in_place", "assign", "assign_alias", "sync", "swap", "split"])
                bump(MU["moves"], kind)
                ia, ib = rng.sample(range(len(objs)), 2)
                a, b = objs[ia], objs[ib]
                if kind == "clamp":                    # bound handling of the swarm algorithms: element by element, in place
                    lo, hi = rng.choice([(-0.5, 0.5), (0.0, 1.0), (-1.0, 1.0), (1.0, 1.0), (-2.0, 2.5)])
                    for t in rng.sample(range(len(objs)), rng.choice([2, 2, 3, len(objs)])):
                        x = objs[t]
                        for p_ in range(n):
                            if x.vector[p_] > hi:
                                x.vector[p_] = hi
                            if x.vector[p_] < lo:
                                x.vector[p_] = lo
                        touched.append(t)
                    MU["in_place_changes"] += 1
                elif kind == "copy_in_place":
                    for p_ in range(n):
                        a.vector[p_] = b.vector[p_]
                    touched.append(ia)
                    MU["in_place_changes"] += 1
                elif kind == "perturb_in_place":
                    p_ = rng.randrange(n)
                    a.vector[p_] = a.vector[p_] + rng.choice(DELTAS + [1.0, -1.0, 0.5])
                    touched.append(ia)
                    MU["in_place_changes"] += 1
                elif kind == "assign":
                    a.vector = rep(fvec(b))
                    touched.append(ia)
                    MU["reassignments"] += 1
                elif kind == "assign_alias":
                    a.vector = b.vector
                    touched.append(ia)
                    MU["reassignments"] += 1
                elif kind == "sync":
                    a.sync(b)
                    touched.append(ia)
                    MU["reassignments"] += 1
                elif kind == "swap":
                    a.vector, b.vector = b.vector, a.vector
                    touched += [ia, ib]
                    MU["reassignments"] += 2
                else:                                  # members of a group of identical designs move apart
                    twins_ = [t for t in range(len(objs)) if t != ia and bits_equal(fvec(objs[t]), fvec(a))]
                    for t in twins_:
                        x = objs[t]
                        if x.vector is a.vector:
                            x.vector = rep(fvec(x), "list")
                        x.vector[rng.randrange(n)] = rng.choice(BASE)
                        touched.append(t)
                    MU["in_place_changes"] += len(twins_)
            after = [fvec(x) for x in objs]
            changed = [t for t in range(len(objs)) if not bits_equal(before[t], after[t])]
            MU["objects_hashed_before_their_vector_changed"] += sum(1 for t in changed if id(objs[t]) in hashed)
            for p_ in range(len(objs)):
                for q_ in range(p_):
                    was, now = bits_equal(before[p_], before[q_]), bits_equal(after[p_], after[q_])
                    MU["pairs_distinct_then_identical"] += int(now and not was)
                    MU["pairs_identical_then_distinct"] += int(was and not now)
            # a fresh object with the coordinates a moved design has NOW (never hashed before)
            pairs = []
            for t in changed[:2]:
                if len(objs) < 8 and rng.random() < 0.7:
                    objs.append(decorate(rng.choice(CLASSES)(rep(after[t], rng.choice(["list", "list", "npf"])))))
                    pairs.append((t, len(objs) - 1))
                    MU["fresh_twins"] += 1
            # identical pairs (old/old and old/fresh) first, then random operations, all on the current vectors
            ident = [(p_, q_) for p_ in range(len(objs)) for q_ in range(p_) if bits_equal(fvec(objs[p_]), fvec(objs[q_]))]
            todo = []
            for (p_, q_) in (pairs + ident)[:2]:
                others = [t for t in range(len(objs)) if t not in (p_, q_)]
                extra_ = rng.sample(others, min(len(others), rng.choice([0, 1, 2])))
                sel_ = [p_, q_] + extra_
                rng.shuffle(sel_)
                todo.append(("eq", p_, [], q_))
                todo.append((rng.choice(["set", "truncate"]), p_, sel_, None))
                todo.append((rng.choice(["in", "remove", "archive_remove", "repeated"]), p_, [t for t in sel_ if t != p_], None))
            for _c in range(2):
                todo.append((None, None, None, None))
            for kind_, i_, sel_, j_ in todo:
                try:
                    pool_case(objs, "mutated after hashing", kind_, i_, sel_, j_)
                    MU["cases"] += 1
                except IndexError as e:
                    ctx.mismatches.append({"what": "IndexError in a pool operation on vectors of equal length: %r" % (e,)})

    for _ in range(n_mutated):
        mutated_pool()

    # ------------------------------------------------------------------ designs of another interpreter
    # A second interpreter (its own Individual.counter) creates designs and dumps them with to_dict();
    # they come back through Individual.from_dict with ids that local designs with other vectors carry.
    c0 = Individual.counter
    K = 24
    local_vecs = [[rng.choice(BASE) for _ in range(3)] for _ in range(K)]
    locals_ = [decorate(rng.choice(CLASSES)(list(v))) for v in local_vecs]
    foreign_vecs = []
    for t, v in enumerate(local_vecs):
        r = rng.random()
        w = list(v)
        if r < 0.25:
            pass
        elif r < 0.6:
            w[rng.randrange(3)] += rng.choice(DELTAS)
        else:
            w = [rng.choice(BASE) for _ in range(3)]
        foreign_vecs.append(w)
    code = ("import json, sys\n"
            "from artap.individual import Individual\n"
            "from artap.algorithm_NSGAII import IndividualNSGAII\n"
            "skip, vecs = json.loads(sys.stdin.read())\n"
            "skip -= Individual.counter\n"
            "for _ in range(skip): Individual([0.0])\n"
            "for k, v in enumerate(vecs):\n"
            "    x = (IndividualNSGAII if k % 2 else Individual)(v)\n"
            "    x.costs = [float(k)]\n"
            "    print('C20DUMP' + json.dumps(x.to_dict()))\n")
    foreign = []
    p = None
    try:
        p = subprocess.run([sys.executable, "-c", code], input=json.dumps([c0, foreign_vecs]), capture_output=True, text=True,
                           timeout=120, env=dict(os.environ))
        for line in p.stdout.splitlines():
            if line.startswith("C20DUMP"):
                foreign.append(Individual.from_dict(json.loads(line[7:])))
                foreign[-1].features.setdefault("front_number", len(foreign) % 3)
                foreign[-1].features.setdefault("crowding_distance", 0.5 * (len(foreign) % 4))
    except Exception as e:   # the second interpreter is an extra input source, its absence is reported, not hidden
        ctx.notes.append("second interpreter failed: %r" % (e,))
    stats["foreign_designs"] = len(foreign)
    stats["foreign_ids_shared_with_local"] = sum(1 for f in foreign for x in locals_ if f.id == x.id)
    if len(foreign) == K:
        for _ in range(n_foreign):
            picks = rng.sample(range(K), rng.choice([1, 2, 3]))
            objs = []
            for t in picks:
                objs += [locals_[t], foreign[t]]
            rng.shuffle(objs)
            pool_case(objs, "second interpreter")
    else:
        ctx.mismatches.append({"what": "the second interpreter produced %d of %d designs" % (len(foreign), K),
                               "stderr": (p.stderr[-1500:] if p is not None else "")})

    # ------------------------------------------------------------------ the real GeneticAlgorithm.generate
    class _P(Problem):
        def set(self, **kwargs):
            self.name = "c20"
            self.parameters = [{'name': 'x%d' % t, 'bounds': [-10.0, 10.0]} for t in range(4)]
            self.costs = [{'name': 'f', 'criteria': 'minimize'}]

        def evaluate(self, individual):
            return [0.0]

    algo = GeneticAlgorithm(_P())

    class Sel:
        def select(self, population):
            return population[rng.randrange(len(population))]

    def stream(n, length):
        """children with exact repeats, near-repeats, hash-colliding distinct vectors and fresh vectors"""
        palette = [[rng.choice(BASE) for _ in range(n)] for _ in range(rng.choice([1, 2, 3]))]
        out = []
        for _ in range(length):
            r = rng.random()
            src = rng.choice(out) if out and rng.random() < 0.7 else rng.choice(palette)
            v = list(src)
            if r < 0.25:
                pass
            elif r < 0.55:
                for pos in rng.sample(range(n), min(rng.choice([1, 1, 2, n]), n)):
                    v[pos] = v[pos] + rng.choice(DELTAS)
            elif r < 0.75:
                cand = [p for p in range(n) if v[p] in COLLIDE]
                if cand:
                    p = rng.choice(cand)
                    v[p] = COLLIDE[v[p]]
                else:
                    v[rng.randrange(n)] = rng.choice([-1.0, -2.0, 1.0, 2.0 ** 61])
            else:
                v = [rng.choice(BASE) for _ in range(n)]
            out.append(v)
        return out

    G = stats["generate"]

    def gen_case(N, n, script, mode, kinds, cls, with_archive, sample=False):
        produced = []                     # the vector objects handed to generate, in the order of creation
        planned = []                      # their values
        state = {"k": 0, "calls": 0}

        def next_vec():
            state["calls"] += 1
            if state["calls"] > 400:
                raise _Stop()
            if state["k"] < len(script):
                v = script[state["k"]]
            else:                          # fresh distinct tail: guarantees termination
                v = [1e4 + state["k"]] * n
            state["k"] += 1
            return v

        class Cross:
            def cross(self, p1, p2):
                if mode == "crossover":
                    return rep(next_vec(), rng.choice(kinds)), rep(next_vec(), rng.choice(kinds))
                return list(p1), list(p2)

        class Mut:
            def mutate(self, p, q=None):
                if mode == "mutator":
                    p = rep(next_vec(), rng.choice(kinds))
                produced.append(p)
                planned.append([float(c) for c in p])
                return p

        algo.options['max_population_size'] = N
        algo.selector, algo.crossover, algo.mutator = Sel(), Cross(), Mut()
        parents = [cls([0.0] * n), cls([1.0] * n), cls([2.0] * n)]
        archive = None
        if with_archive:
            archive = Archive()
            archive._contents = [cls([3.0] * n), cls([4.0] * n)]
        m = {"source": "generate", "N": N, "mode": mode, "class": cls.__name__}
        try:
            offs = algo.generate(parents, archive)
            err = None
        except _Stop:
            offs, err = [], "generate did not finish within 200 rounds of distinct children"
        except IndexError as e:
            offs, err = [], "IndexError %r" % (e,)
        m["children"] = planned
        npairs = len(planned) // 2
        # identify the survivors among the children: by object, else by value in stream order
        toks = []
        last = -1
        for o in offs:
            t = next((j for j, pv in enumerate(produced) if o.vector is pv), None)
            if t is None:
                ov = [float(c) for c in o.vector]
                t = next((j for j in range(last + 1, len(planned)) if bits_equal(planned[j], ov)), 99999)
            last = max(last, t)
            toks.append(t)
        m["offspring"] = toks
        m["offspring_vectors"] = [[float(c) for c in o.vector] for o in offs]
        pool_txt = ll([pl(pl(pl(nl(t), zl(0)), ll(v, fl)), zl(hash(tuple(v)))) for t, v in enumerate(planned)])
        op = "OpGenerate %s %s" % (nl(N), ll([(2 * t, 2 * t + 1) for t in range(npairs)], lambda ab: pl(nl(ab[0]), nl(ab[1]))))
        obs = "ObErr" if err else "ObG %s %s" % (ll(toks, nl), nl(0))
        if err:
            m["error"] = err
            fail("generate failed on children of equal length: " + err, m, {"kind": "generate_error"})
        else:
            # direct oracle: no distinct design discarded, no repeated design accepted
            kept = set(toks)
            for j in range(len(planned)):
                if j in kept:
                    continue
                if any(oracle_eq(planned[j], planned[t]) for t in toks if t < j):
                    near = not any(bits_equal(planned[j], planned[t]) for t in toks if t < j)
                    G["rejected_near_repeat" if near else "rejected_exact_repeat"] += 1
                    continue
                if j == len(planned) - 1 and len(offs) >= N:
                    G["capacity_cut"] += 1
                    continue
                fail("generate discarded child %d %r although it differs from every kept design in some coordinate by 1e-10 or more"
                     % (j, planned[j]), m, {"kind": "generate_discard", "children": planned, "N": N})
                break
            for a_ in range(len(toks)):
                for b_ in range(a_):
                    ta, tb = toks[a_], toks[b_]
                    if ta < len(planned) and tb < len(planned) and oracle_eq(planned[ta], planned[tb]):
                        fail("generate accepted child %d %r, a repeat of the earlier offspring %d %r" % (ta, planned[ta], tb, planned[tb]),
                             m, {"kind": "generate_repeat", "children": planned, "N": N})
            for a_ in range(len(toks)):
                for b_ in range(a_):
                    ta, tb = toks[a_], toks[b_]
                    if ta < len(planned) and tb < len(planned):
                        if hash(tuple(planned[ta])) == hash(tuple(planned[tb])):
                            G["kept_hash_colliding_distinct"] += 1
                        elif max(abs(x - y) for x, y in zip(planned[ta], planned[tb])) < 1e-8:
                            G["kept_near_but_distinct"] += 1
        G["cases"] += 1
        G["children"] += len(planned)
        bump(G["by_N"], N)
        bump(G["by_mode"], mode)
        bump(G["by_class"], cls.__name__)
        emit(pool_txt, op, obs, m, ("generate", N, tuple(tuple(v) for v in planned)), True)
        if sample:
            ctx.sample(m)

    # the streams of the red-team demonstration (hash(-1.0) == hash(-2.0)), then generated streams
    for script in ([[-1.0, 0.5], [3.0, 0.5], [-2.0, 0.5], [7.0, 0.5]], [[0.25, -2.0], [3.0, 0.5], [0.25, -1.0], [7.0, 0.5]],
                   [[4.0, 0.5], [3.0, 0.5], [4.0, 0.5], [7.0, 0.5]], [[1.0, 0.5], [1.0 + 1e-11, 0.5], [1.0, 0.5 + 1e-9], [2.0 ** 61, 0.5]]):
        for mode in ("crossover", "mutator"):
            gen_case(3, 2, script, mode, ["list"], Individual, False)
    for gi in range(n_gen):
        N = rng.choice([2, 2, 3, 3, 4, 5, 8])
        n = rng.choice([1, 2, 2, 3, 4])
        gen_case(N, n, stream(n, 2 * rng.choice([N // 2 + 1, N, N + 2])), rng.choice(["crossover", "mutator"]),
                 rng.choice([["list"], ["list"], ["list", "npf", "arr", "int"]]), rng.choice(CLASSES), rng.random() < 0.2, sample=gi < 2)

    stats["hash_collisions_available"] = sum(1 for a, b in COLLIDE.items() if hash(a) == hash(b))
    ctx.coq_compare("c20", HEADER, "c20_case", "c20_obs", "c20_run", "c20_obs_eqb", cases, expected, meta, shard=300)
    ctx.rule = ("(0) [stream `mutated`] pools of 3..8 long-lived designs: all hashed (hash / set / dict key / x in set / nondominated_truncate), then 1..3 vector "
                "changes (clamping onto bounds in place, element-wise copy, perturbation in place, assignment of a new / of another member's list, "
                "sync, swap, splitting identical designs), fresh twins with the current coordinates added, then ==, set/truncate, in/remove on "
                "the identical pairs and random operations; 2..3 rounds per pool. "
                "(1) pools of 2..7 designs of dimension 1..6 (copies, copies perturbed in 1..n coordinates by deltas %r, hash-colliding "
                "variants, unrelated vectors) built as Individual / IndividualNSGAII / IndividualEpsMOEA / IndividualSwarm through constructor, "
                ".copy(), copy.copy, copy.deepcopy, sync, to_dict->JSON->from_dict, from_dict with the id of another pool member, id assignment, "
                "with float / numpy / int coordinates and scrambled costs, state, population_id, features; operations ==, != (both directions), in, "
                "any(==), list.remove, Archive.remove, Selector.pop_acceptance, set(), nondominated_truncate; (2) the same operations on local "
                "designs mixed with designs of a second interpreter that carry the same ids; (3) GeneticAlgorithm.generate for N in 2..8 on scripted "
                "streams of children (exact repeats, near repeats, hash collisions, fresh); non-trivial = more than one object; distinct = distinct "
                "(operation, vectors, operands)") % (DELTAS,)
    ctx.extra.update(stats)
