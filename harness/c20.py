"""C20 - Individual equality / hashing and the container operations built on them."""
import math

from harness.core import fl, zl, nl, ll, pl

PROP = "C20"
THEOREMS = {"Artap.Props.C20": [
    "C20_eq_iff_all_close", "C20_eq_total", "C20_eq_detects_any_coordinate", "C20_eq_symmetric",
    "C20_identical_same_hash", "C20_mem_spec", "C20_item_eq_spec", "C20_generate_rejects_only_repeats",
    "C20_remove_hits_equal_only", "C20_remove_fails_iff_absent", "C20_set_dedupe_exact", "C20_merged_is_equal"]}
AXIOMS_OK = []
TRUSTED = [
    "Coq 8.16.1 kernel; vm_compute for model evaluation",
    "theorems are closed under the global context (abstract coordinate type, comparison, |a-b| and tolerance)",
    "binary64 instance used by the correspondence: abs(a-b) < 1e-10 with PrimFloat sub/abs/ltb (bit-identical to CPython)",
    "C20_eq_symmetric has the premise close a b = close b a; proved for exact integers (Example), assumed for binary64 (|a-b| = |b-a| in IEEE-754) and exercised on every generated pair",
    "hash(tuple(vector)) is an oracle function of the vector; Python's set probing is modelled as 'same hash and entry == element', iteration order compared as a sorted id set",
]
ASSUMPTIONS = ["no NaN coordinates; CPython list.__contains__/list.remove/set use identity-or-__eq__ with the container's item as left operand"]
LEVEL_TEXT = ("Coq theorems over a model of Individual.__eq__/__hash__ and of `in`, list.remove and set() as Python applies them: equality iff "
              "all coordinates within the tolerance, any single differing coordinate (whichever) makes points unequal, symmetry, identical vectors "
              "hash alike, membership/remove/set-dedupe hit only equal designs and never discard a distinct one - for all vector lengths and "
              "values. The model (binary64 instance) is compared exactly with the real Individual/Archive objects on generated pools each run.")
LEVEL_NOTE = ("Trusted: Coq kernel, the hand-written model, the harness; symmetry of |a-b| for binary64 is a stated premise (exercised, not proved); "
              "hash collisions between distinct tuples are outside the model (hash is an oracle).")

HEADER = "From Artap Require Import Run.C20Run.\nFrom Coq Require Import List ZArith Floats.\nImport ListNotations.\nOpen Scope float_scope.\n"

BASE = [0.0, 1.0, -1.0, 2.5, 1000.0, 1e-10, 1e-9, -3.75, 0.1, 1e6, 5e-11, -0.0]
DELTAS = [0.0, 0.0, 1e-11, -1e-11, 5e-11, 9.9e-11, 1e-10, 1.1e-10, 2e-10, 1e-9, -1e-9, 1.0, -1.0, 1e-3]


def close(a, b):
    return abs(a - b) < 1e-10


def oracle_eq(v, w):
    return all(close(a, b) for a, b in zip(v, w))


def run(ctx):
    from artap.individual import Individual
    from artap.archive import Archive
    rng = ctx.rng
    n_cases = ctx.pick(1500, 40000)
    cases, expected, meta = [], [], []
    stats = {"eq_true": 0, "eq_false": 0, "differs_only_in_one_coord": 0, "in": 0, "remove": 0, "set": 0, "repeated": 0,
             "diff_position_hist": {}}

    def make_pool():
        n = rng.choice([1, 1, 2, 3, 3, 4, 6])
        size = rng.choice([2, 3, 4, 5, 7])
        base = [rng.choice(BASE) for _ in range(n)]
        pool = [list(base)]
        for _ in range(size - 1):
            r = rng.random()
            src = rng.choice(pool)
            if r < 0.25:
                v = list(src)                               # identical vector, different object
            elif r < 0.75:
                v = list(src)
                k = rng.choice([1, 1, 1, 2, n])
                for pos in rng.sample(range(n), min(k, n)):
                    v[pos] = v[pos] + rng.choice(DELTAS)
            else:
                v = [rng.choice(BASE) for _ in range(n)]
            pool.append(v)
        inds = [Individual(v) for v in pool]
        if rng.random() < 0.3:                              # the same object twice (identity short-cut)
            inds.append(inds[rng.randrange(len(inds))])
        return inds

    def enc_pool(inds, ids):
        return ll([pl(pl(nl(ids[id(x)]), ll(x.vector, fl)), zl(hash(x))) for x in inds])

    for _ in range(n_cases):
        inds = make_pool()
        ids = {}
        for x in inds:
            ids.setdefault(id(x), len(ids))
        # pool entries are unique objects in id order
        uniq = []
        for x in inds:
            if ids[id(x)] == len(uniq):
                uniq.append(x)
        pool_txt = enc_pool(uniq, ids)
        k = len(uniq)
        kind = rng.choice(["eq", "eq", "eq", "in", "remove", "set", "repeated", "archive_remove"])
        i = rng.randrange(k)
        sel = [rng.randrange(k) for _ in range(rng.choice([0, 1, 2, 3, 5]))]
        m = {"pool": [x.vector for x in uniq], "op": kind, "i": i, "sel": sel}
        try:
            if kind == "eq":
                j = rng.randrange(k)
                m["j"] = j
                a, b = uniq[i], uniq[j]
                r = (a == b)
                r2 = (b == a)
                want = oracle_eq(a.vector, b.vector)
                op = "OpEq %s %s" % (nl(i), nl(j))
                obs = "ObB %s" % ("true" if r else "false")
                stats["eq_true" if r else "eq_false"] += 1
                diffpos = [p for p in range(len(a.vector)) if not close(a.vector[p], b.vector[p])]
                if len(diffpos) == 1:
                    stats["differs_only_in_one_coord"] += 1
                    stats["diff_position_hist"][diffpos[0]] = stats["diff_position_hist"].get(diffpos[0], 0) + 1
                if bool(r) != want:
                    ctx.oracle_failures.append({"what": "a == b is %s but coordinates %s within 1e-10" % (r, "all" if want else "not all"),
                                                "input": {"v": a.vector, "w": b.vector}, "match": {"kind": "eq_pair", "v": a.vector, "w": b.vector}})
                if bool(r) != bool(r2):
                    ctx.oracle_failures.append({"what": "equality is not symmetric", "input": {"v": a.vector, "w": b.vector},
                                                "match": {"kind": "eq_sym", "v": a.vector, "w": b.vector}})
                if a.vector == b.vector and all(math.copysign(1, p) == math.copysign(1, q) for p, q in zip(a.vector, b.vector)) and hash(a) != hash(b):
                    ctx.oracle_failures.append({"what": "identical vectors hash differently", "input": {"v": a.vector},
                                                "match": {"kind": "hash", "v": a.vector}})
            elif kind in ("in", "repeated"):
                lst = [uniq[s] for s in sel]
                if kind == "in":
                    r = uniq[i] in lst
                    op = "OpIn %s %s" % (nl(i), ll(sel, nl))
                else:
                    r = any(uniq[i] == o for o in lst)
                    op = "OpRepeated %s %s" % (nl(i), ll(sel, nl))
                obs = "ObB %s" % ("true" if r else "false")
                stats[kind] += 1
                want = any(o is uniq[i] or oracle_eq(o.vector, uniq[i].vector) for o in lst)
                if bool(r) != want:
                    ctx.oracle_failures.append({"what": "membership test %s but an equal design %s" % (r, "exists" if want else "does not exist"),
                                                "input": m, "match": {"kind": "mem", "pool": m["pool"], "i": i, "sel": sel}})
            elif kind in ("remove", "archive_remove"):
                lst = [uniq[s] for s in sel]
                if kind == "remove":
                    try:
                        lst.remove(uniq[i])
                        ok = True
                    except ValueError:
                        ok = False
                else:
                    ar = Archive()
                    ar._contents = lst
                    ok = ar.remove(uniq[i])
                    lst = ar._contents
                op = "OpRemove %s %s" % (nl(i), ll(sel, nl))
                obs = ("ObL %s" % ll([ids[id(x)] for x in lst], nl)) if ok else "ObErr"
                stats["remove"] += 1
                first = next((p for p, s in enumerate(sel) if uniq[s] is uniq[i] or oracle_eq(uniq[s].vector, uniq[i].vector)), None)
                want = None if first is None else [s for p, s in enumerate(sel) if p != first]
                got = [ids[id(x)] for x in lst] if ok else None
                if got != want:
                    ctx.oracle_failures.append({"what": "remove took out %r, the first equal design gives %r" % (got, want),
                                                "input": m, "match": {"kind": "remove", "pool": m["pool"], "i": i, "sel": sel}})
            else:
                lst = [uniq[s] for s in sel]
                res = set(lst)
                got = sorted(ids[id(x)] for x in res)
                op = "OpSet %s" % ll(sel, nl)
                obs = "ObL %s" % ll(got, nl)
                stats["set"] += 1
                # never discard a distinct design; never keep two identical ones
                for s in sel:
                    if not any(uniq[g] is uniq[s] or oracle_eq(uniq[g].vector, uniq[s].vector) for g in got):
                        ctx.oracle_failures.append({"what": "set() discarded a design that differs from every survivor", "input": m,
                                                    "match": {"kind": "set_drop", "pool": m["pool"], "sel": sel}})
                        break
                for a in got:
                    for b in got:
                        if a < b and uniq[a].vector == uniq[b].vector and hash(uniq[a]) == hash(uniq[b]):
                            ctx.oracle_failures.append({"what": "set() kept two identical designs", "input": m,
                                                        "match": {"kind": "set_dup", "pool": m["pool"], "sel": sel}})
        except IndexError:
            obs = "ObErr"
        cases.append("{| c20_pool := %s; c20_op_ := %s |}" % (pool_txt, op))
        expected.append(obs)
        m["observed"] = obs
        meta.append(m)
        ctx.count((kind, tuple(tuple(x.vector) for x in uniq), i, tuple(sel), m.get("j")), nontrivial=(k > 1))
        if kind in ("eq", "set"):
            ctx.sample(m)

    ctx.coq_compare("c20", HEADER, "c20_case", "c20_obs", "c20_run", "c20_obs_eqb", cases, expected, meta, shard=400)
    ctx.rule = ("pools of 2..8 Individuals of dimension 1..6: copies, copies perturbed in 1..n coordinates by deltas %r, unrelated vectors, "
                "the same object twice; operations ==, in, any(==), list.remove, Archive.remove, set(); non-trivial = pool has >1 distinct "
                "objects; distinct = distinct (operation, pool vectors, operands)") % (DELTAS,)
    ctx.extra.update(stats)
