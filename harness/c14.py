"""C14 - worst-case and gradient evaluators: correspondence with Model/Evaluators.v and direct oracle.

Every case is a whole evaluator life: a fresh Problem + Algorithm(evaluator_type=WORST_CASE|GRADIENT) and a
sequence of batches pushed through the public `Algorithm.evaluate` (direct cases), or a short EpsMOEA /
NSGAII run whose `evaluator.evaluate` calls are recorded (the generations are the batches).  Observed on
the implementation: every Individual reachable from the submitted designs (vector, costs, costs_signed,
state, parents, children, features['sensitivity'|'gradient']), the objective's call log, the designs each
`run()` call post-processes, the lengths of the evaluator's two work lists at the end.  The model is given
the batches (vectors at submission), the tolerances, the declared number of objectives and the objective /
sign conversion as a recorded table, and must reproduce all of it bit for bit.
"""
import hashlib
import math
import struct

from harness.core import fl, nl, bl, ll, pl, optl, FLOAT_AXIOMS

PROP = "C14"
THEOREMS = {"Artap.Props.C14": [
    "C14_worstcase_children", "C14_displaced_one_axis", "C14_worstcase_cost_shape", "C14_worstcase_processing_and_calls",
    "C14_gradient_with_resubmission", "C14_worstcase_cost_shape_fresh_batches", "C14_worstcase_no_reprocessing",
    "C14_worstcase_call_budget", "C14_gradient_forward_difference", "C14_gradient_budget",
    "C14_gradient_no_reprocessing"]}
AXIOMS_OK = []
TRUSTED = [
    "Coq 8.16.1 kernel, vm_compute for model evaluation (no native_compute)",
    "hand-written model Model/Evaluators.v (heap of Individual objects + the two work lists) tied to operators.py "
    "Evaluator / WorstCaseEvaluator / GradientEvaluator by this correspondence run",
    "the arithmetic and Python's builtin sum() are abstract under the theorems (Section variables add/sub/mul/div/abs/psum); the "
    "correspondence runs the PrimFloat instance (binary64, round-to-nearest-even) with sum() as CPython 3.12 implements it "
    "(Neumaier compensation on exact floats, plain left fold on numpy.float64 / int items) and compares bit for bit",
    "the step delta is a Section variable under the theorems; the run driver and the direct oracle use 1e-4",
    "Job.evaluate is abstracted to: costs := f(vector), costs_signed := sgn(costs) ++ [flag], state := EVALUATED; "
    "f, sgn (sign * np.round(cost, 7)) and the flag are recorded on the implementation and given to the model as a table "
    "(retry loop, constraints, data store: properties C05/C06)",
    "ghost logs (objective call log, designs post-processed per run() call) are observed by harness-side wrappers of "
    "Problem.evaluate and of the evaluator instance's run()",
]
ASSUMPTIONS = [
    "serial evaluation (options['max_processes'] = 1); the parallel path is property C07",
    "C14_worstcase_cost_shape / _processing_and_calls / C14_gradient_with_resubmission cover batches that contain fresh designs, designs "
    "already evaluated by a plain Evaluator and designs submitted again (any number of times, in any order within the batch); within one "
    "batch the submitted objects are pairwise distinct and are designs, not children created by the evaluator; the remaining theorems "
    "(children, no_reprocessing, call budgets, forward difference) are stated for batches of fresh designs",
    "the objective is a function of the vector, returns a fresh list of exactly len(problem.costs) numbers and does not raise",
    "all designs have len(problem.parameters) coordinates and every parameter has a 'tol' entry (worst case); tolerances are floats "
    "(or non-zero ints: an int tolerance 0 gives -1 * 0 = 0 instead of -0.0, which is visible only on a coordinate that is -0.0)",
    "gradient evaluator: batches are non-empty (an empty batch raises IndexError in run(); modelled, not covered by the theorems)",
    "the sum in the extra objective and the finite difference use the FIRST user objective only (costs[0]), as the code does",
]

HEADER = ("From Artap Require Import Run.C14Run.\nFrom Coq Require Import List ZArith Floats.\nImport ListNotations.\n"
          "Open Scope float_scope.\n")

VGRID = [0.0, 0.25, 0.5, 0.75, 1.0, -0.5, 0.1, 0.2, 0.30000000000000004, 1.5, -0.0, 2.0, 1e-3, 0.9999, 3.0, -1.25,
         -1.0, -2.0, 0.50000000001]      # hash(-1.0) == hash(-2.0); 0.5 and 0.5+1e-11 are `==` for Individual.__eq__
TOLS = [0.25, 0.5, 0.1, 1e-3, 0.0, 1.0, 1e-9, 0.05, 2.0 ** -30, 0.75, 1e-4]
COEF = [1.0, -1.0, 0.5, 2.0, 0.0, 3.0, -0.25, 0.1, 1e3, 1e-3, 7.0]
FAMILIES = ["quad", "quad", "lin", "lin", "abs", "sin", "const", "step", "hash", "intstep", "prod", "huge"]
DELTA = 1e-4


def bits(x):
    return struct.pack("<d", float(x))


def make_objective(spec):
    """spec: {'kind', 'a': [...], 'b': float}.  A deterministic function of the vector."""
    kind, a, b = spec["kind"], spec["a"], spec["b"]

    def g(v):
        n = len(v)
        if kind == "quad":
            s = b
            for i in range(n):
                s = s + a[i % len(a)] * v[i] * v[i]
            return s
        if kind == "lin":
            s = b
            for i in range(n):
                s = s + a[i % len(a)] * v[i]
            return s
        if kind == "abs":
            s = 0.0
            for i in range(n):
                s = s + abs(v[i] - a[i % len(a)])
            return s
        if kind == "sin":
            s = 0.0
            for i in range(n):
                s = s + a[i % len(a)] * v[i]
            return math.sin(s) + b
        if kind == "const":
            return b
        if kind == "step":
            s = 0.0
            for i in range(n):
                s = s + v[i]
            return float(math.floor(4.0 * s)) + b
        if kind == "intstep":
            s = 0.0
            for i in range(n):
                s = s + v[i]
            return int(math.floor(4.0 * s))
        if kind == "prod":
            s = 1.0
            for i in range(n):
                s = s * (v[i] + a[i % len(a)])
            return s
        if kind == "huge":
            s = b
            for i in range(n):
                s = s + a[i % len(a)] * v[i]
            return 1e308 * s
        if kind == "hash":
            h = hashlib.sha1(b"".join(bits(x) for x in v) + bits(b)).digest()
            return [0.0, 1.0, 2.0, -3.0, 0.5, 7.25, 1e-7, 123456.789][h[0] % 8] + (h[1] % 4) * 0.25
        raise ValueError(kind)
    return g


def gen_case(rng, forced=None):
    forced = forced or {}
    wc = forced.get("wc", rng.random() < 0.6)
    n = forced.get("n", rng.choice([1, 2, 2, 3, 3]))
    m = forced.get("m", rng.choice([1, 1, 2]))
    nb = forced.get("nb", rng.choice([1, 2, 2, 3, 3, 4]) if rng.random() < 0.93 else rng.choice([5, 6, 8]))
    grid = VGRID[:6] if rng.random() < 0.4 else VGRID
    pool = [[rng.choice(grid) for _ in range(n)] for _ in range(3)]
    batches = []
    for _ in range(nb):
        k = rng.choice([1, 2, 2, 3, 4])
        batches.append([list(rng.choice(pool)) if rng.random() < 0.3 else [rng.choice(grid) for _ in range(n)] for _ in range(k)])
    if "batches" in forced:
        batches = forced["batches"]
    tols = forced.get("tols", [rng.choice(TOLS) for _ in range(n)])
    fams = FAMILIES if rng.random() < 0.93 else ["huge", "const", "hash"]
    objs = forced.get("objs", [{"kind": rng.choice(fams), "a": [rng.choice(COEF) for _ in range(n)], "b": rng.choice(COEF)}
                               for _ in range(m)])
    again = [[] for _ in batches]
    if forced.get("again") is not None:
        again = forced["again"]
    elif "batches" not in forced and rng.random() < 0.12:
        created = 0
        for bi, b in enumerate(batches):
            if created and rng.random() < 0.7:
                again[bi] = sorted(rng.sample(range(created), rng.choice([1, 1, 2]) if created > 1 else 1))
            created += len(b)
    pre = [[False] * len(b) for b in batches]
    if forced.get("pre") is not None:
        pre = forced["pre"]
    elif "batches" not in forced and rng.random() < 0.1:
        pre = [[rng.random() < 0.5 for _ in b] for b in batches]
    flags = {"vec_numpy": rng.random() < 0.1, "reuse_list": rng.random() < 0.25, "shared_param": rng.random() < 0.3,
             "constr": rng.random() < 0.15, "id_collide": rng.random() < 0.15}
    flags.update(forced.get("flags", {}))
    return {"mode": "direct", "wc": wc, "n": n, "m": m, "tols": tols, "objs": objs, "again": again, "pre": pre, "flags": flags,
            "criteria": forced.get("criteria", [rng.choice(["minimize", "maximize"]) for _ in range(m)]),
            "ret_numpy": forced.get("ret_numpy", rng.random() < 0.2), "int_tol": rng.random() < 0.05,
            "batches": batches}


def gen_algo_case(rng):
    n = rng.choice([1, 2, 3])
    m = rng.choice([1, 2, 2])
    return {"mode": rng.choice(["EpsMOEA", "NSGAII"]), "wc": rng.random() < 0.5, "n": n, "m": m,
            "tols": [rng.choice([0.25, 0.1, 1e-3, 0.05]) for _ in range(n)],
            "objs": [{"kind": rng.choice(["quad", "lin", "abs", "sin", "prod"]), "a": [rng.choice(COEF[:8]) for _ in range(n)],
                      "b": rng.choice(COEF[:8])} for _ in range(m)],
            "criteria": [rng.choice(["minimize", "maximize"]) for _ in range(m)], "ret_numpy": False, "int_tol": False,
            "pop": rng.choice([2, 3, 4, 6]), "gens": rng.choice([2, 3, 4, 5]), "seed": rng.randrange(10 ** 6), "batches": None,
            "again": None, "pre": None,
            "flags": {"vec_numpy": False, "reuse_list": False, "shared_param": rng.random() < 0.3, "constr": rng.random() < 0.3,
                      "id_collide": False}}


def close(a, b):
    """equality up to rounding (the oracle is as strong as the property text, not bit-exact)"""
    a, b = float(a), float(b)
    if math.isnan(a) or math.isnan(b):
        return math.isnan(a) and math.isnan(b)
    if math.isinf(a) or math.isinf(b):
        return a == b
    return abs(a - b) <= 1e-9 * max(1.0, abs(a), abs(b))


def run(ctx):
    import logging
    import random as pyrandom
    import numpy as np
    from artap.problem import Problem
    from artap.individual import Individual
    from artap.algorithm import Algorithm, EvaluatorType
    from artap.algorithm_genetic import EpsMOEA
    from artap.algorithm_NSGAII import NSGAII
    logging.disable(logging.CRITICAL)

    signed_rec = []          # (vector, costs, costs_signed) right after Individual.calc_signed_costs
    orig_calc = Individual.calc_signed_costs

    def calc_rec(self, p_signs):
        orig_calc(self, p_signs)
        signed_rec.append((list(self.vector), list(self.costs), list(self.costs_signed)))
    Individual.calc_signed_costs = calc_rec

    class Prob(Problem):
        def set(self, **kwargs):
            case = kwargs["case"]
            self.name = "c14"
            self.parameters = [{'name': 'x%d' % i, 'initial_value': 0.5, 'bounds': [-2.0, 3.0],
                                'tol': (int(t) if case["int_tol"] and float(t) == int(t) and t != 0 else t)}
                               for i, t in enumerate(case["tols"])]
            if case["flags"]["shared_param"] and len(set(case["tols"])) == 1:
                self.parameters = [self.parameters[0]] * len(case["tols"])      # one dict object for every axis
            self.constr = case["flags"]["constr"]
            self.costs = [{'name': 'F%d' % k, 'criteria': c} for k, c in enumerate(case["criteria"])]
            self.fns = [make_objective(s) for s in case["objs"]]
            self.ret_numpy = case["ret_numpy"]
            self.calls = []          # (Individual object, vector at the call, returned costs)

        def evaluate_inequality_constraints(self, x):
            return [x[0] - 0.3] if self.constr else []

        def evaluate(self, individual):
            v = list(individual.vector)
            c = [g(v) for g in self.fns]
            if self.ret_numpy:
                c = [np.float64(x) for x in c]
            self.calls.append((individual, v, list(c)))
            return c

    class Direct(Algorithm):
        def run(self):
            pass

    def fail(what, case, kind, **kw):
        if len(ctx.oracle_failures) < 40:
            inp = {k: case.get(k) for k in ("mode", "wc", "n", "m", "tols", "objs", "criteria", "batches", "again", "pre")}
            inp.update(kw)
            ctx.oracle_failures.append({"what": what, "input": inp, "match": {"kind": kind}})

    def num(x):
        try:
            return float(x)
        except (TypeError, ValueError):
            return float("nan")         # None / malformed entry: cannot be produced by the model at this position

    def oracle_wc(case, problem, submitted, upto, n, m):
        """clauses of the property on every design submitted so far (batches 0..upto)"""
        tols = case["tols"]
        ncalls = {}
        for (ind, v, c) in problem.calls:
            ncalls[id(ind)] = ncalls.get(id(ind), 0) + 1
        ret = {id(ind): c for (ind, v, c) in problem.calls}
        subs = {}
        for bi, batch in enumerate(submitted[:upto + 1]):
            for di, (x, v0) in enumerate(batch):
                subs.setdefault(id(x), []).append(bi)
        done_once = set()
        for bi, batch in enumerate(submitted[:upto + 1]):
            for di, (x, v0) in enumerate(batch):
                if id(x) in done_once:
                    continue
                done_once.add(id(x))
                where = {"batch": bi, "design": di, "vector": v0, "after_batch": upto, "submitted_in_batches": subs[id(x)]}
                if len(x.costs) != m + 1:
                    if len(subs[id(x)]) > 1:
                        fail("design submitted in batches %r has %d cost entries after batch %d (required %d: %d user objectives + 1, "
                             "however often it is evaluated again)" % (subs[id(x)], len(x.costs), upto, m + 1, m),
                             case, "worstcase_resubmission", costs=[num(c) for c in x.costs], **where)
                    elif bi < upto and len(x.costs) > m + 1:
                        fail("design of batch %d has %d cost entries after batch %d was evaluated (required %d: %d user objectives + 1)"
                             % (bi, len(x.costs), upto, m + 1, m), case, "worstcase_reprocess", costs=[num(c) for c in x.costs], **where)
                    else:
                        fail("evaluated design has %d cost entries (required %d user objectives + 1)" % (len(x.costs), m),
                             case, "worstcase_cost_length", costs=[num(c) for c in x.costs], **where)
                    continue
                if ncalls.get(id(x), 0) != 1:
                    fail("design evaluated %d times (required once)" % ncalls.get(id(x), 0), case, "worstcase_calls", **where)
                    continue
                if [num(c) for c in x.costs[:m]] != [num(c) for c in ret[id(x)]] and not any(math.isnan(num(c)) for c in ret[id(x)]):
                    fail("user objectives in costs differ from what the objective returned", case, "worstcase_user_costs", **where)
                if len(x.children) != 2 * n:
                    fail("%d neighbour designs (required 2n = %d)" % (len(x.children), 2 * n), case, "worstcase_children_count", **where)
                    continue
                ok = True
                # 2n neighbours: on every axis one displaced by -tolerance and one by +tolerance (as a multiset: the
                # property does not fix their order)
                want = []
                for i in range(n):
                    for disp in (v0[i] - tols[i], v0[i] + tols[i]):
                        w = list(v0)
                        w[i] = disp
                        want.append(tuple(0.0 + t for t in w))
                got = [tuple(0.0 + float(t) for t in ch.vector) for ch in x.children]
                if sorted(got) != sorted(want):
                    fail("neighbours %r, required one design displaced by -tolerance and one by +tolerance on every axis: %r"
                         % ([list(g) for g in got], [list(w) for w in want]), case, "worstcase_displacement", **where)
                    ok = False
                for k, ch in enumerate(x.children):
                    if len(ch.parents) != 1 or ch.parents[0] is not x:
                        fail("neighbour %d is not linked to its design through parents" % k, case, "worstcase_parent_link", **where)
                        ok = False
                    if ncalls.get(id(ch), 0) != 1:
                        fail("neighbour %d evaluated %d times (required once)" % (k, ncalls.get(id(ch), 0)), case, "worstcase_calls", **where)
                        ok = False
                if not ok:
                    continue
                s = 0
                for ch in x.children:
                    s = s + abs(x.costs[0] - ret[id(ch)][0])
                if not close(x.costs[-1], s):
                    fail("extra objective %r, sum of |f(x) - f(neighbour)| recomputed from the recorded neighbours %r" % (num(x.costs[-1]), num(s)),
                         case, "worstcase_sum", **where)
                if 'sensitivity' not in x.features or not close(x.features['sensitivity'], s):
                    fail("features['sensitivity'] %r, recomputed sum %r" % (x.features.get('sensitivity'), num(s)), case, "worstcase_feature", **where)
                sc = x.costs_signed
                if len(sc) != m + 2 or isinstance(sc[-2], (bool, np.bool_)) or not close(sc[-2], x.costs[-1]) or not isinstance(sc[-1], (bool, np.bool_)):
                    fail("costs_signed %r: required %d signed user objectives, the extra objective, the feasibility flag" % (sc, m),
                         case, "worstcase_signed_shape", **where)
        total = sum(len(b) for b in submitted[:upto + 1])
        if len(problem.calls) != len(done_once) + 2 * n * total:
            fail("%d objective calls for %d designs and %d submissions (required 1 per design + 2n per submission = %d)"
                 % (len(problem.calls), len(done_once), total, len(done_once) + 2 * n * total), case, "worstcase_budget", after_batch=upto)

    def oracle_grad(case, problem, submitted, upto, n, m):
        by_vec = {}
        for (ind, v, c) in problem.calls:
            by_vec[tuple(bits(t) for t in v)] = c
        ncalls = {}
        for (ind, v, c) in problem.calls:
            ncalls[id(ind)] = ncalls.get(id(ind), 0) + 1
        done_once = set()
        for bi, batch in enumerate(submitted[:upto + 1]):
            for di, (x, v0) in enumerate(batch):
                if id(x) in done_once:
                    continue
                done_once.add(id(x))
                where = {"batch": bi, "design": di, "vector": v0, "after_batch": upto}
                g = x.features.get('gradient')
                if g is None or len(g) != n:
                    fail("no gradient of length n stored in features['gradient']", case, "gradient_missing", **where)
                    continue
                if ncalls.get(id(x), 0) != 1 or len(x.costs) != m:
                    fail("design evaluated %d times, %d cost entries (required 1 and %d)" % (ncalls.get(id(x), 0), len(x.costs), m),
                         case, "gradient_design_eval", **where)
                    continue
                fx = by_vec[tuple(bits(t) for t in v0)][0]
                for i in range(n):
                    w = list(v0)
                    w[i] = v0[i] + DELTA
                    key = tuple(bits(t) for t in w)
                    if key not in by_vec:
                        fail("objective never evaluated at x + 1e-4 e_%d = %r" % (i, w), case, "gradient_step", **where)
                        continue
                    want = (by_vec[key][0] - fx) / DELTA
                    if not close(g[i], want):
                        fail("gradient[%d] = %r, forward difference (f(x + 1e-4 e_i) - f(x)) / 1e-4 of the first objective = %r" % (i, float(g[i]), float(want)),
                             case, "gradient_value", **where)
        total = sum(len(b) for b in submitted[:upto + 1])
        if len(problem.calls) != len(done_once) + n * total:
            fail("%d objective calls for %d designs and %d submissions (required 1 per design + n per submission = %d)"
                 % (len(problem.calls), len(done_once), total, len(done_once) + n * total), case, "gradient_budget", after_batch=upto)

    def oracle_proc(case, proc, submitted):
        seen = {}
        for r, lst in enumerate(proc):
            for o in lst:
                seen.setdefault(id(o), []).append(r)
        subs = {}
        for bi, batch in enumerate(submitted):
            for (x, v0) in batch:
                subs.setdefault(id(x), []).append(bi)
        for bi, batch in enumerate(submitted):
            for di, (x, v0) in enumerate(batch):
                if seen.get(id(x), []) != subs[id(x)]:
                    fail("design submitted in batches %r post-processed by run() call(s) %r (required: exactly in the batches it is submitted in)"
                         % (subs[id(x)], seen.get(id(x), [])),
                         case, "worstcase_reprocess" if case["wc"] else "gradient_reprocess", batch=bi, design=di, vector=v0)
                    return

    def implementation(case):
        n, m = case["n"], case["m"]
        del signed_rec[:]
        problem = Prob(case=case)
        et = EvaluatorType.WORST_CASE if case["wc"] else EvaluatorType.GRADIENT
        submitted, proc = [], []
        raised = None
        if case["mode"] == "direct":
            alg = Direct(problem, evaluator_type=et)
        else:
            alg = (EpsMOEA if case["mode"] == "EpsMOEA" else NSGAII)(problem, evaluator_type=et)
            alg.options['max_population_number'] = case["gens"]
            alg.options['max_population_size'] = case["pop"]
            alg.options['verbose_level'] = 0
        ev = alg.evaluator
        orig_run = ev.run

        def run_rec():
            proc.append(list(ev.individuals))
            orig_run()
        ev.run = run_rec
        oracle = oracle_wc if case["wc"] else oracle_grad
        # cells in the order the model creates them: the designs of a batch when the algorithm creates them, the
        # children when add() creates them (numbered right after each evaluate call: a design that is submitted again
        # drops its earlier children, which stay in the heap)
        number, order, idss = {}, [], []

        def number_new(objs):
            for x in objs:
                if id(x) not in number:
                    number[id(x)] = len(order)
                    order.append(x)

        def after_batch(before, inds):
            for x in before:
                number_new(x.children)
            idss.append([number.get(id(x), 999999) for x in inds])     # the caller's list after the call: must be unchanged
        import copy
        params0 = copy.deepcopy(problem.parameters)
        params_changed = []

        def check_params(bi):
            if problem.parameters != params0 and not params_changed:
                params_changed.append(bi)
                ctx.mismatches.append({"what": "the evaluator modified problem.parameters (the model's tolerances are constants)",
                                       "correspondence": "c14", "case": {k: case.get(k) for k in ("mode", "wc", "n", "m", "tols", "batches")},
                                       "batch": bi, "before": params0, "after": copy.deepcopy(problem.parameters)})
        if case["mode"] == "direct":
            created = []
            resubmits = any(case["again"])
            plain = Direct(problem, evaluator_type=EvaluatorType.SIMPLE) if any(any(p) for p in case["pre"]) else None
            shared = []
            for bi, batch in enumerate(case["batches"]):
                if case["flags"]["id_collide"]:
                    Individual.counter = 0           # ids collide between batches and with earlier children
                new = [Individual(np.array(v, dtype=np.float64) if case["flags"]["vec_numpy"] else list(v)) for v in batch]
                number_new(new)
                if plain is not None:
                    todo = [x for x, flag in zip(new, case["pre"][bi]) if flag]
                    if todo:
                        plain.evaluate(todo)         # evaluated elsewhere first: state EVALUATED, m costs, never post-processed
                inds = shared if case["flags"]["reuse_list"] else []
                del inds[:]                          # the same list object, refilled in place, for every call
                inds.extend(new + [created[k] for k in case["again"][bi]])
                before = list(inds)
                created.extend(new)
                submitted.append([(x, [float(t) for t in x.vector]) for x in before])
                try:
                    alg.evaluate(inds)
                except IndexError as e:
                    raised = "IndexError"
                    break
                after_batch(before, inds)
                check_params(bi)
                oracle(case, problem, submitted, bi, n, m)
        else:
            resubmits = False
            orig_eval = ev.evaluate
            resub = []

            def eval_rec(inds):
                for x in inds:
                    if x.state != Individual.State.EMPTY:
                        resub.append(x)
                before = list(inds)
                number_new(before)
                submitted.append([(x, [float(t) for t in x.vector]) for x in before])
                orig_eval(inds)
                after_batch(before, inds)
                check_params(len(submitted) - 1)
                oracle(case, problem, submitted, len(submitted) - 1, n, m)
            ev.evaluate = eval_rec
            pyrandom.seed(case["seed"])
            np.random.seed(case["seed"] % (2 ** 32))
            alg.run()
            if resub:
                raise AssertionError("the algorithm submitted an already evaluated Individual: outside the model")
            case["batches"] = [[v for (_, v) in b] for b in submitted]
            case["again"] = [[] for _ in submitted]
            case["pre"] = [[False] * len(b) for b in submitted]
        if raised is None:
            oracle_proc(case, proc, submitted)
            if len(ev.individuals) != 0 or len(ev.to_evaluate) != 0:
                fail("work lists not empty between batches: %d individuals, %d to_evaluate" % (len(ev.individuals), len(ev.to_evaluate)),
                     case, "worstcase_reprocess" if case["wc"] else "gradient_reprocess")
        UNKNOWN = 999999

        def cell(x):
            g = x.features.get('gradient')
            s = x.features.get('sensitivity')
            return {"vec": [num(t) for t in x.vector], "costs": [num(t) for t in x.costs],
                    "signed": [bool(t) if isinstance(t, (bool, np.bool_)) else num(t) for t in x.costs_signed],
                    "evaluated": x.state == Individual.State.EVALUATED,
                    "parents": [number.get(id(p), UNKNOWN) for p in x.parents],
                    "children": [number.get(id(c), UNKNOWN) for c in x.children],
                    "sens": None if s is None else num(s), "grad": None if g is None else [num(t) for t in g]}
        table, seen = [], set()
        for (v, c, sc) in signed_rec:
            key = tuple(bits(t) for t in v)
            if key in seen:
                continue
            seen.add(key)
            table.append(([num(t) for t in v], [num(t) for t in c], [num(t) for t in sc[:-1]], bool(sc[-1])))
        kinds0 = set(type(c[0]) is float for (_, _, c) in problem.calls)
        if len(kinds0) > 1:
            raise AssertionError("first objective returns exact floats for some vectors and other numbers for others")
        case["comp"] = kinds0 == {True}
        obs = None if raised else {
            "cells": [cell(x) for x in order], "log": [[num(t) for t in v] for (_, v, _) in problem.calls],
            "proc": [[number.get(id(o), UNKNOWN) for o in lst] for lst in proc],
            "n_inds": len(ev.individuals), "n_todo": len(ev.to_evaluate), "idss": idss}
        problem.cleanup()
        problem.working_dir = ""
        return obs, table

    def enc_vec(v):
        return ll(v, fl)

    def enc_sv(t):
        return "(SB %s)" % bl(t) if isinstance(t, bool) else "(SV %s)" % fl(t)

    def enc_cell(c):
        return pl(enc_vec(c["vec"]), enc_vec(c["costs"]), ll(c["signed"], enc_sv), bl(c["evaluated"]), ll(c["parents"], nl),
                  ll(c["children"], nl), optl(c["sens"], fl), optl(c["grad"], enc_vec))

    def encode(case, obs, table):
        c = "{| c_wc := %s; c_comp := %s; c_m := %s; c_tols := %s; c_table := %s; c_batches := %s; c_again := %s; c_pre := %s |}" % (
            bl(case["wc"]), bl(case["comp"]), nl(case["m"]), enc_vec(case["tols"]),
            ll(table, lambda t: pl(enc_vec(t[0]), enc_vec(t[1]), enc_vec(t[2]), bl(t[3]))),
            ll(case["batches"], lambda b: ll(b, enc_vec)), ll(case["again"], lambda l: ll(l, nl)),
            ll(case["pre"], lambda l: ll(l, bl)))
        if obs is None:
            return c, "None"
        e = "(Some %s)" % pl(ll(obs["cells"], enc_cell), ll(obs["log"], enc_vec), ll(obs["proc"], lambda l: ll(l, nl)),
                              nl(obs["n_inds"]), nl(obs["n_todo"]), ll(obs["idss"], lambda l: ll(l, nl)))
        return c, e

    cases, expected, meta = [], [], []
    hist = {"worst_case": 0, "gradient": 0, "batches": {}, "designs_per_case": {}, "n": {}, "m": {}, "objective_kinds": {},
            "algorithm_runs": {}, "objective_calls": 0, "cells": 0, "raised_index_error": 0, "zero_sensitivity": 0,
            "nonfinite_values": 0, "duplicate_vectors_in_case": 0,
            "resubmission_cases": 0, "pre_evaluated_cases": 0, "flags": {}}

    def bump(d, k):
        d[str(k)] = d.get(str(k), 0) + 1

    def add(case):
        try:
            obs, table = implementation(case)
        except Exception as e:      # not behaviour of the unchanged code: reported, and the other cases are still compared
            import traceback
            ctx.count(None, nontrivial=False)
            if len(ctx.mismatches) < 20:
                ctx.mismatches.append({"what": "the implementation raised %r on a case the model completes" % (e,), "correspondence": "c14",
                                       "case": {k: case.get(k) for k in ("mode", "wc", "n", "m", "tols", "objs", "batches", "again", "pre", "flags", "seed", "pop", "gens")},
                                       "traceback": traceback.format_exc()[-1500:]})
            return
        c, e = encode(case, obs, table)
        cases.append(c)
        expected.append(e)
        mt = {k: case[k] for k in ("mode", "wc", "n", "m", "tols", "objs", "criteria", "batches", "again", "pre", "flags")}
        for k in ("pop", "gens", "seed"):
            if k in case:
                mt[k] = case[k]
        if obs is not None:
            mt["observed"] = {"cost_lengths": [len(cl["costs"]) for cl in obs["cells"][:12]], "calls": len(obs["log"]),
                              "work_lists": [obs["n_inds"], obs["n_todo"]]}
        meta.append(mt)
        nd = sum(len(b) for b in case["batches"])
        hist["worst_case" if case["wc"] else "gradient"] += 1
        bump(hist["batches"], len(case["batches"]))
        bump(hist["designs_per_case"], nd)
        bump(hist["n"], case["n"])
        bump(hist["m"], case["m"])
        for o in case["objs"]:
            bump(hist["objective_kinds"], o["kind"])
        hist["resubmission_cases"] += any(case["again"])
        hist["pre_evaluated_cases"] += any(any(p) for p in case["pre"])
        for k, v in case["flags"].items():
            if v:
                bump(hist["flags"], k)
        if case["mode"] != "direct":
            bump(hist["algorithm_runs"], case["mode"] + ("/worst_case" if case["wc"] else "/gradient"))
        if obs is None:
            hist["raised_index_error"] += 1
        else:
            hist["objective_calls"] += len(obs["log"])
            hist["cells"] += len(obs["cells"])
            hist["zero_sensitivity"] += sum(1 for cl in obs["cells"] if cl["sens"] == 0.0)
            hist["nonfinite_values"] += sum(1 for cl in obs["cells"] for t in cl["costs"] if math.isnan(t) or math.isinf(t))
            vs = [tuple(v) for b in case["batches"] for v in b]
            hist["duplicate_vectors_in_case"] += len(vs) != len(set(vs))
        key = (case["mode"], case["wc"], case["n"], case["m"], tuple(case["tols"]),
               tuple((o["kind"], tuple(o["a"]), o["b"]) for o in case["objs"]),
               tuple(tuple(tuple(v) for v in b) for b in case["batches"]), tuple(tuple(a) for a in case["again"]), tuple(tuple(a) for a in case["pre"]))
        ctx.count(key, nontrivial=(len(case["batches"]) >= 2 and obs is not None))
        if len(case["batches"]) == 2 and nd <= 3 and case["mode"] == "direct" and obs is not None and not any(case["again"]):
            ctx.sample(mt, limit=3)

    rng = ctx.rng
    # corpus: boundary cases read off the code
    q1 = [{"kind": "quad", "a": [1.0, 0.5, 2.0], "b": 0.0}]
    q2 = q1 + [{"kind": "lin", "a": [1.0, -1.0, 0.5], "b": 1.0}]
    corpus = [
        {"wc": True, "n": 2, "m": 2, "tols": [0.25, 0.5], "objs": q2, "batches": [[[0.1, 0.2], [0.3, 0.4]], [[0.5, 0.6]]]},   # F2's shape
        {"wc": True, "n": 1, "m": 1, "tols": [0.1], "objs": q1, "batches": [[[0.5]], [[0.5]], [[0.5]], [[0.5]]]},             # same vector, four batches
        {"wc": True, "n": 1, "m": 1, "tols": [0.0], "objs": q1, "batches": [[[0.5], [-0.0]], [[0.0]]]},                       # zero tolerance, signed zeros
        {"wc": True, "n": 3, "m": 1, "tols": [0.25, 0.5, 1.0], "objs": [{"kind": "const", "a": [0.0], "b": 2.0}],
         "batches": [[[0.0, 0.0, 0.0]], [[1.0, 1.0, 1.0], [0.0, 0.0, 0.0]]]},                                                 # zero sensitivity
        {"wc": True, "n": 2, "m": 2, "tols": [0.25, 0.25], "objs": q2, "batches": [[], [[0.5, 0.5]], []]},                    # empty batches
        {"wc": True, "n": 2, "m": 1, "tols": [0.5, 0.5], "objs": [{"kind": "huge", "a": [1.0, 1.0], "b": 1.0}],
         "batches": [[[1.0, 1.0]], [[-0.5, 0.25]]]},                                                                          # inf / nan
        {"wc": False, "n": 2, "m": 2, "tols": [0.25, 0.5], "objs": q2, "batches": [[[0.1, 0.2], [0.3, 0.4]], [[0.5, 0.6]]]},
        {"wc": False, "n": 1, "m": 1, "tols": [0.1], "objs": q1, "batches": [[[0.5]], [[0.5]], [[0.5001]]]},
        {"wc": False, "n": 3, "m": 1, "tols": [0.1, 0.1, 0.1], "objs": [{"kind": "step", "a": [0.0], "b": 0.0}],
         "batches": [[[0.25, 0.25, 0.25], [0.1, 0.2, 0.30000000000000004]]]},
        {"wc": False, "n": 2, "m": 1, "tols": [0.1, 0.1], "objs": q1, "batches": [[[0.5, 0.5]], []]},                         # IndexError in run()
        {"wc": False, "n": 1, "m": 2, "tols": [0.1], "objs": q2, "batches": [[[1e300]], [[-1e300]]]},
        # an evaluated design handed to evaluate() again (outside the theorems): second time appended, third time overwritten
        {"wc": True, "n": 1, "m": 1, "tols": [0.25], "objs": q1, "batches": [[[0.5]], [], [], []], "again": [[], [0], [0], [0]]},
        {"wc": True, "n": 2, "m": 2, "tols": [0.25, 0.5], "objs": q2, "batches": [[[0.1, 0.2], [0.3, 0.4]], [[0.5, 0.6]], [[0.0, 0.0]]],
         "again": [[], [1], [0, 1, 2]]},
        {"wc": False, "n": 2, "m": 1, "tols": [0.1, 0.1], "objs": q1, "batches": [[[0.5, 0.5]], [[0.1, 0.2]], []], "again": [[], [0], [0, 1]]},
    ]
    OFF = {"vec_numpy": False, "reuse_list": False, "shared_param": False, "constr": False, "id_collide": False}
    corpus += [
        # designs evaluated by a plain Evaluator before they are submitted; numpy vectors; one list object re-used for every
        # call; one parameter dict shared by all axes; constraint (feasibility flag varies); colliding ids; vectors whose
        # hashes collide (-1.0 / -2.0) or that are `==` for Individual.__eq__ (0.5 / 0.5 + 1e-11)
        {"wc": True, "n": 2, "m": 2, "tols": [0.25, 0.25], "objs": q2, "batches": [[[0.5, 0.5], [0.1, 0.2]], [[0.5, 0.5]]],
         "pre": [[True, False], [True]], "flags": dict(OFF, shared_param=True)},
        {"wc": False, "n": 2, "m": 1, "tols": [0.1, 0.1], "objs": q1, "batches": [[[0.5, 0.5], [0.1, 0.2]], [[0.3, 0.3]]],
         "pre": [[False, True], [False]], "flags": dict(OFF, reuse_list=True)},
        {"wc": True, "n": 2, "m": 1, "tols": [1.0, 1e-11], "objs": [{"kind": "hash", "a": [0.0], "b": 1.0}],
         "batches": [[[-1.0, 0.5], [-2.0, 0.50000000001]], [[-1.0, 0.50000000001], [-2.0, 0.5]]],
         "flags": dict(OFF, reuse_list=True, id_collide=True)},
        {"wc": True, "n": 3, "m": 2, "tols": [0.5, 0.5, 0.5], "objs": q2, "batches": [[[0.1, 0.2, 0.4]], [[1.0, 0.0, -1.0], [0.1, 0.2, 0.4]]],
         "flags": dict(OFF, vec_numpy=True, shared_param=True, constr=True)},
        {"wc": False, "n": 2, "m": 2, "tols": [0.5, 0.5], "objs": q2, "batches": [[[0.1, 0.2]], [[1.0, 0.0], [0.1, 0.2]]],
         "flags": dict(OFF, vec_numpy=True, constr=True, id_collide=True)},
    ]
    for f in corpus:
        add(gen_case(rng, dict({"flags": OFF}, **dict(f, criteria=["minimize", "maximize"][:f["m"]], ret_numpy=False))))
    for _ in range(ctx.pick(450, 6000)):
        add(gen_case(rng))
    for _ in range(ctx.pick(12, 100)):
        add(gen_algo_case(rng))
    Individual.calc_signed_costs = orig_calc
    logging.disable(logging.NOTSET)

    ctx.coq_compare("c14", HEADER, "c14_case", "c14_obs", "c14_run", "c14_obs_eqb", cases, expected, meta, shard=ctx.pick(40, 300))
    ctx.rule = ("whole evaluator lives: 1..4 batches of 1..4 fresh designs (vectors from a grid of %d values so that designs, neighbours and "
                "batches share vectors), 1..3 parameters with tolerances from %r, 1..2 user objectives from the families %r with grid "
                "coefficients, pushed through Algorithm.evaluate with EvaluatorType.WORST_CASE / GRADIENT, plus short EpsMOEA / NSGAII runs "
                "with either evaluator (generations = batches) and a hand-written corpus; side streams: evaluated designs submitted again (12%%), "
                "designs evaluated by a plain Evaluator first (10%%), numpy vectors, one re-used batch list object, a shared parameter dict, "
                "an inequality constraint, colliding ids; a case is non-trivial when it has at least two "
                "batches and did not raise; distinct = distinct (mode, evaluator, tolerances, objectives, batches)"
                % (len(VGRID), TOLS, sorted(set(FAMILIES))))
    ctx.extra.update({"input_distribution": hist})


LEVEL_TEXT = ("Machine-checked Coq theorems over a heap-and-work-list model of Evaluator / WorstCaseEvaluator / GradientEvaluator, for every "
              "objective function, every tolerance list, every dimension, every number of objectives, every arithmetic (abstract operators) and "
              "every finite sequence of batches of fresh designs: the 2n neighbours and their displacements and parent links, the cost vector "
              "f(x) ++ [sum |f0(x) - f0(neighbour)|] of length m+1 and the m+2 signed entries after any number of further batches, empty work "
              "lists between batches, each design post-processed by exactly the run() call of its own batch, the exact objective call log "
              "((1+2n) resp. (1+n) calls per design), and the stored gradient as the forward quotient (f0(x + 1e-4 e_i) - f0(x)) / 1e-4; the cost "
              "shape, the processing log and the call log are also proved for histories in which batches contain already evaluated designs and "
              "designs submitted again (m+1 costs however often a design is processed; #designs + 2n * #submissions calls). "
              "The model is tied to operators.py on every run by evaluating it in Coq (binary64 instance) on generated batch sequences and "
              "short EpsMOEA / NSGAII runs and comparing every reachable Individual, the call log and the work lists bit for bit.")
LEVEL_NOTE = ("Trusted: Coq kernel + vm_compute; the hand-written model and the Python harness; Job.evaluate abstracted (objective and sign "
              "conversion as a recorded table). Batches consist of not-yet-evaluated designs; serial evaluation. The correspondence is sampled, "
              "the theorems are unbounded.")
