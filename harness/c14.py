"""C14 - worst-case and gradient evaluators: correspondence with Model/Evaluators.v and direct oracle.

Every case is a whole evaluator life: a fresh Problem + Algorithm(evaluator_type=WORST_CASE|GRADIENT) and a
sequence of batches pushed through the public `Algorithm.evaluate` (direct cases), or a short EpsMOEA /
NSGAII run whose `evaluator.evaluate` calls are recorded (the generations are the batches).  Observed on
the implementation: every Individual reachable from the submitted designs (vector, costs, costs_signed,
state, parents, children, features['sensitivity'|'gradient']), the objective's call log, the designs each
`run()` call post-processes, the lengths of the evaluator's two work lists at the end.  The model is given
the batches (vectors at submission), the tolerances, the declared number of objectives, the objective /
sign conversion as a recorded table and the tape of transient failures, and must reproduce all of it bit for bit.

User objective names and evaluator objects (red-team round 5): the user's costs are named F0, F1, ... or after names the framework uses
itself ('sensitivity' = the cost every evaluator constructor appends, 'gradient', 'feasible', 'precision'), with duplicates and unsorted
names; a second Algorithm / evaluator may be built on the same Problem before or after the evaluating one, or be used alternately with it.
The model ignores both (the unchanged code never reads a cost name; self.n only decides append / overwrite, and both m+1 and m+2 append
for a design with m costs); the oracle stays at the property text: m user objectives + 1.

Configuration changed between construction and use (red-team round 6): problem.parameters is rebound to a new list / slice-assigned /
edited in place after the Algorithm and its evaluator exist (other tolerances, another box), before the first batch or between batches;
the model (Run/C14Run.v wc_hist_staged) gets the tolerances current at each evaluate() call, the oracle displaces by those.

Transient failures: the harness's objective raises RuntimeError / TimeoutError at scripted GLOBAL call numbers
(on designs and on neighbours, runs of 1..4 consecutive numbers, never 5); Job handles them by re-drawing the
individual (gen_vector, recorded through a proxy of artap.job.VectorAndNumbers); the tape (call number, re-drawn
vector) is an input of the model, exactly as the oracle tape of Model/Job.v.  The direct oracle judges every design
against its FINAL vector.  Open finding F13: a neighbour whose OWN evaluation failed is re-drawn at a random point;
the oracle reports it with the kinds worstcase_child_rerolled / gradient_child_rerolled, and only when everything
else about that design is right with the re-drawn neighbour taken as given (KNOWN_FINDINGS.json lists them as open).
"""
import hashlib
import math
import struct

from harness.core import fl, nl, bl, ll, pl, optl, FLOAT_AXIOMS

PROP = "C14"
THEOREMS = {"Artap.Props.C14": [
    "C14_worstcase_children", "C14_displaced_one_axis", "C14_worstcase_cost_shape", "C14_worstcase_processing_and_calls",
    "C14_gradient_with_resubmission", "C14_worstcase_cost_shape_fresh_batches", "C14_worstcase_no_reprocessing",
    "C14_worstcase_call_budget", "C14_gradient_forward_difference", "C14_gradient_budget",
    "C14_gradient_no_reprocessing", "C14_worstcase_with_transient_failures", "C14_gradient_with_transient_failures"]}
AXIOMS_OK = []
# second tie to the code (tools/py2coq.py guard mode + coq/theories/GenProofs): the test that decides between overwriting and
# appending the sensitivity entry in WorstCaseEvaluator.run is translated on every run and proved equal to the model's (F11)
from harness.core import translated_specs
# ... and the WHOLE of WorstCaseEvaluator / GradientEvaluator.evaluate and run (front-end tools/py2coq_eff.py): the order of
# super().evaluate / add / run, the post-processing loop over self.individuals, the reset of both work lists (F2, F14 sites)
TRANSLATED = translated_specs("WorstCaseGuardGen", "EvaluatorsGen", "EvaluatorsWholeGen")
TRUSTED = [
    "Coq 8.16.1 kernel, vm_compute for model evaluation (no native_compute)",
    "hand-written model Model/Evaluators.v (heap of Individual objects + the two work lists) tied to operators.py "
    "Evaluator / WorstCaseEvaluator / GradientEvaluator by this correspondence run",
    "the arithmetic and Python's builtin sum() are abstract under the theorems (Section variables add/sub/mul/div/abs/psum); the "
    "correspondence runs the PrimFloat instance (binary64, round-to-nearest-even) with sum() as CPython 3.12 implements it "
    "(Neumaier compensation on exact floats, plain left fold on numpy.float64 / int items) and compares bit for bit",
    "the step delta is a Section variable under the theorems; the run driver and the direct oracle use 1e-4",
    "Job.evaluate is abstracted to its retry loop over a failure tape (global call number -> re-drawn vector, as Model/Job.v): a failed "
    "attempt replaces the vector and is counted in the ghost field d_fail; the successful attempt does costs := f(vector), "
    "costs_signed := sgn(costs) ++ [flag], state := EVALUATED; f, sgn (sign * np.round(cost, 7)) and the flag are recorded on the "
    "implementation and given to the model as a table, the tape is scripted by the harness (failing call numbers) and recorded (vectors "
    "returned by gen_vector) (constraints, data store, problem.failed, the RuntimeError after five failures: properties C05/C06)",
    "ghost logs (objective call log, designs post-processed per run() call) are observed by harness-side wrappers of "
    "Problem.evaluate and of the evaluator instance's run()",
]
ASSUMPTIONS = [
    "serial evaluation (options['max_processes'] = 1) for the model comparison; the parallel path is property C07 (a small stream with "
    "max_processes 2..4 is judged by the direct oracle only: the order of the objective calls is then not determined)",
    "the parameter tolerance of a design is the 'tol' problem.parameters holds at the time of the evaluate() call that builds its neighbours "
    "(problem.parameters may be rebound or edited after the algorithm was built: the model is run with the list current at each call)",
    "the theorems about call logs / budgets, resubmission and pre-evaluated designs are stated for runs without transient failures (empty "
    "failure tape); C14_worstcase_with_transient_failures / C14_gradient_with_transient_failures hold for every tape and batches of fresh designs",
    "C14_worstcase_cost_shape / _processing_and_calls / C14_gradient_with_resubmission cover batches that contain fresh designs, designs "
    "already evaluated by a plain Evaluator and designs submitted again (any number of times, in any order within the batch); within one "
    "batch the submitted objects are pairwise distinct and are designs, not children created by the evaluator; the remaining theorems "
    "(children, no_reprocessing, call budgets, forward difference) are stated for batches of fresh designs",
    "the objective is a function of the vector and returns a fresh list of exactly len(problem.costs) numbers; it may fail transiently "
    "(TimeoutError / RuntimeError, handled by Job's re-draw) at any call, but never five times in a row for one individual (Job then raises "
    "RuntimeError: C06); any other exception aborts the run (C06)",
    "OPEN FINDING F13 (KNOWN_FINDINGS.json): a neighbour design whose own evaluation fails transiently is re-drawn by Job at a random point "
    "of the box, so it is no longer x -/+ tol e_i (x + 1e-4 e_i) and the extra objective / gradient component is computed against that point; "
    "the theorems with failures state the displacement for every neighbour whose own evaluation never failed, and the full statement when "
    "no neighbour's evaluation failed",
    "all designs have len(problem.parameters) coordinates and every parameter has a 'tol' entry (worst case); tolerances are floats "
    "(or non-zero ints: an int tolerance 0 gives -1 * 0 = 0 instead of -0.0, which is visible only on a coordinate that is -0.0)",
    "gradient evaluator: batches are non-empty (an empty batch raises IndexError in run(); modelled, not covered by the theorems)",
    "a design vector is a list of Python / numpy numbers (ints, floats, mixed) or a FLOAT ndarray; the model works on the values. An integer "
    "ndarray is outside the domain: numpy truncates the displaced coordinate on assignment in the unchanged code as well (probed on every run, "
    "coverage.input_distribution.integer_ndarray_probe; candidate finding, notes/C14.md); tuples are rejected by Individual.__init__",
    "the sum in the extra objective and the finite difference use the FIRST user objective only (costs[0]), as the code does",
    "the user objectives may have any names (also 'sensitivity', 'gradient', 'feasible', duplicates: the unchanged code never reads them) and "
    "further evaluator objects may be built on the same problem; a design that is submitted AGAIN is processed by the evaluator that was built "
    "FIRST for the problem (self.n = m + 1). The evaluator built second has self.n = m + 2 and appends a second extra entry to a resubmitted "
    "design in the unchanged code: candidate finding, probed on every run (coverage.input_distribution.second_evaluator_resubmission_probe), "
    "not generated, not judged (notes/C14.md, red-team round 5)",
]

HEADER = ("From Artap Require Import Run.C14Run.\nFrom Coq Require Import List ZArith Floats.\nImport ListNotations.\n"
          "Open Scope float_scope.\n")

VGRID = [0.0, 0.25, 0.5, 0.75, 1.0, -0.5, 0.1, 0.2, 0.30000000000000004, 1.5, -0.0, 2.0, 1e-3, 0.9999, 3.0, -1.25,
         -1.0, -2.0, 0.50000000001]      # hash(-1.0) == hash(-2.0); 0.5 and 0.5+1e-11 are `==` for Individual.__eq__
TOLS = [0.25, 0.5, 0.1, 1e-3, 0.0, 1.0, 1e-9, 0.05, 2.0 ** -30, 0.75, 1e-4]
COEF = [1.0, -1.0, 0.5, 2.0, 0.0, 3.0, -0.25, 0.1, 1e3, 1e-3, 7.0]
FAMILIES = ["quad", "quad", "lin", "lin", "abs", "sin", "const", "step", "hash", "intstep", "prod", "huge"]
DELTA = 1e-4
# representations of a design vector the code accepts (Individual.__init__ needs .copy(): lists and arrays, not tuples):
# a list of Python floats (what the generators produce), of Python ints only (user-given start points, re-draws of
# parameters with parameter_type 'integer'), mixed int / float, lists of numpy.int64 / numpy.float64 scalars (values read
# from arrays / data frames), and a float ndarray (flag vec_numpy; what the scipy / nlopt wrappers pass)
REPS = ["float", "float", "float", "float", "int", "int", "mixed", "mixed", "npint", "npfloat", "npmixed"]
IGRID = [0, 1, 2, -1, -2, 3, 5, -3, 10, 1, 0, 2]
# red-team round 5 (RT5_C14_2): names of the USER objectives that collide with names the framework itself uses (the extra cost the
# evaluators declare is called 'sensitivity'; 'gradient' / 'feasible' / 'precision' are feature keys), with each other (duplicates)
# and whose sorted order differs from the declared one ('F_10' < 'F_2'); None = the plain names F0, F1, ...
NAMES = ["sensitivity", "sensitivity", "sensitivity", "gradient", "feasible", "F", "F", "F_10", "F_2", "precision", "Sensitivity", ""]
# a SECOND evaluator object on the same problem (a second Algorithm built for it, as a two-stage optimisation does): built before
# or after the one that evaluates (same evaluator type or the other one), or used alternately with it batch by batch.  Every
# evaluator constructor appends {'name': 'sensitivity'} to problem.costs, so the one built second has self.n = m + 2.
SECONDS = ["before", "after", "alternate", "before_other", "after_other"]


# red-team round 6 (RT6_C14_1): problem.parameters re-parametrised AFTER the Algorithm / evaluator objects exist (a second stage with
# tighter tolerances, another box): before the first batch or between batches; by REBINDING problem.parameters to a new list of new
# dicts, to a new list of the same (edited) dicts, by slice assignment into the same list, or by editing the dicts in place.  The
# neighbours of a design are displaced by the tolerances problem.parameters holds when it is evaluated.
HOWS = ["rebind", "rebind", "rebind", "rebind_same_dicts", "inplace", "slice"]
BOXES = [[-2.0, 3.0], [-5.0, 5.0], [-1.0, 1.0], [0.0, 10.0], [-100.0, 100.0], [-2.0, 3.0]]


def gen_stages(rng, nb, n, tols, p0=0.6, later=0.45, bounds=0.5):
    """per batch: None or {'how', 'tols', 'bounds'} = what is done to problem.parameters right before that evaluate() call"""
    stages = [None] * nb
    idx = [bi for bi in range(nb) if rng.random() < (p0 if bi == 0 else later)] or [rng.randrange(nb)]
    cur = list(tols)
    for bi in idx:
        new = [rng.choice(TOLS) for _ in range(n)]
        if rng.random() < 0.15:
            new = list(cur)                 # same tolerances: only new objects / another box (a later in-place stage edits the NEW dicts)
        elif new == cur:
            i = rng.randrange(n)
            new[i] = rng.choice([t for t in TOLS if t != cur[i]])
        stages[bi] = {"how": rng.choice(HOWS), "tols": new,
                      "bounds": [list(rng.choice(BOXES)) for _ in range(n)] if rng.random() < bounds else None}
        cur = new
    return stages


def tols_at(case, bi):
    """the tolerances problem.parameters holds when batch bi is evaluated"""
    cur = case["tols"]
    for k, st in enumerate(case.get("stages") or []):
        if k > bi:
            break
        if st:
            cur = st["tols"]
    return cur


def tol_value(case, t):
    return int(t) if case["int_tol"] and float(t) == int(t) and t != 0 else t


def gen_names(rng, m):
    return [rng.choice(NAMES) for _ in range(m)]


def bits(x):
    return struct.pack("<d", float(x))


def make_objective(spec):
    """spec: {'kind', 'a': [...], 'b': float}.  A deterministic function of the vector."""
    kind, a, b = spec["kind"], spec["a"], spec["b"]

    def g(v):
        n = len(v)
        if kind == "quad":
            s = b
            for i in range(n):
                s = s + a[i % len(a)] * v[i] * v[i]
            return s
        if kind == "lin":
            s = b
            for i in range(n):
                s = s + a[i % len(a)] * v[i]
            return s
        if kind == "abs":
            s = 0.0
            for i in range(n):
                s = s + abs(v[i] - a[i % len(a)])
            return s
        if kind == "sin":
            s = 0.0
            for i in range(n):
                s = s + a[i % len(a)] * v[i]
            return math.sin(s) + b
        if kind == "const":
            return b
        if kind == "step":
            s = 0.0
            for i in range(n):
                s = s + v[i]
            return float(math.floor(4.0 * s)) + b
        if kind == "intstep":
            s = 0.0
            for i in range(n):
                s = s + v[i]
            return int(math.floor(4.0 * s))
        if kind == "prod":
            s = 1.0
            for i in range(n):
                s = s * (v[i] + a[i % len(a)])
            return s
        if kind == "huge":
            s = b
            for i in range(n):
                s = s + a[i % len(a)] * v[i]
            return 1e308 * s
        if kind == "hash":
            h = hashlib.sha1(b"".join(bits(x) for x in v) + bits(b)).digest()
            return [0.0, 1.0, 2.0, -3.0, 0.5, 7.25, 1e-7, 123456.789][h[0] % 8] + (h[1] % 4) * 0.25
        raise ValueError(kind)
    return g


def runs_ok(ks):
    """no five consecutive call numbers"""
    ks = set(ks)
    return not any(all(k + j in ks for j in range(5)) for k in ks)


def gen_fails(rng, est, nruns):
    ks = set()
    for _ in range(nruns):
        start = rng.randrange(est)
        new = set(ks)
        new.update(range(start, start + rng.choice([1, 1, 1, 2, 3, 4])))
        if runs_ok(new):
            ks = new
    return sorted(ks)


def gen_case(rng, forced=None):
    forced = forced or {}
    wc = forced.get("wc", rng.random() < 0.6)
    n = forced.get("n", rng.choice([1, 2, 2, 3, 3]))
    m = forced.get("m", rng.choice([1, 1, 2]))
    nb = forced.get("nb", rng.choice([1, 2, 2, 3, 3, 4]) if rng.random() < 0.93 else rng.choice([5, 6, 8]))
    grid = VGRID[:6] if rng.random() < 0.4 else VGRID
    rep = forced.get("flags", {}).get("rep") or ("float" if "batches" in forced else rng.choice(REPS))
    if rep in ("int", "npint"):
        types = ["i"] * n
    elif rep in ("mixed", "npmixed"):
        types = [rng.choice("if") for _ in range(n)]
        if n > 1 and len(set(types)) == 1:
            types[rng.randrange(n)] = "f" if types[0] == "i" else "i"
    else:
        types = ["f"] * n
    types = forced.get("types", types)

    def coord(i):
        return float(rng.choice(IGRID)) if types[i] == "i" else rng.choice(grid)
    pool = [[coord(i) for i in range(n)] for _ in range(3)]
    batches = []
    for _ in range(nb):
        k = rng.choice([1, 2, 2, 3, 4])
        batches.append([list(rng.choice(pool)) if rng.random() < 0.3 else [coord(i) for i in range(n)] for _ in range(k)])
    if "batches" in forced:
        batches = forced["batches"]
    tols = forced.get("tols", [rng.choice(TOLS) for _ in range(n)])
    fams = FAMILIES if rng.random() < 0.93 else ["huge", "const", "hash"]
    objs = forced.get("objs", [{"kind": rng.choice(fams), "a": [rng.choice(COEF) for _ in range(n)], "b": rng.choice(COEF)}
                               for _ in range(m)])
    again = [[] for _ in batches]
    if forced.get("again") is not None:
        again = forced["again"]
    elif "batches" not in forced and rng.random() < 0.12:
        created = 0
        for bi, b in enumerate(batches):
            if created and rng.random() < 0.7:
                again[bi] = sorted(rng.sample(range(created), rng.choice([1, 1, 2]) if created > 1 else 1))
            created += len(b)
    pre = [[False] * len(b) for b in batches]
    if forced.get("pre") is not None:
        pre = forced["pre"]
    elif "batches" not in forced and rng.random() < 0.1:
        pre = [[rng.random() < 0.5 for _ in b] for b in batches]
    flags = {"vec_numpy": rep == "float" and rng.random() < 0.15, "reuse_list": rng.random() < 0.25, "shared_param": rng.random() < 0.3,
             "constr": rng.random() < 0.15, "id_collide": rng.random() < 0.15, "rep": rep,
             # every parameter declared 'parameter_type': 'integer': Job's re-draw of a failed design is then a list of ints
             "int_params": rep == "int" and rng.random() < 0.5}
    flags.update(forced.get("flags", {}))
    if flags["vec_numpy"]:
        flags["rep"], types = "float", ["f"] * n
    # scripted transient failures, by GLOBAL call number of the objective (failed calls included): runs of 1..4
    # consecutive numbers (a run belongs to one job; five in a row would raise RuntimeError: never generated)
    per = (2 * n + 1) if wc else (n + 1)
    est = max(1, sum((len(b) + len(a)) * per for b, a in zip(batches, again)))
    if "fails" in forced:
        fails = sorted(set(forced["fails"]))
    elif rng.random() < 0.4:
        fails = gen_fails(rng, est, rng.choice([1, 1, 2, 3]))
    else:
        fails = []
    gen = "batches" not in forced
    names = forced.get("names", gen_names(rng, m) if gen and rng.random() < 0.3 else None)
    second = forced.get("second", rng.choice(SECONDS) if gen and rng.random() < 0.25 else None)
    if second in ("before", "before_other", "alternate") and any(again):
        # the evaluator built second has self.n = m + 2: a design it processes AGAIN gets a second extra entry in the unchanged code
        # (candidate finding, probed on every run: coverage.input_distribution.second_evaluator_resubmission_probe, never judged)
        second = "after" if second == "before" else "after_other" if second == "before_other" else None
    stages = forced.get("stages", gen_stages(rng, len(batches), n, tols) if gen and rng.random() < forced.get("p_stages", 0.3) else None)
    return {"mode": "direct", "names": names, "second": second, "stages": stages, "procs": forced.get("procs", 1), "fails": fails, "seed": forced.get("seed", rng.randrange(10 ** 6)), "wc": wc, "n": n, "m": m, "tols": tols, "objs": objs, "again": again, "pre": pre, "flags": flags,
            "criteria": forced.get("criteria", [rng.choice(["minimize", "maximize"]) for _ in range(m)]),
            # a re-drawn design holds a Python list: with numpy vectors the objective would return numpy.float64 for some designs
            # and exact floats for others (sum() then switches algorithm per design): make it return numpy.float64 throughout
            # the same for lists of numpy scalars (arithmetic on them yields numpy.float64, a neighbour of an int design mixes both)
            "ret_numpy": True if ((fails and flags["vec_numpy"]) or flags["rep"].startswith("np")) else forced.get("ret_numpy", rng.random() < 0.2),
            "int_tol": rng.random() < (0.3 if "i" in types else 0.05),
            "types": types,
            "batches": batches}


def gen_algo_case(rng):
    n = rng.choice([1, 2, 3])
    m = rng.choice([1, 2, 2])
    pop, gens = rng.choice([2, 3, 4, 6]), rng.choice([2, 3, 4, 5])
    wc = rng.random() < 0.5
    fails = gen_fails(rng, pop * gens * ((2 * n + 1) if wc else (n + 1)), rng.choice([1, 2, 3])) if rng.random() < 0.6 else []
    names = gen_names(rng, m) if rng.random() < 0.4 else None
    second = rng.choice(["before", "after", "before_other", "after_other"]) if rng.random() < 0.3 else None
    tols = [rng.choice([0.25, 0.1, 1e-3, 0.05]) for _ in range(n)]
    # the problem re-parametrised after the algorithm was built and before run() (stage 0: new box as well), and / or while it runs
    # (tolerances only: right before the evaluate() call of a later generation)
    stages = None
    if rng.random() < 0.4:
        stages = gen_stages(rng, gens + 1, n, tols, p0=0.75, later=0.2, bounds=0.0)
        if stages[0] and rng.random() < 0.5:
            stages[0]["bounds"] = [list(rng.choice(BOXES)) for _ in range(n)]
    return {"mode": rng.choice(["EpsMOEA", "NSGAII"]), "wc": wc, "fails": fails, "n": n, "m": m, "names": names, "second": second,
            "tols": tols, "stages": stages, "procs": 1,
            "objs": [{"kind": rng.choice(["quad", "lin", "abs", "sin", "prod"]), "a": [rng.choice(COEF[:8]) for _ in range(n)],
                      "b": rng.choice(COEF[:8])} for _ in range(m)],
            "criteria": [rng.choice(["minimize", "maximize"]) for _ in range(m)], "ret_numpy": False, "int_tol": False,
            "pop": pop, "gens": gens, "seed": rng.randrange(10 ** 6), "batches": None,
            "again": None, "pre": None,
            "types": ["f"] * n,
            "flags": {"vec_numpy": False, "reuse_list": False, "shared_param": rng.random() < 0.3, "constr": rng.random() < 0.3,
                      "id_collide": False, "rep": "float", "int_params": False}}


def close(a, b):
    """equality up to rounding (the oracle is as strong as the property text, not bit-exact)"""
    a, b = float(a), float(b)
    if math.isnan(a) or math.isnan(b):
        return math.isnan(a) and math.isnan(b)
    if math.isinf(a) or math.isinf(b):
        return a == b
    return abs(a - b) <= 1e-9 * max(1.0, abs(a), abs(b))


def run(ctx):
    import logging
    import random as pyrandom
    import numpy as np
    from artap.problem import Problem
    from artap.individual import Individual
    from artap.algorithm import Algorithm, EvaluatorType
    from artap.algorithm_genetic import EpsMOEA
    from artap.algorithm_NSGAII import NSGAII
    logging.disable(logging.CRITICAL)

    signed_rec = []          # (vector, costs, costs_signed) right after Individual.calc_signed_costs
    orig_calc = Individual.calc_signed_costs

    def calc_rec(self, p_signs):
        orig_calc(self, p_signs)
        signed_rec.append((list(self.vector), list(self.costs), list(self.costs_signed)))
    Individual.calc_signed_costs = calc_rec

    class Prob(Problem):
        def set(self, **kwargs):
            case = kwargs["case"]
            self.name = "c14"
            self.parameters = [{'name': 'x%d' % i, 'initial_value': 0.5, 'bounds': [-2.0, 3.0],
                                'tol': tol_value(case, t)}
                               for i, t in enumerate(case["tols"])]
            if case["flags"].get("int_params"):
                for q in self.parameters:
                    q['parameter_type'] = 'integer'
            if case["flags"]["shared_param"] and len(set(case["tols"])) == 1:
                self.parameters = [self.parameters[0]] * len(case["tols"])      # one dict object for every axis
            self.constr = case["flags"]["constr"]
            names = case.get("names") or ['F%d' % k for k in range(len(case["criteria"]))]
            self.costs = [{'name': names[k], 'criteria': c} for k, c in enumerate(case["criteria"])]
            self.fns = [make_objective(s) for s in case["objs"]]
            self.ret_numpy = case["ret_numpy"]
            self.calls = []          # (Individual object, vector at the call, returned costs or None, failed?)
            self.fail_at = set(case.get("fails") or [])      # global call numbers scripted to fail transiently
            self.rerolls = []        # what gen_vector returned for Job's re-draws, in order

        def evaluate_inequality_constraints(self, x):
            return [x[0] - 0.3] if self.constr else []

        def evaluate(self, individual):
            v = list(individual.vector)
            k = len(self.calls)
            if k in self.fail_at:
                self.calls.append((individual, v, None, True))
                raise (RuntimeError if k % 2 == 0 else TimeoutError)("scripted transient failure of call %d" % k)
            c = [g(v) for g in self.fns]
            if self.ret_numpy:
                c = [np.float64(x) for x in c]
            self.calls.append((individual, v, list(c), False))
            return c

    class Direct(Algorithm):
        def run(self):
            pass

    KNOWN_KINDS = ("worstcase_child_rerolled", "gradient_child_rerolled")     # open finding F13
    known_seen = {k: 0 for k in KNOWN_KINDS}
    other_failures = [0]

    def fail(what, case, kind, **kw):
        if kind in KNOWN_KINDS:
            known_seen[kind] += 1
            if known_seen[kind] > 2:          # counted (ctx.extra), two literal inputs per kind are enough
                return
        else:
            other_failures[0] += 1
            if other_failures[0] > 40:
                return
        inp = {k: case.get(k) for k in ("mode", "wc", "n", "m", "tols", "objs", "criteria", "batches", "again", "pre", "fails", "seed",
                                        "pop", "gens", "types", "int_tol")}
        inp["user_objective_names"] = case.get("names") or ['F%d' % k for k in range(case["m"])]
        inp["second_evaluator_on_the_same_problem"] = case.get("second")
        if case.get("stages"):
            inp["problem_parameters_changed_before_batch"] = {str(bi): st for bi, st in enumerate(case["stages"]) if st}
            inp["tols"] = case["tols"]
            inp["tolerances_note"] = "'tols' = tolerances when the algorithm was constructed; the entries of problem_parameters_changed_before_batch replace them"
        if case.get("procs", 1) > 1:
            inp["max_processes"] = case["procs"]
        inp["design_vectors_given_as"] = ("float ndarray" if case["flags"].get("vec_numpy") else
                                          {"float": "list of float", "int": "list of int", "mixed": "list of int / float (see types)",
                                           "npint": "list of numpy.int64", "npfloat": "list of numpy.float64",
                                           "npmixed": "list of numpy.int64 / numpy.float64 (see types)"}[case["flags"].get("rep", "float")])
        inp.update(kw)
        ctx.oracle_failures.append({"what": what, "input": inp, "match": {"kind": kind}})

    def num(x):
        try:
            return float(x)
        except (TypeError, ValueError):
            return float("nan")         # None / malformed entry: cannot be produced by the model at this position

    def vkey(v):
        return tuple(bits(0.0 + float(t)) for t in v)

    def analyse(problem):
        """per Individual object: successful / failed objective calls, last returned costs, the vector of its first call,
        the vector Job re-drew it to after its last failed call (the re-roll tape is aligned with the failed calls)"""
        A = {"nsucc": {}, "nfail": {}, "ret": {}, "first": {}, "reroll": {}, "tape_ok": True}
        failed_no = 0
        for (ind, v, c, failed) in problem.calls:
            i = id(ind)
            A["first"].setdefault(i, v)
            if failed:
                A["nfail"][i] = A["nfail"].get(i, 0) + 1
                if failed_no < len(problem.rerolls):
                    A["reroll"][i] = problem.rerolls[failed_no]
                else:
                    A["tape_ok"] = False
                failed_no += 1
            else:
                A["nsucc"][i] = A["nsucc"].get(i, 0) + 1
                A["ret"][i] = c
        if failed_no != len(problem.rerolls):
            A["tape_ok"] = False
        return A

    f13_reported = set()

    def final_vector_ok(case, A, x, v0, where, prefix):
        """the stored design is the submitted one, or - when its own evaluation failed - the one Job re-drew"""
        vf = [float(t) for t in x.vector]
        exp = A["reroll"].get(id(x)) if A["nfail"].get(id(x), 0) else v0
        if exp is None or vkey(vf) != vkey(exp):
            fail("design vector %r after evaluation; required %r (%s)" % (vf, exp, "the vector Job re-drew after the failed call"
                 if A["nfail"].get(id(x), 0) else "the submitted vector: its evaluation never failed"), case, prefix + "_design_vector", **where)
            return None
        return vf

    def oracle_wc(case, problem, submitted, upto, n, m):
        """clauses of the property on every design submitted so far (batches 0..upto)"""
        A = analyse(problem)
        nsucc, nfail, ret = A["nsucc"], A["nfail"], A["ret"]
        if not A["tape_ok"]:
            fail("%d failed objective calls but %d re-draws by Job" % (sum(nfail.values()), len(problem.rerolls)), case, "worstcase_reroll_tape",
                 after_batch=upto)
        subs = {}
        for bi, batch in enumerate(submitted[:upto + 1]):
            for di, (x, v0) in enumerate(batch):
                subs.setdefault(id(x), []).append(bi)

        def displaced(v, tols):
            out = []
            for i in range(n):
                for disp in (v[i] - tols[i], v[i] + tols[i]):
                    w = list(v)
                    w[i] = disp
                    out.append(vkey(w))
            return out
        done_once = set()
        for bi, batch in enumerate(submitted[:upto + 1]):
            for di, (x, v0) in enumerate(batch):
                if id(x) in done_once:
                    continue
                done_once.add(id(x))
                where = {"batch": bi, "design": di, "vector": v0, "after_batch": upto, "submitted_in_batches": subs[id(x)]}
                # the tolerances problem.parameters held when the design was evaluated (its neighbours are rebuilt at every submission)
                tols = [float(t) for t in tols_at(case, subs[id(x)][-1])]
                if case.get("stages"):
                    where["tolerances_of_the_problem_at_that_evaluation"] = tols
                if len(x.costs) != m + 1:
                    if len(subs[id(x)]) > 1:
                        fail("design submitted in batches %r has %d cost entries after batch %d (required %d: %d user objectives + 1, "
                             "however often it is evaluated again)" % (subs[id(x)], len(x.costs), upto, m + 1, m),
                             case, "worstcase_resubmission", costs=[num(c) for c in x.costs], **where)
                    elif bi < upto and len(x.costs) > m + 1:
                        fail("design of batch %d has %d cost entries after batch %d was evaluated (required %d: %d user objectives + 1)"
                             % (bi, len(x.costs), upto, m + 1, m), case, "worstcase_reprocess", costs=[num(c) for c in x.costs], **where)
                    else:
                        fail("evaluated design has %d cost entries (required %d user objectives + 1)" % (len(x.costs), m),
                             case, "worstcase_cost_length", costs=[num(c) for c in x.costs], **where)
                    continue
                if nsucc.get(id(x), 0) != 1:
                    fail("design evaluated %d times (required once)" % nsucc.get(id(x), 0), case, "worstcase_calls", **where)
                    continue
                vf = final_vector_ok(case, A, x, v0, where, "worstcase")
                if vf is None:
                    continue
                where = dict(where, final_vector=vf, own_failed_calls=nfail.get(id(x), 0))
                if [num(c) for c in x.costs[:m]] != [num(c) for c in ret[id(x)]] and not any(math.isnan(num(c)) for c in ret[id(x)]):
                    fail("user objectives in costs differ from what the objective returned", case, "worstcase_user_costs", **where)
                if len(x.children) != 2 * n:
                    fail("%d neighbour designs (required 2n = %d)" % (len(x.children), 2 * n), case, "worstcase_children_count", **where)
                    continue
                ok = True
                # 2n neighbours: on every axis one displaced by -tolerance and one by +tolerance FROM THE STORED DESIGN (as a
                # multiset: the property does not fix their order).  A neighbour whose OWN evaluation failed was re-drawn by
                # Job (open finding F13): it must have been created at one of the displaced positions and must now sit at the
                # vector Job drew for it; everything else is judged with that neighbour taken as given.
                rem = displaced(vf, tols)
                clean, redrawn = [], []
                for k, ch in enumerate(x.children):
                    cv = vkey(ch.vector)
                    if nfail.get(id(ch), 0):
                        redrawn.append(k)
                        created = vkey(A["first"][id(ch)])
                        if created in rem:
                            rem.remove(created)
                        else:
                            clean.append(created)          # created somewhere else: reported below as a displacement error
                            ok = False
                        if A["reroll"].get(id(ch)) is None or cv != vkey(A["reroll"][id(ch)]):
                            fail("neighbour %d failed %d time(s) and is at %r, but Job re-drew it to %r" % (k, nfail[id(ch)], list(ch.vector), A["reroll"].get(id(ch))),
                                 case, "worstcase_child_vector", **where)
                            ok = False
                    else:
                        clean.append(cv)
                        if cv in rem:
                            rem.remove(cv)
                        else:
                            ok = False
                if not ok or rem:
                    around_old = nfail.get(id(x), 0) and vkey(v0) != vkey(vf) and all(c in displaced(v0, tols) for c in clean)
                    got = [[float(t) for t in ch.vector] for ch in x.children]
                    stale = None
                    if case.get("stages") and not redrawn:
                        for b0 in range(-1, subs[id(x)][-1]):
                            t0 = [float(t) for t in (case["tols"] if b0 < 0 else tols_at(case, b0))]
                            if t0 != tols and sorted(clean) == sorted(displaced(vf, t0)):
                                stale = t0
                                break
                    if around_old:
                        fail("the design's own evaluation failed and Job re-drew it from %r to %r, but its neighbours %r are displaced from "
                             "the abandoned position (required: -/+ tolerance from the stored design)" % (v0, vf, got),
                             case, "worstcase_design_rerolled", **where)
                    elif stale is not None:
                        fail("neighbours %r of %r are displaced by the tolerances %r the problem had before problem.parameters was changed; "
                             "required -/+ the tolerances %r of the problem at the time of the evaluation" % (got, vf, stale, tols),
                             case, "worstcase_displacement", **where)
                    else:
                        fail("neighbours %r, required one design displaced by -tolerance and one by +tolerance on every axis of %r"
                             % (got, vf), case, "worstcase_displacement", **where)
                    ok = False
                for k, ch in enumerate(x.children):
                    if len(ch.parents) != 1 or ch.parents[0] is not x:
                        fail("neighbour %d is not linked to its design through parents" % k, case, "worstcase_parent_link", **where)
                        ok = False
                    if nsucc.get(id(ch), 0) != 1:
                        fail("neighbour %d evaluated %d times (required once)" % (k, nsucc.get(id(ch), 0)), case, "worstcase_calls", **where)
                        ok = False
                if not ok:
                    continue
                s = 0
                for ch in x.children:
                    s = s + abs(x.costs[0] - ret[id(ch)][0])
                if not close(x.costs[-1], s):
                    fail("extra objective %r, sum of |f(x) - f(neighbour)| recomputed from the recorded neighbours %r" % (num(x.costs[-1]), num(s)),
                         case, "worstcase_sum", **where)
                    ok = False
                if 'sensitivity' not in x.features or not close(x.features['sensitivity'], s):
                    fail("features['sensitivity'] %r, recomputed sum %r" % (x.features.get('sensitivity'), num(s)), case, "worstcase_feature", **where)
                    ok = False
                sc = x.costs_signed
                if len(sc) != m + 2 or isinstance(sc[-2], (bool, np.bool_)) or not close(sc[-2], x.costs[-1]) or not isinstance(sc[-1], (bool, np.bool_)):
                    fail("costs_signed %r: required %d signed user objectives, the extra objective, the feasibility flag" % (sc, m),
                         case, "worstcase_signed_shape", **where)
                    ok = False
                if ok and redrawn and id(x) not in f13_reported:
                    f13_reported.add(id(x))
                    hist["f13_designs"] += 1
                    k = redrawn[0]
                    fail("neighbour %d of the design %r was created at %r, its own evaluation failed %d time(s) and Job re-drew it to %r: it is "
                         "not displaced by -/+ tolerance and the extra objective %r is computed against it (everything else about the design is right)"
                         % (k, vf, list(A["first"][id(x.children[k])]), nfail[id(x.children[k])], [float(t) for t in x.children[k].vector], num(x.costs[-1])),
                         case, "worstcase_child_rerolled", neighbour=k, **where)
        total = sum(len(b) for b in submitted[:upto + 1])
        good = sum(nsucc.values())
        if good != len(done_once) + 2 * n * total:
            fail("%d successful objective calls for %d designs and %d submissions (required 1 per design + 2n per submission = %d)"
                 % (good, len(done_once), total, len(done_once) + 2 * n * total), case, "worstcase_budget", after_batch=upto)

    def oracle_grad(case, problem, submitted, upto, n, m):
        A = analyse(problem)
        nsucc, nfail, ret = A["nsucc"], A["nfail"], A["ret"]
        if not A["tape_ok"]:
            fail("%d failed objective calls but %d re-draws by Job" % (sum(nfail.values()), len(problem.rerolls)), case, "gradient_reroll_tape",
                 after_batch=upto)

        def stepped(v, i):
            w = list(v)
            w[i] = v[i] + DELTA
            return w
        done_once = set()
        for bi, batch in enumerate(submitted[:upto + 1]):
            for di, (x, v0) in enumerate(batch):
                if id(x) in done_once:
                    continue
                done_once.add(id(x))
                where = {"batch": bi, "design": di, "vector": v0, "after_batch": upto}
                g = x.features.get('gradient')
                if g is None or len(g) != n:
                    fail("no gradient of length n stored in features['gradient']", case, "gradient_missing", **where)
                    continue
                if nsucc.get(id(x), 0) != 1 or len(x.costs) != m:
                    fail("design evaluated %d times, %d cost entries (required 1 and %d)" % (nsucc.get(id(x), 0), len(x.costs), m),
                         case, "gradient_design_eval", **where)
                    continue
                vf = final_vector_ok(case, A, x, v0, where, "gradient")
                if vf is None:
                    continue
                where = dict(where, final_vector=vf, own_failed_calls=nfail.get(id(x), 0))
                if len(x.children) != n:
                    fail("%d displaced designs (required n = %d)" % (len(x.children), n), case, "gradient_children_count", **where)
                    continue
                fx = ret[id(x)][0]
                ok, redrawn = True, []
                for i, ch in enumerate(x.children):
                    cv = vkey(ch.vector)
                    w = stepped(vf, i)
                    if nsucc.get(id(ch), 0) != 1:
                        fail("displaced design %d evaluated %d times (required once)" % (i, nsucc.get(id(ch), 0)), case, "gradient_calls", **where)
                        ok = False
                        continue
                    if nfail.get(id(ch), 0):
                        # F13: re-drawn after a failure of its own evaluation; created at x + 1e-4 e_i, now where Job put it
                        if vkey(A["first"][id(ch)]) != vkey(w) or A["reroll"].get(id(ch)) is None or cv != vkey(A["reroll"][id(ch)]):
                            fail("displaced design %d failed %d time(s): created at %r (required %r), now at %r, Job re-drew it to %r"
                                 % (i, nfail[id(ch)], list(A["first"][id(ch)]), w, list(ch.vector), A["reroll"].get(id(ch))),
                                 case, "gradient_child_vector", **where)
                            ok = False
                            continue
                        redrawn.append(i)
                    elif cv != vkey(w):
                        if nfail.get(id(x), 0) and vkey(v0) != vkey(vf) and cv == vkey(stepped(v0, i)):
                            fail("the design's own evaluation failed and Job re-drew it from %r to %r, but displaced design %d is %r = abandoned "
                                 "position + 1e-4 e_%d: gradient[%d] = %r mixes the two positions" % (v0, vf, i, list(ch.vector), i, i, float(g[i])),
                                 case, "gradient_design_rerolled", **where)
                        else:
                            fail("objective never evaluated at x + 1e-4 e_%d = %r for the stored design x = %r (displaced design %d is %r)"
                                 % (i, w, vf, i, [float(t) for t in ch.vector]), case, "gradient_step", **where)
                        ok = False
                        continue
                    want = (ret[id(ch)][0] - fx) / DELTA
                    if not close(g[i], want):
                        fail("gradient[%d] = %r, forward difference (f(x + 1e-4 e_i) - f(x)) / 1e-4 of the first objective = %r" % (i, float(g[i]), float(want)),
                             case, "gradient_value", **where)
                        ok = False
                if ok and redrawn and id(x) not in f13_reported:
                    f13_reported.add(id(x))
                    hist["f13_designs"] += 1
                    i = redrawn[0]
                    fail("displaced design %d of the design %r was created at x + 1e-4 e_%d, its own evaluation failed %d time(s) and Job re-drew it to "
                         "%r: gradient[%d] = %r is (f(that point) - f(x)) / 1e-4 (everything else about the design is right)"
                         % (i, vf, i, nfail[id(x.children[i])], [float(t) for t in x.children[i].vector], i, float(g[i])),
                         case, "gradient_child_rerolled", neighbour=i, **where)
        total = sum(len(b) for b in submitted[:upto + 1])
        good = sum(nsucc.values())
        if good != len(done_once) + n * total:
            fail("%d successful objective calls for %d designs and %d submissions (required 1 per design + n per submission = %d)"
                 % (good, len(done_once), total, len(done_once) + n * total), case, "gradient_budget", after_batch=upto)

    def oracle_proc(case, proc, submitted):
        seen = {}
        for r, lst in enumerate(proc):
            for o in lst:
                seen.setdefault(id(o), []).append(r)
        subs = {}
        for bi, batch in enumerate(submitted):
            for (x, v0) in batch:
                subs.setdefault(id(x), []).append(bi)
        for bi, batch in enumerate(submitted):
            for di, (x, v0) in enumerate(batch):
                if seen.get(id(x), []) != subs[id(x)]:
                    fail("design submitted in batches %r post-processed by run() call(s) %r (required: exactly in the batches it is submitted in)"
                         % (subs[id(x)], seen.get(id(x), [])),
                         case, "worstcase_reprocess" if case["wc"] else "gradient_reprocess", batch=bi, design=di, vector=v0)
                    return

    import artap.job as ajob
    REAL_VN = ajob.VectorAndNumbers
    current = [None]

    class VNProxy:
        """harness-side recording of Job's re-draw (job.py calls VectorAndNumbers.gen_vector(parameters))"""
        @staticmethod
        def gen_vector(parameters):
            v = REAL_VN.gen_vector(parameters)
            if current[0] is not None:
                current[0].rerolls.append([float(t) for t in v])
            return v

        def __getattr__(self, name):
            return getattr(REAL_VN, name)

    def implementation(case):
        import contextlib
        import io
        ajob.VectorAndNumbers = VNProxy()
        try:
            with contextlib.redirect_stdout(io.StringIO()):      # Job prints "Job: error: ..." for every handled failure
                if case.get("procs", 1) > 1:
                    with contextlib.redirect_stderr(io.StringIO()):      # joblib's progress lines (verbose=1)
                        return implementation_(case)
                return implementation_(case)
        finally:
            ajob.VectorAndNumbers = REAL_VN
            current[0] = None

    def represent(case, v):
        """the design vector v (floats; integral where the case says 'i') in the representation of the case"""
        rep, types = case["flags"].get("rep", "float"), case.get("types") or ["f"] * len(v)
        out = []
        for t, ty in zip(v, types):
            if ty == "i":
                if float(t) != int(t):
                    raise AssertionError("harness: non-integral value for an int coordinate")
                out.append(np.int64(int(t)) if rep.startswith("np") else int(t))
            else:
                out.append(np.float64(t) if rep.startswith("np") else float(t))
        return out

    def apply_stage(problem, case, st):
        """re-parametrise the problem the way a user does between two stages of a study"""
        old = problem.parameters
        k = len(old)

        def newdict(i):
            d = dict(old[i])
            d['tol'] = tol_value(case, st["tols"][i])
            if st.get("bounds"):
                d['bounds'] = list(st["bounds"][i])
            return d
        how = st["how"]
        if how == "rebind":                          # a new list of new dicts
            problem.parameters = [newdict(i) for i in range(k)]
        elif how == "slice":                         # the same list object, new dicts
            problem.parameters[:] = [newdict(i) for i in range(k)]
        else:
            if how == "rebind_same_dicts":           # a new list of the same dict objects, which are then edited
                problem.parameters = list(old)
            elif how != "inplace":
                raise ValueError(how)
            if len(set(id(q) for q in old)) < k:     # one dict object stands for several axes: give every axis its own
                for i in range(k):
                    problem.parameters[i] = newdict(i)
            else:
                for i in range(k):
                    old[i]['tol'] = tol_value(case, st["tols"][i])
                    if st.get("bounds"):
                        old[i]['bounds'] = list(st["bounds"][i])

    def implementation_(case):
        n, m = case["n"], case["m"]
        stages = case.get("stages") or []
        del signed_rec[:]
        problem = Prob(case=case)
        current[0] = problem
        pyrandom.seed(case["seed"])          # gen_vector (Job's re-draw) uses the global generator
        et = EvaluatorType.WORST_CASE if case["wc"] else EvaluatorType.GRADIENT
        submitted, proc = [], []
        raised = None
        second = case.get("second")
        et_other = EvaluatorType.GRADIENT if case["wc"] else EvaluatorType.WORST_CASE
        alg2 = None
        if second in ("before", "before_other", "alternate"):
            alg2 = Direct(problem, evaluator_type=et_other if second == "before_other" else et)
        if case["mode"] == "direct":
            alg = Direct(problem, evaluator_type=et)
        else:
            alg = (EpsMOEA if case["mode"] == "EpsMOEA" else NSGAII)(problem, evaluator_type=et)
            alg.options['max_population_number'] = case["gens"]
            alg.options['max_population_size'] = case["pop"]
            alg.options['verbose_level'] = 0
        if second in ("after", "after_other"):
            alg2 = Direct(problem, evaluator_type=et_other if second == "after_other" else et)
        for a in (alg, alg2):
            if a is not None and case.get("procs", 1) > 1:
                a.options['max_processes'] = case["procs"]
        ev = alg.evaluator
        # "alternate": even batches go through the evaluator built second, odd ones through the one built first (two evaluator
        # objects of one type on one problem; their work lists are empty between batches, so the model's single pair of lists is both)
        algs = [alg, alg2] if second == "alternate" else [alg]
        evs = [a.evaluator for a in algs] + ([alg2.evaluator] if alg2 is not None and second != "alternate" else [])

        def wrap_run(e):
            orig_run = e.run

            def run_rec():
                proc.append(list(e.individuals))
                orig_run()
            e.run = run_rec
        for e in evs:
            wrap_run(e)
        oracle = oracle_wc if case["wc"] else oracle_grad
        # cells in the order the model creates them: the designs of a batch when the algorithm creates them, the
        # children when add() creates them (numbered right after each evaluate call: a design that is submitted again
        # drops its earlier children, which stay in the heap)
        number, order, idss = {}, [], []

        def number_new(objs):
            for x in objs:
                if id(x) not in number:
                    number[id(x)] = len(order)
                    order.append(x)

        def after_batch(before, inds):
            for x in before:
                number_new(x.children)
            idss.append([number.get(id(x), 999999) for x in inds])     # the caller's list after the call: must be unchanged
        import copy
        params0 = [copy.deepcopy(problem.parameters)]
        params_changed = []

        def stage(bi):
            """what the user does to problem.parameters right before the evaluate() call number bi (all evaluator objects exist)"""
            if bi < len(stages) and stages[bi]:
                apply_stage(problem, case, stages[bi])
                params0[0] = copy.deepcopy(problem.parameters)

        def check_params(bi):
            if problem.parameters != params0[0] and not params_changed:
                params_changed.append(bi)
                ctx.mismatches.append({"what": "the evaluator modified problem.parameters (the model's tolerances are those the harness set)",
                                       "correspondence": "c14", "case": {k: case.get(k) for k in ("mode", "wc", "n", "m", "tols", "batches", "stages")},
                                       "batch": bi, "before": params0[0], "after": copy.deepcopy(problem.parameters)})
        if case["mode"] == "direct":
            created = []
            resubmits = any(case["again"])
            plain = Direct(problem, evaluator_type=EvaluatorType.SIMPLE) if any(any(p) for p in case["pre"]) else None
            if plain is not None and case.get("procs", 1) > 1:
                plain.options['max_processes'] = case["procs"]
            shared = []
            for bi, batch in enumerate(case["batches"]):
                stage(bi)
                if case["flags"]["id_collide"]:
                    Individual.counter = 0           # ids collide between batches and with earlier children
                new = [Individual(np.array(v, dtype=np.float64) if case["flags"]["vec_numpy"] else represent(case, v)) for v in batch]
                number_new(new)
                if plain is not None:
                    todo = [x for x, flag in zip(new, case["pre"][bi]) if flag]
                    if todo:
                        plain.evaluate(todo)         # evaluated elsewhere first: state EVALUATED, m costs, never post-processed
                inds = shared if case["flags"]["reuse_list"] else []
                del inds[:]                          # the same list object, refilled in place, for every call
                inds.extend(new + [created[k] for k in case["again"][bi]])
                before = list(inds)
                created.extend(new)
                submitted.append([(x, [float(t) for t in x.vector]) for x in before])
                try:
                    algs[bi % len(algs)].evaluate(inds)
                except IndexError as e:
                    raised = "IndexError"
                    break
                after_batch(before, inds)
                check_params(bi)
                oracle(case, problem, submitted, bi, n, m)
        else:
            resubmits = False
            orig_eval = ev.evaluate
            resub = []

            def eval_rec(inds):
                for x in inds:
                    if x.state != Individual.State.EMPTY:
                        resub.append(x)
                before = list(inds)
                number_new(before)
                if submitted:
                    stage(len(submitted))        # while the algorithm runs: right before a later generation is evaluated
                submitted.append([(x, [float(t) for t in x.vector]) for x in before])
                orig_eval(inds)
                after_batch(before, inds)
                check_params(len(submitted) - 1)
                oracle(case, problem, submitted, len(submitted) - 1, n, m)
            ev.evaluate = eval_rec
            pyrandom.seed(case["seed"])
            np.random.seed(case["seed"] % (2 ** 32))
            stage(0)                             # after the algorithm (and its evaluator) was built, before run()
            alg.run()
            if resub:
                raise AssertionError("the algorithm submitted an already evaluated Individual: outside the model")
            case["batches"] = [[v for (_, v) in b] for b in submitted]
            case["again"] = [[] for _ in submitted]
            case["pre"] = [[False] * len(b) for b in submitted]
            if stages:
                case["stages"] = (list(stages) + [None] * len(submitted))[:len(submitted)]      # those that were applied
        if raised is None:
            oracle_proc(case, proc, submitted)
            if any(len(e.individuals) != 0 or len(e.to_evaluate) != 0 for e in evs):
                fail("work lists not empty between batches: %r individuals, %r to_evaluate (per evaluator object)"
                     % ([len(e.individuals) for e in evs], [len(e.to_evaluate) for e in evs]),
                     case, "worstcase_reprocess" if case["wc"] else "gradient_reprocess")
        UNKNOWN = 999999

        def cell(x):
            g = x.features.get('gradient')
            s = x.features.get('sensitivity')
            return {"fail": sum(1 for (ind, _, _, failed) in problem.calls if failed and ind is x),
                    "vec": [num(t) for t in x.vector], "costs": [num(t) for t in x.costs],
                    "signed": [bool(t) if isinstance(t, (bool, np.bool_)) else num(t) for t in x.costs_signed],
                    "evaluated": x.state == Individual.State.EVALUATED,
                    "parents": [number.get(id(p), UNKNOWN) for p in x.parents],
                    "children": [number.get(id(c), UNKNOWN) for c in x.children],
                    "sens": None if s is None else num(s), "grad": None if g is None else [num(t) for t in g]}
        table, seen = [], set()
        for (v, c, sc) in signed_rec:
            key = tuple(bits(t) for t in v)
            if key in seen:
                continue
            seen.add(key)
            table.append(([num(t) for t in v], [num(t) for t in c], [num(t) for t in sc[:-1]], bool(sc[-1])))
        kinds0 = set(type(c[0]) is float for (_, _, c, failed) in problem.calls if not failed)
        if len(kinds0) > 1:
            raise AssertionError("first objective returns exact floats for some vectors and other numbers for others")
        case["comp"] = kinds0 == {True}
        obs = None if raised else {
            "cells": [cell(x) for x in order], "log": [[num(t) for t in v] for (_, v, _, _) in problem.calls],
            "proc": [[number.get(id(o), UNKNOWN) for o in lst] for lst in proc],
            "n_inds": sum(len(e.individuals) for e in evs), "n_todo": sum(len(e.to_evaluate) for e in evs), "idss": idss}
        failed_calls = [k for k, (_, _, _, failed) in enumerate(problem.calls) if failed]
        case["tape"] = [[k, w] for k, w in zip(failed_calls, problem.rerolls)]
        if len(failed_calls) != len(problem.rerolls):
            raise AssertionError("%d failed objective calls, %d re-draws through gen_vector" % (len(failed_calls), len(problem.rerolls)))
        problem.cleanup()
        problem.working_dir = ""
        return obs, table

    def enc_vec(v):
        return ll(v, fl)

    def enc_sv(t):
        return "(SB %s)" % bl(t) if isinstance(t, bool) else "(SV %s)" % fl(t)

    def enc_cell(c):
        return pl(enc_vec(c["vec"]), enc_vec(c["costs"]), ll(c["signed"], enc_sv), bl(c["evaluated"]), ll(c["parents"], nl),
                  ll(c["children"], nl), optl(c["sens"], fl), optl(c["grad"], enc_vec), nl(c["fail"]))

    def encode(case, obs, table):
        # the tolerances at the time of each evaluate() call; one list for all of them = the constant-tolerance runs of the theorems
        tolss = [[float(t) for t in tols_at(case, bi)] for bi in range(len(case["batches"]))] if case.get("stages") else []
        tols0 = [float(t) for t in (tolss[0] if tolss else case["tols"])]
        if not case["wc"] or all([bits(t) for t in tl] == [bits(t) for t in tols0] for tl in tolss):
            tolss = []
        c = "{| c_wc := %s; c_comp := %s; c_m := %s; c_tols := %s; c_tolss := %s; c_table := %s; c_batches := %s; c_again := %s; c_pre := %s; c_fails := %s |}" % (
            bl(case["wc"]), bl(case["comp"]), nl(case["m"]), enc_vec(tols0), ll(tolss, enc_vec),
            ll(table, lambda t: pl(enc_vec(t[0]), enc_vec(t[1]), enc_vec(t[2]), bl(t[3]))),
            ll(case["batches"], lambda b: ll(b, enc_vec)), ll(case["again"], lambda l: ll(l, nl)),
            ll(case["pre"], lambda l: ll(l, bl)), ll(case["tape"], lambda kw: pl(nl(kw[0]), enc_vec(kw[1]))))
        if obs is None:
            return c, "None"
        e = "(Some %s)" % pl(ll(obs["cells"], enc_cell), ll(obs["log"], enc_vec), ll(obs["proc"], lambda l: ll(l, nl)),
                              nl(obs["n_inds"]), nl(obs["n_todo"]), ll(obs["idss"], lambda l: ll(l, nl)))
        return c, e

    cases, expected, meta = [], [], []
    hist = {"worst_case": 0, "gradient": 0, "batches": {}, "designs_per_case": {}, "n": {}, "m": {}, "objective_kinds": {},
            "algorithm_runs": {}, "objective_calls": 0, "cells": 0, "raised_index_error": 0, "zero_sensitivity": 0,
            "nonfinite_values": 0, "duplicate_vectors_in_case": 0,
            "resubmission_cases": 0, "pre_evaluated_cases": 0, "flags": {}, "design_vector_representation": {},
            "cases_with_transient_failures": 0, "failed_calls": 0, "failure_runs_by_length": {}, "failed_calls_on_designs": 0,
            "failed_calls_on_neighbours": 0, "f13_designs": 0,
            "cases_with_colliding_names": 0, "user_objective_names": {}, "cases_with_duplicate_names": 0,
            "cases_with_a_user_objective_named_sensitivity": 0, "second_evaluator": {},
            "cases_with_problem_parameters_changed_after_construction": 0, "parameters_changed_how": {}, "parameters_changed_before_batch": {},
            "cases_with_tolerances_differing_between_batches": 0, "cases_with_tolerances_differing_from_construction": 0,
            "parallel_oracle_only_cases": 0}

    def bump(d, k):
        d[str(k)] = d.get(str(k), 0) + 1

    def add(case):
        try:
            obs, table = implementation(case)
        except Exception as e:      # not behaviour of the unchanged code: reported, and the other cases are still compared
            import traceback
            ctx.count(None, nontrivial=False)
            if len(ctx.mismatches) < 20:
                ctx.mismatches.append({"what": "the implementation raised %r on a case the model completes" % (e,), "correspondence": "c14",
                                       "case": {k: case.get(k) for k in ("mode", "wc", "n", "m", "tols", "objs", "batches", "again", "pre", "flags", "seed", "pop", "gens", "names", "second", "stages", "procs")},
                                       "traceback": traceback.format_exc()[-1500:]})
            return
        if case.get("stages"):
            hist["cases_with_problem_parameters_changed_after_construction"] += 1
            tag = ("/parallel" if case.get("procs", 1) > 1 else "") + ("/worst_case" if case["wc"] else "/gradient")
            for bi, st in enumerate(case["stages"]):
                if st:
                    bump(hist["parameters_changed_how"], st["how"] + ("+bounds" if st.get("bounds") else "") + tag)
                    bump(hist["parameters_changed_before_batch"], bi)
            tl = [tols_at(case, bi) for bi in range(len(case["batches"]))]
            hist["cases_with_tolerances_differing_between_batches"] += any(t != tl[0] for t in tl)
            hist["cases_with_tolerances_differing_from_construction"] += any(t != case["tols"] for t in tl)
        if case.get("procs", 1) > 1:
            # parallel evaluation (threads): the order of the objective calls is not determined, so these cases are judged by the
            # direct oracle only (it ran after every batch inside implementation()); the model is the serial evaluator
            hist["parallel_oracle_only_cases"] += 1
            ctx.count(("parallel", case["wc"], case["n"], case["m"], tuple(case["tols"]), repr(case.get("stages")),
                       tuple(tuple(tuple(v) for v in b) for b in case["batches"])), nontrivial=(len(case["batches"]) >= 2 and obs is not None))
            return
        c, e = encode(case, obs, table)
        cases.append(c)
        expected.append(e)
        mt = {k: case[k] for k in ("mode", "wc", "n", "m", "tols", "objs", "criteria", "batches", "again", "pre", "flags", "types", "fails", "tape")}
        mt["names"], mt["second"], mt["stages"] = case.get("names"), case.get("second"), case.get("stages")
        for k in ("pop", "gens", "seed"):
            if k in case:
                mt[k] = case[k]
        if obs is not None:
            mt["observed"] = {"cost_lengths": [len(cl["costs"]) for cl in obs["cells"][:12]], "calls": len(obs["log"]),
                              "work_lists": [obs["n_inds"], obs["n_todo"]]}
        meta.append(mt)
        nd = sum(len(b) for b in case["batches"])
        hist["worst_case" if case["wc"] else "gradient"] += 1
        bump(hist["batches"], len(case["batches"]))
        bump(hist["designs_per_case"], nd)
        bump(hist["n"], case["n"])
        bump(hist["m"], case["m"])
        for o in case["objs"]:
            bump(hist["objective_kinds"], o["kind"])
        tape_ks = [k for k, _ in case["tape"]]
        if tape_ks:
            hist["cases_with_transient_failures"] += 1
            hist["failed_calls"] += len(tape_ks)
            run = 0
            for k in tape_ks:
                run = run + 1 if (k - 1) in tape_ks else 1
                if (k + 1) not in tape_ks:
                    bump(hist["failure_runs_by_length"], run)
            if obs is not None:
                kids = set(c for cl in obs["cells"] for c in cl["children"])
                for ci, cl in enumerate(obs["cells"]):
                    hist["failed_calls_on_neighbours" if (ci in kids or cl["parents"]) else "failed_calls_on_designs"] += cl["fail"]
        hist["resubmission_cases"] += any(case["again"])
        if case.get("names"):
            hist["cases_with_colliding_names"] += 1
            for nm in sorted(set(case["names"])):
                bump(hist["user_objective_names"], repr(nm) + ("/worst_case" if case["wc"] else "/gradient"))
            hist["cases_with_duplicate_names"] += len(set(case["names"])) < len(case["names"])
            hist["cases_with_a_user_objective_named_sensitivity"] += "sensitivity" in case["names"]
        if case.get("second"):
            bump(hist["second_evaluator"], case["second"] + ("/worst_case" if case["wc"] else "/gradient"))
        hist["pre_evaluated_cases"] += any(any(p) for p in case["pre"])
        for k, v in case["flags"].items():
            if k == "rep":
                bump(hist["design_vector_representation"], ("float ndarray" if case["flags"]["vec_numpy"] else v) + ("/worst_case" if case["wc"] else "/gradient"))
            elif v:
                bump(hist["flags"], k)
        if case["mode"] != "direct":
            bump(hist["algorithm_runs"], case["mode"] + ("/worst_case" if case["wc"] else "/gradient"))
            hist["algorithm_runs_with_failed_calls"] = hist.get("algorithm_runs_with_failed_calls", 0) + bool(tape_ks)
        if obs is None:
            hist["raised_index_error"] += 1
        else:
            hist["objective_calls"] += len(obs["log"])
            hist["cells"] += len(obs["cells"])
            hist["zero_sensitivity"] += sum(1 for cl in obs["cells"] if cl["sens"] == 0.0)
            hist["nonfinite_values"] += sum(1 for cl in obs["cells"] for t in cl["costs"] if math.isnan(t) or math.isinf(t))
            vs = [tuple(v) for b in case["batches"] for v in b]
            hist["duplicate_vectors_in_case"] += len(vs) != len(set(vs))
        key = (case["mode"], case["wc"], case["n"], case["m"], tuple(case["tols"]),
               tuple((o["kind"], tuple(o["a"]), o["b"]) for o in case["objs"]),
               tuple(tuple(tuple(v) for v in b) for b in case["batches"]), tuple(tuple(a) for a in case["again"]), tuple(tuple(a) for a in case["pre"]),
               tuple(tape_ks), tuple(case.get("names") or ()), case.get("second"), repr(case.get("stages")))
        ctx.count(key, nontrivial=(len(case["batches"]) >= 2 and obs is not None))
        if len(case["batches"]) == 2 and nd <= 3 and case["mode"] == "direct" and obs is not None and not any(case["again"]):
            ctx.sample(mt, limit=3)

    rng = ctx.rng
    # corpus: boundary cases read off the code
    q1 = [{"kind": "quad", "a": [1.0, 0.5, 2.0], "b": 0.0}]
    q2 = q1 + [{"kind": "lin", "a": [1.0, -1.0, 0.5], "b": 1.0}]
    corpus = [
        {"wc": True, "n": 2, "m": 2, "tols": [0.25, 0.5], "objs": q2, "batches": [[[0.1, 0.2], [0.3, 0.4]], [[0.5, 0.6]]]},   # F2's shape
        {"wc": True, "n": 1, "m": 1, "tols": [0.1], "objs": q1, "batches": [[[0.5]], [[0.5]], [[0.5]], [[0.5]]]},             # same vector, four batches
        {"wc": True, "n": 1, "m": 1, "tols": [0.0], "objs": q1, "batches": [[[0.5], [-0.0]], [[0.0]]]},                       # zero tolerance, signed zeros
        {"wc": True, "n": 3, "m": 1, "tols": [0.25, 0.5, 1.0], "objs": [{"kind": "const", "a": [0.0], "b": 2.0}],
         "batches": [[[0.0, 0.0, 0.0]], [[1.0, 1.0, 1.0], [0.0, 0.0, 0.0]]]},                                                 # zero sensitivity
        {"wc": True, "n": 2, "m": 2, "tols": [0.25, 0.25], "objs": q2, "batches": [[], [[0.5, 0.5]], []]},                    # empty batches
        {"wc": True, "n": 2, "m": 1, "tols": [0.5, 0.5], "objs": [{"kind": "huge", "a": [1.0, 1.0], "b": 1.0}],
         "batches": [[[1.0, 1.0]], [[-0.5, 0.25]]]},                                                                          # inf / nan
        {"wc": False, "n": 2, "m": 2, "tols": [0.25, 0.5], "objs": q2, "batches": [[[0.1, 0.2], [0.3, 0.4]], [[0.5, 0.6]]]},
        {"wc": False, "n": 1, "m": 1, "tols": [0.1], "objs": q1, "batches": [[[0.5]], [[0.5]], [[0.5001]]]},
        {"wc": False, "n": 3, "m": 1, "tols": [0.1, 0.1, 0.1], "objs": [{"kind": "step", "a": [0.0], "b": 0.0}],
         "batches": [[[0.25, 0.25, 0.25], [0.1, 0.2, 0.30000000000000004]]]},
        {"wc": False, "n": 2, "m": 1, "tols": [0.1, 0.1], "objs": q1, "batches": [[[0.5, 0.5]], []]},                         # IndexError in run()
        {"wc": False, "n": 1, "m": 2, "tols": [0.1], "objs": q2, "batches": [[[1e300]], [[-1e300]]]},
        # an evaluated design handed to evaluate() again (C14_worstcase_cost_shape / _processing_and_calls, model wc_hist): the
        # sensitivity entry is overwritten from the second time on (F11 repaired; before the fix it was appended the second time)
        {"wc": True, "n": 1, "m": 1, "tols": [0.25], "objs": q1, "batches": [[[0.5]], [], [], []], "again": [[], [0], [0], [0]]},
        {"wc": True, "n": 2, "m": 2, "tols": [0.25, 0.5], "objs": q2, "batches": [[[0.1, 0.2], [0.3, 0.4]], [[0.5, 0.6]], [[0.0, 0.0]]],
         "again": [[], [1], [0, 1, 2]]},
        {"wc": False, "n": 2, "m": 1, "tols": [0.1, 0.1], "objs": q1, "batches": [[[0.5, 0.5]], [[0.1, 0.2]], []], "again": [[], [0], [0, 1]]},
    ]
    OFF = {"vec_numpy": False, "reuse_list": False, "shared_param": False, "constr": False, "id_collide": False, "rep": "float", "int_params": False}
    corpus += [
        # designs evaluated by a plain Evaluator before they are submitted; numpy vectors; one list object re-used for every
        # call; one parameter dict shared by all axes; constraint (feasibility flag varies); colliding ids; vectors whose
        # hashes collide (-1.0 / -2.0) or that are `==` for Individual.__eq__ (0.5 / 0.5 + 1e-11)
        {"wc": True, "n": 2, "m": 2, "tols": [0.25, 0.25], "objs": q2, "batches": [[[0.5, 0.5], [0.1, 0.2]], [[0.5, 0.5]]],
         "pre": [[True, False], [True]], "flags": dict(OFF, shared_param=True)},
        {"wc": False, "n": 2, "m": 1, "tols": [0.1, 0.1], "objs": q1, "batches": [[[0.5, 0.5], [0.1, 0.2]], [[0.3, 0.3]]],
         "pre": [[False, True], [False]], "flags": dict(OFF, reuse_list=True)},
        {"wc": True, "n": 2, "m": 1, "tols": [1.0, 1e-11], "objs": [{"kind": "hash", "a": [0.0], "b": 1.0}],
         "batches": [[[-1.0, 0.5], [-2.0, 0.50000000001]], [[-1.0, 0.50000000001], [-2.0, 0.5]]],
         "flags": dict(OFF, reuse_list=True, id_collide=True)},
        {"wc": True, "n": 3, "m": 2, "tols": [0.5, 0.5, 0.5], "objs": q2, "batches": [[[0.1, 0.2, 0.4]], [[1.0, 0.0, -1.0], [0.1, 0.2, 0.4]]],
         "flags": dict(OFF, vec_numpy=True, shared_param=True, constr=True)},
        {"wc": False, "n": 2, "m": 2, "tols": [0.5, 0.5], "objs": q2, "batches": [[[0.1, 0.2]], [[1.0, 0.0], [0.1, 0.2]]],
         "flags": dict(OFF, vec_numpy=True, constr=True, id_collide=True)},
    ]
    for f in corpus:
        add(gen_case(rng, dict({"flags": OFF, "fails": []}, **dict(f, criteria=["minimize", "maximize"][:f["m"]], ret_numpy=False))))
    # scripted transient failures (global call numbers).  Worst case, one design of 2 parameters: call 0 = the design,
    # calls 1..4 = its neighbours; gradient: call 0 = the design, calls 1..2 = the displaced designs.
    b1 = [[[0.5, 0.25]]]
    b2 = [[[0.5, 0.25], [0.1, 0.2]], [[1.0, -0.5]]]
    failing = [
        {"wc": True, "n": 2, "m": 1, "tols": [0.25, 0.5], "objs": q1, "batches": b1, "fails": [2]},              # F13: a neighbour re-drawn
        {"wc": False, "n": 2, "m": 1, "tols": [0.1, 0.1], "objs": q1, "batches": b1, "fails": [2]},              # F13, gradient form
        {"wc": True, "n": 2, "m": 2, "tols": [0.25, 0.5], "objs": q2, "batches": b1, "fails": [0]},              # the design itself (RT C14/1)
        {"wc": False, "n": 2, "m": 2, "tols": [0.1, 0.1], "objs": q2, "batches": b1, "fails": [0]},              # the design itself (F14)
        {"wc": True, "n": 2, "m": 1, "tols": [0.25, 0.5], "objs": q1, "batches": b1, "fails": [0, 1, 2, 3]},     # four in a row on the design
        {"wc": False, "n": 2, "m": 1, "tols": [0.1, 0.1], "objs": q1, "batches": b1, "fails": [0, 1, 2, 3]},
        {"wc": True, "n": 2, "m": 1, "tols": [0.25, 0.5], "objs": q1, "batches": b1, "fails": [1, 2, 3, 4]},     # four in a row on a neighbour
        {"wc": True, "n": 2, "m": 2, "tols": [0.25, 0.5], "objs": q2, "batches": b2, "fails": [1, 2, 10, 12]},   # second design of batch 0, a neighbour, batch 1
        {"wc": False, "n": 2, "m": 2, "tols": [0.25, 0.5], "objs": q2, "batches": b2, "fails": [1, 2, 8]},
        {"wc": True, "n": 2, "m": 2, "tols": [0.25, 0.5], "objs": q2, "batches": b2, "fails": [0, 3], "again": [[], [0]]},   # failures + resubmission
        {"wc": True, "n": 2, "m": 2, "tols": [0.25, 0.25], "objs": q2, "batches": [[[0.5, 0.5], [0.1, 0.2]], [[0.5, 0.5]]],
         "pre": [[True, False], [True]], "fails": [0, 1], "flags": dict(OFF, shared_param=True)},                              # the plain Evaluator's call fails
        {"wc": False, "n": 2, "m": 1, "tols": [0.1, 0.1], "objs": q1, "batches": [[[0.5, 0.5], [0.1, 0.2]], [[0.3, 0.3]]],
         "pre": [[False, True], [False]], "fails": [0, 2], "flags": dict(OFF, reuse_list=True, constr=True)},
        {"wc": True, "n": 1, "m": 1, "tols": [0.1], "objs": q1, "batches": [[[0.5]], [[0.5]]], "fails": [0, 3],
         "flags": dict(OFF, vec_numpy=True, id_collide=True)},
    ]
    for f in failing:
        add(gen_case(rng, dict({"flags": OFF}, **dict(f, criteria=["minimize", "maximize"][:f["m"]], ret_numpy=False))))
    # red-team round 5 (RT5_C14_2): user objectives named like the names the framework uses itself, both evaluators; a second
    # evaluator object on the same problem (built before / after the evaluating one, of the same / the other type, or used alternately)
    nb2 = [[[0.5, -1.0], [1.5, 0.25]], [[-1.0, 1.0]]]
    for wc in (True, False):
        for names in (["F", "sensitivity"], ["sensitivity", "F"], ["sensitivity", "sensitivity"], ["gradient", "feasible"], ["F", "F"], ["F_10", "F_2"]):
            add(gen_case(rng, {"wc": wc, "n": 2, "m": 2, "tols": [0.05, 0.2], "objs": q2, "batches": nb2, "names": names, "fails": [],
                               "criteria": ["minimize", "maximize"], "ret_numpy": False, "flags": OFF}))
        add(gen_case(rng, {"wc": wc, "n": 1, "m": 1, "tols": [0.25], "objs": q1, "batches": [[[0.5]], [[0.25], [0.5]], [[1.0]]], "names": ["sensitivity"],
                           "fails": [], "criteria": ["minimize"], "ret_numpy": False, "flags": OFF}))
        # ... submitted again, with transient failures, pre-evaluated, with a second evaluator
        add(gen_case(rng, {"wc": wc, "n": 2, "m": 2, "tols": [0.05, 0.2], "objs": q2, "batches": nb2 + [[]], "again": [[], [0], [0, 2]],
                           "names": ["F", "sensitivity"], "fails": [], "criteria": ["minimize", "maximize"], "ret_numpy": False, "flags": OFF}))
        add(gen_case(rng, {"wc": wc, "n": 2, "m": 2, "tols": [0.05, 0.2], "objs": q2, "batches": nb2, "pre": [[True, False], [False]],
                           "names": ["sensitivity", "gradient"], "fails": [0, 4], "criteria": ["maximize", "minimize"], "ret_numpy": False,
                           "flags": dict(OFF, reuse_list=True)}))
        for second in SECONDS:
            add(gen_case(rng, {"wc": wc, "n": 2, "m": 2, "tols": [0.05, 0.2], "objs": q2, "batches": nb2 + [[[0.5, -1.0]]], "second": second, "fails": [],
                               "criteria": ["minimize", "maximize"], "ret_numpy": False, "flags": OFF}))
            add(gen_case(rng, {"wc": wc, "n": 1, "m": 1, "tols": [0.1], "objs": q1, "batches": [[[0.5]], [[0.25]], [[0.5], [1.0]]], "second": second,
                               "names": ["sensitivity"], "fails": [1], "criteria": ["minimize"], "ret_numpy": False, "flags": OFF}))
        # the evaluator built FIRST processes a design again while a second one exists (its self.n is still m + 1)
        add(gen_case(rng, {"wc": wc, "n": 2, "m": 2, "tols": [0.05, 0.2], "objs": q2, "batches": nb2 + [[]], "again": [[], [0], [0, 2]], "second": "after",
                           "names": ["F", "sensitivity"], "fails": [], "criteria": ["minimize", "maximize"], "ret_numpy": False, "flags": OFF}))
    # red-team round 6 (RT6_C14_1): the problem re-parametrised after the algorithm / evaluator exists (two-stage study: coarse, then
    # fine tolerances; binary fractions, so every displaced vector is exact), in every way a user can do it, both evaluators
    sb = [[[1.0, 2.0, -1.5], [-0.5, 0.25, 3.0]], [[2.5, -1.0, 0.5], [0.125, 0.25, 0.375]], [[0.75, -2.0, 1.0]]]
    coarse, fine = [0.5, 0.25, 0.125], [0.03125, 0.0625, 0.015625]
    box2 = [[-5.0, 5.0], [0.0, 10.0], [-1.0, 1.0]]
    q3 = [{"kind": "quad", "a": [1.0, 0.5, 2.0], "b": 0.0}, {"kind": "prod", "a": [1.0, -1.0, 0.5], "b": 1.0}]
    for wc in (True, False):
        base = {"wc": wc, "n": 3, "m": 2, "tols": coarse, "objs": q3, "batches": sb, "fails": [], "criteria": ["minimize", "maximize"],
                "ret_numpy": False, "flags": OFF}
        for how in ("rebind", "rebind_same_dicts", "inplace", "slice"):
            add(gen_case(rng, dict(base, stages=[None, {"how": how, "tols": fine, "bounds": None}, None])))                 # between batches
            add(gen_case(rng, dict(base, stages=[{"how": how, "tols": fine, "bounds": box2}, None, None])))                 # before the first batch
        # rebound to an equal list first, the NEW dicts edited in place one batch later; and back to the coarse tolerances
        add(gen_case(rng, dict(base, stages=[None, {"how": "rebind", "tols": coarse, "bounds": box2}, {"how": "inplace", "tols": fine, "bounds": None}])))
        add(gen_case(rng, dict(base, stages=[{"how": "rebind", "tols": fine, "bounds": None}, {"how": "rebind", "tols": coarse, "bounds": None},
                                             {"how": "slice", "tols": [0.0, 1.0, 2.0 ** -30], "bounds": None}])))
        # a design evaluated under the coarse tolerances is submitted again after the change: its new neighbours use the fine ones
        add(gen_case(rng, dict(base, batches=sb + [[]], again=[[], [0], [1, 2], [0, 3]],
                               stages=[None, {"how": "rebind", "tols": fine, "bounds": None}, None, {"how": "rebind", "tols": coarse, "bounds": box2}])))
        # with transient failures (re-draws use the box of the moment), a re-used batch list, one dict for all axes, a second evaluator
        add(gen_case(rng, dict(base, fails=[0, 3, 16, 17], stages=[None, {"how": "rebind", "tols": fine, "bounds": box2}, None],
                               flags=dict(OFF, reuse_list=True))))
        add(gen_case(rng, dict(base, tols=[0.25, 0.25, 0.25], stages=[None, {"how": "inplace", "tols": fine, "bounds": None}, {"how": "rebind", "tols": coarse, "bounds": None}],
                               flags=dict(OFF, shared_param=True))))
        for second in ("after", "alternate", "before_other"):
            add(gen_case(rng, dict(base, second=second, stages=[None, {"how": "rebind", "tols": fine, "bounds": None}, None])))
        # parallel evaluation (oracle only)
        add(gen_case(rng, dict(base, procs=2, stages=[None, {"how": "rebind", "tols": fine, "bounds": None}, None])))
        add(gen_case(rng, dict(base, procs=3, stages=[{"how": "rebind", "tols": fine, "bounds": box2}, None, {"how": "inplace", "tols": coarse, "bounds": None}],
                               batches=sb + [[]], again=[[], [0], [1, 2], [0, 3]])))
    # candidate finding, recorded and never judged: the evaluator built SECOND on a problem has self.n = m + 2 (both constructors appended
    # the extra cost), so a design it processes a second time gets a second extra entry (m + 2 costs) in the unchanged code
    try:
        pc = gen_case(rng, {"wc": True, "n": 1, "m": 1, "tols": [0.25], "objs": q1, "batches": [[[0.5]]], "fails": [], "criteria": ["minimize"],
                            "ret_numpy": False, "flags": OFF})
        pp = Prob(case=pc)
        Direct(pp, evaluator_type=EvaluatorType.WORST_CASE)
        pa = Direct(pp, evaluator_type=EvaluatorType.WORST_CASE)
        px = Individual([0.5])
        lens = []
        for _ in range(3):
            pa.evaluate([px])
            lens.append(len(px.costs))
        hist["second_evaluator_resubmission_probe"] = {
            "declared_costs": [c['name'] for c in pp.costs], "self_n_of_the_second_evaluator": pa.evaluator.n, "user_objectives": 1,
            "cost_entries_after_1_2_3_submissions_to_the_second_evaluator": lens, "stays_at_user_objectives_plus_one": lens == [2, 2, 2]}
        pp.cleanup()
        pp.working_dir = ""
    except Exception as e:
        hist["second_evaluator_resubmission_probe"] = {"raised": repr(e)}
    # red-team round 2 (RT2_C14_2): every representation of a design vector, both evaluators.  Integral coordinates, negative ones
    # included (an int array truncates x + 1e-4 towards zero: 2 -> 2, -1 -> 0), int and float tolerances, two batches.
    ib = [[[2.0, -1.0], [0.0, 3.0]], [[-2.0, 1.0]]]
    for wc in (False, True):
        for rep, types in (("int", ["i", "i"]), ("mixed", ["i", "f"]), ("mixed", ["f", "i"]), ("npint", ["i", "i"]), ("npfloat", ["f", "f"]),
                           ("npmixed", ["i", "f"]), ("npmixed", ["f", "i"]), ("float", ["f", "f"])):
            add(gen_case(rng, {"wc": wc, "n": 2, "m": 2, "tols": [0.25, 1.0], "objs": q2, "batches": ib, "types": types, "fails": [],
                               "criteria": ["minimize", "maximize"], "ret_numpy": False, "flags": dict(OFF, rep=rep)}))
        add(gen_case(rng, {"wc": wc, "n": 3, "m": 1, "tols": [1.0, 2.0, 0.5], "objs": q1, "batches": [[[1.0, -3.0, 5.0]], [[1.0, -3.0, 5.0], [0.0, 0.0, 0.0]]],
                           "types": ["i", "i", "i"], "fails": [0, 5], "criteria": ["minimize"], "ret_numpy": False,
                           "flags": dict(OFF, rep="int", int_params=True, reuse_list=True)}))      # re-drawn designs are int lists as well
    # an INTEGER ndarray is not among them: numpy truncates the displaced coordinate on assignment in the unchanged code too
    # (neighbour == design, gradient 0 / 30000): outside the assumed domain, probed and recorded, never judged (notes/C14.md)
    hist["integer_ndarray_probe"] = {}
    for wc in (False, True):
        pc = gen_case(rng, {"wc": wc, "n": 2, "m": 1, "tols": [0.25, 1.0], "objs": q1, "batches": [[[2.0, -1.0]]], "fails": [],
                            "criteria": ["minimize"], "ret_numpy": False, "flags": OFF})
        try:
            pp = Prob(case=pc)
            pa = Direct(pp, evaluator_type=EvaluatorType.WORST_CASE if wc else EvaluatorType.GRADIENT)
            px = Individual(np.array([2, -1]))
            pa.evaluate([px])
            got = [[float(t) for t in ch.vector] for ch in px.children]
            hist["integer_ndarray_probe"]["worst_case" if wc else "gradient"] = {
                "design": [2, -1], "neighbours": got, "neighbours_displaced_as_the_property_says":
                got == ([[1.75, -1.0], [2.25, -1.0], [2.0, -2.0], [2.0, 0.0]] if wc else [[2.0001, -1.0], [2.0, -0.9999]])}
            pp.cleanup()
            pp.working_dir = ""
        except Exception as e:
            hist["integer_ndarray_probe"]["worst_case" if wc else "gradient"] = {"raised": repr(e)}
    for _ in range(ctx.pick(450, 6000)):
        add(gen_case(rng))
    for _ in range(ctx.pick(12, 100)):
        add(gen_algo_case(rng))
    # parallel evaluation (max_processes 2..4, joblib threads), both evaluators, no scripted failures (they are addressed by global call
    # number): direct oracle only; most of them with problem.parameters changed after construction
    for _ in range(ctx.pick(24, 200)):
        add(gen_case(rng, {"procs": rng.choice([2, 2, 3, 4]), "fails": [], "p_stages": 0.7}))
    Individual.calc_signed_costs = orig_calc
    logging.disable(logging.NOTSET)

    ctx.coq_compare("c14", HEADER, "c14_case", "c14_obs", "c14_run", "c14_obs_eqb", cases, expected, meta, shard=ctx.pick(40, 300))
    ctx.rule = ("whole evaluator lives: 1..4 (in 7%% of the generated cases 5, 6 or 8) batches of 1..4 fresh designs (vectors from a grid of %d values so that designs, neighbours and "
                "batches share vectors), 1..3 parameters with tolerances from %r, 1..2 user objectives from the families %r with grid "
                "coefficients, pushed through Algorithm.evaluate with EvaluatorType.WORST_CASE / GRADIENT, plus short EpsMOEA / NSGAII runs "
                "with either evaluator (generations = batches) and a hand-written corpus; user objectives named F0, F1, ... or (30%% of the generated "
                "cases, 40%% of the algorithm runs, 30 directed cases) drawn from names the framework uses itself / duplicates / unsorted names "
                "('sensitivity', 'gradient', 'feasible', 'precision', 'F', 'F_10', 'F_2', 'Sensitivity', ''); a second evaluator object built on the "
                "same problem before / after the evaluating one (same or other evaluator type) or used alternately with it (25%% / 30%%, 22 directed "
                "cases); design vectors given as lists of float / of int only / "
                "mixed int and float / of numpy.int64 / numpy.float64 scalars or as float ndarrays (18 directed corpus cases), parameters "
                "declared 'integer' (re-draws are int lists); side streams: evaluated designs submitted again (12%%), "
                "designs evaluated by a plain Evaluator first (10%%), numpy vectors, one re-used batch list object, a shared parameter dict, "
                "an inequality constraint, colliding ids; scripted transient failures of the objective (40%% of the direct cases, 60%% of the "
                "algorithm runs, 13 directed corpus cases: 1..3 runs of 1..4 consecutive global call numbers, on designs and on neighbours, with "
                "resubmission / pre-evaluation / numpy vectors as well); a case is non-trivial when it has at least two "
                "batches and did not raise; distinct = distinct (mode, evaluator, n, m, tolerances, objectives, batches, resubmitted designs, "
                "pre-evaluated designs, failed call numbers); red-team round 6: problem.parameters changed AFTER the algorithm / evaluator objects "
                "were built (30%% of the generated direct cases, 40%% of the algorithm runs, 28 directed cases): before the first batch / before "
                "run() and between batches / generations, by rebinding it to a new list of new dicts (half of the changes), to a new list of the "
                "same dicts edited afterwards, by slice assignment, or by editing the dicts in place, with other tolerances and (half) another box; "
                "the model gets the tolerances current at each evaluate() call; plus 24 (200) generated and 4 directed cases evaluated in parallel "
                "(max_processes 2..4), judged by the direct oracle only"
                % (len(VGRID), TOLS, sorted(set(FAMILIES))))
    hist["f13_reports"] = dict(known_seen)
    ctx.extra.update({"input_distribution": hist})


LEVEL_TEXT = ("Machine-checked Coq theorems over a heap-and-work-list model of Evaluator / WorstCaseEvaluator / GradientEvaluator (repaired code: "
              "F2, F11, F14), for every objective function, every tolerance list, every dimension, every number of objectives, every arithmetic "
              "(abstract operators) and every finite sequence of batches of fresh designs: the 2n neighbours and their displacements and parent "
              "links, the cost vector f(x) ++ [sum |f0(x) - f0(neighbour)|] of length m+1 and the m+2 signed entries after any number of further "
              "batches, empty work lists between batches, each design post-processed by exactly the run() call of its own batch, the exact "
              "objective call log ((1+2n) resp. (1+n) calls per design), and the stored gradient as the forward quotient "
              "(f0(x + 1e-4 e_i) - f0(x)) / 1e-4; the cost shape, the processing log and the call log are also proved for histories in which "
              "batches contain already evaluated designs and designs submitted again (m+1 costs however often a design is processed). "
              "For EVERY schedule of transient objective failures (re-draws by Job; no five in a row) the children / cost-shape / gradient "
              "statements are proved relative to the design's FINAL vector: every neighbour whose own evaluation never failed is at the stated "
              "displacement from it, the extra objective / gradient is computed over the current children, m+1 costs, no re-processing; when "
              "no neighbour's own evaluation failed this is the full statement. "
              "The model is tied to operators.py on every run by evaluating it in Coq (binary64 instance) on generated batch sequences with "
              "scripted transient failures (on designs and on neighbours) and short EpsMOEA / NSGAII runs and comparing every reachable "
              "Individual, the call log, the failure counts and the work lists bit for bit.")
LEVEL_NOTE = ("Trusted: Coq kernel + vm_compute; the hand-written model and the Python harness; Job.evaluate abstracted to its retry loop over a "
              "recorded failure tape (objective and sign conversion as a recorded table). Serial evaluation. OPEN FINDING F13 (not fixed, "
              "KNOWN-FINDING on every run): a neighbour whose own evaluation fails transiently is re-drawn by Job at a random point (C06's "
              "replacement rule), so for such a neighbour the clause 'displaced by plus and minus the tolerance' and the sum / gradient over "
              "displaced designs do not hold; the theorems with failures are exact about it (ghost counter d_fail). Call-log / budget and "
              "resubmission theorems are for runs without failures. The correspondence is sampled, the theorems are unbounded.")
