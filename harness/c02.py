"""C02 - fast non-dominated sorting: correspondence with Model/Fnds.v and direct oracle."""
import math

from harness.core import fl, zl, nl, ll, pl, optl, FLOAT_AXIOMS

PROP = "C02"
THEOREMS = {"Artap.Props.C02": [
    "C02_fnds_rank", "C02_fnds_total", "C02_front1_is_nondominated_set", "C02_same_front_no_domination",
    "C02_fnds_order_independent", "C02_rank_cost_only", "C02_rank_unique", "C02_dominators_spec",
    "C02_fnds_rank_generic", "C02_float_fnds_rank"]}
AXIOMS_OK = FLOAT_AXIOMS
# second tie to the code (tools/py2coq.py + coq/theories/GenProofs): the source of ParetoDominance.compare is translated on every run and proved equal to Model/Dominance.v pareto_compare
from harness.core import translated_specs
# and (heap front-end tools/py2coq_heap.py, phase 5) Selector.individual / fast_nondominated_sorting are translated WHOLE
# (object store per written feature, lists of lists of references) and proved equal to Model/Fnds.v; the id allocation
# of Individual.__init__ (one counter for all classes) is translated and proved to hand out pairwise different ids
TRANSLATED = translated_specs("DominanceGen", "FndsGen", "IdAllocGen")
TRUSTED = [
    "Coq 8.16.1 kernel, vm_compute for model evaluation (no native_compute)",
    "FloatAxioms.ltb_spec / eqb_spec and the primitive float operations (standard library) for the float order instance",
    "hand-written model Model/Fnds.v (tables indexed by position, ids looked up by linear search, Z counters) tied to "
    "Selector.fast_nondominated_sorting by this correspondence run",
    "the comparator inside the sorter is ParetoDominance.compare = Model/Dominance.v pareto_compare (tied to the code by C01 and by the "
    "translated DominanceGen obligation; that self.comparator is a ParetoDominance object for every public construction of a Selector "
    "is sampled by this run, not translated)",
    "feasibility markers modelled as integers (bool/int as produced by artap); float-valued markers not modelled",
]
ASSUMPTIONS = [
    "cost values are non-NaN binary64 floats; Python `<` on them equals PrimFloat.ltb (IEEE-754)",
    "members of the population carry pairwise distinct ids (Individual.counter, shared by all Individual classes; checked on "
    "every generated population: distinct objects that share an id are ranked as distinct members by the model) and cost vectors "
    "of one common length; a population that lists the same Individual object twice, or an individual together with its own "
    "reloaded copy (from_dict keeps the id), is outside the theorem",
    "infinite cost values (+-inf, e.g. a penalty returned by the user's objective) are in scope: they are non-NaN floats",
]

HEADER = ("From Artap Require Import Run.C02Run.\nFrom Coq Require Import List ZArith Floats.\nImport ListNotations.\n"
          "Open Scope float_scope.\n")

SMALL = [0.0, 1.0, 2.0, 3.0]
HALVES = [0.0, 0.5, 1.0, 1.5, 2.0, 2.5, 3.0]
WIDE = [0.0, -0.0, 1.0, -1.0, 2.0, 1.0 + 2 ** -52, 1.0 - 2 ** -53, 1e300, -1e300, 5e-324, 1e-9, 0.1, 0.2,
        0.30000000000000004, 0.3, 7.25, -7.25, math.inf, -math.inf, math.inf, -math.inf]
MARKERS = [True, False, 0, 1, 2, -1, -2]


# ----------------------------------------------------------------------------------------------
# the property's definition, written independently of the code
# ----------------------------------------------------------------------------------------------
def tb_dominates(p, q):
    """textbook constrained Pareto dominance on (objective list, marker): smaller |marker| wins,
    at equal magnitude p dominates q iff p <= q everywhere and p < q somewhere (minimisation)."""
    (pc, pm), (qc, qm) = p, q
    if abs(pm) != abs(qm):
        return abs(pm) < abs(qm)
    return all(a <= b for a, b in zip(pc, qc)) and any(a < b for a, b in zip(pc, qc))


def tb_ranks(pop):
    """rank(x) = 1 if nobody dominates x, else 1 + max rank of the dominators (memoised recursion)."""
    n = len(pop)
    doms = [[j for j in range(n) if tb_dominates(pop[j], pop[i])] for i in range(n)]
    memo = {}

    def rank(i, depth=0):
        if i not in memo:
            if depth > n:
                raise RuntimeError("textbook dominance is cyclic?")
            memo[i] = 1 + max([rank(j, depth + 1) for j in doms[i]], default=0)
        return memo[i]
    return [rank(i) for i in range(n)], doms


# ----------------------------------------------------------------------------------------------
# generators: templates of cost vectors, then markers, then shuffles
# ----------------------------------------------------------------------------------------------
def t_chain(rng, n, m):
    """a domination chain: every next vector is worse in a non-empty subset of coordinates"""
    v = [rng.choice(SMALL) for _ in range(m)]
    out = [list(v)]
    for _ in range(n - 1):
        ks = [k for k in range(m) if rng.random() < 0.6] or [rng.randrange(m)]
        for k in ks:
            v[k] += rng.choice([0.5, 1.0])
        out.append(list(v))
    return out


def t_antichain(rng, n, m):
    if m == 1:
        return [[1.0] for _ in range(n)]      # one objective: incomparable means equal
    rest = [rng.choice(SMALL) for _ in range(m - 2)]
    return [[float(k), float(n - k)] + rest for k in range(n)]


def t_duplicates(rng, n, m):
    base = [[rng.choice(SMALL) for _ in range(m)] for _ in range(max(1, rng.randrange(1, 4)))]
    return [list(rng.choice(base)) for _ in range(n)]


def t_all_equal(rng, n, m):
    v = [rng.choice(HALVES) for _ in range(m)]
    return [list(v) for _ in range(n)]


def t_layers(rng, n, m):
    """anti-chains stacked on top of each other (deep ranks with wide fronts)"""
    if m == 1:
        return [[float(rng.randrange(0, 4))] for _ in range(n)]
    w = rng.choice([2, 3, 4])
    out = []
    for k in range(n):
        layer, pos = divmod(k, w)
        out.append([float(pos + layer), float(w - pos + layer)] + [float(layer)] * (m - 2))
    return out


def t_grid(rng, n, m):
    g = rng.choice([SMALL, SMALL, HALVES, [0.0, 1.0]])
    return [[rng.choice(g) for _ in range(m)] for _ in range(n)]


def t_wide(rng, n, m):
    return [[rng.choice(WIDE) for _ in range(m)] for _ in range(n)]


def t_adjacent(rng, n, m):
    v = [rng.choice([1.0, 0.1, 3.0]) for _ in range(m)]
    out = []
    for _ in range(n):
        out.append([math.nextafter(x, rng.choice([-math.inf, math.inf])) if rng.random() < 0.4 else x for x in v])
    return out


def t_shared_inf(rng, n, m):
    """members that share +inf / -inf in some objectives (a penalty value returned by the user's objective) and differ
    in the others: dominance is decided by the finite coordinates (inf <= inf, not inf - inf)"""
    shared = [rng.choice([math.inf, -math.inf, math.inf, None]) for _ in range(m)]
    if m >= 2 and all(v is not None for v in shared):
        shared[rng.randrange(m)] = None
    if all(v is None for v in shared):
        shared[rng.randrange(m)] = rng.choice([math.inf, -math.inf])
    out = []
    for _ in range(n):
        row = [v if v is not None and rng.random() < 0.85 else rng.choice(SMALL + [math.inf, -math.inf] if v is not None else SMALL)
               for v in shared]
        out.append(row)
    return out


def t_triangle(rng, n, m):
    """the shape of the suite's own test: (j, i+1-j), rank = sum"""
    out = []
    i = 0
    while len(out) < n:
        for j in range(i + 2):
            if len(out) < n:
                out.append([float(j), float(i + 1 - j)] + [0.0] * (m - 2) if m >= 2 else [float(i)])
        i += 1
    return out


TEMPLATES = [("chain", t_chain), ("antichain", t_antichain), ("duplicates", t_duplicates), ("all_equal", t_all_equal),
             ("layers", t_layers), ("grid", t_grid), ("grid", t_grid), ("wide", t_wide), ("adjacent", t_adjacent),
             ("triangle", t_triangle), ("shared_inf", t_shared_inf)]


def gen_markers(rng, n):
    r = rng.random()
    if r < 0.45:
        return "uniform", [True] * n                # what artap produces for unconstrained problems
    if r < 0.55:
        mk = rng.choice(MARKERS)
        return "uniform", [mk] * n
    if r < 0.8:
        return "mixed_bool", [rng.choice([True, False]) for _ in range(n)]
    return "mixed_int", [rng.choice(MARKERS) for _ in range(n)]


def gen_population(rng, nmax):
    name, f = rng.choice(TEMPLATES)
    n = rng.choice([1, 2, 3, 4, 5, 6, 7, 8, 10, 12] if nmax <= 12 else [1, 2, 3, 5, 8, 12, 16, 20, 25, 30, 40])
    n = min(n, nmax)
    m = rng.choice([1, 2, 2, 3, 3, 4])
    costs = f(rng, n, m)
    if rng.random() < 0.25 and n >= 2:     # sprinkle exact duplicates / noise into any template
        for _ in range(rng.choice([1, 2])):
            costs[rng.randrange(n)] = list(costs[rng.randrange(n)])
    mkind, markers = gen_markers(rng, n)
    return name, mkind, [(c, mk) for c, mk in zip(costs, markers)]


# ----------------------------------------------------------------------------------------------
# the sorter under test: every public construction of a Selector (red-team round 4)
SEL_PARAMS = [{'name': 'x_1', 'initial_value': 2.5, 'bounds': [0, 5]}, {'name': 'x_2', 'initial_value': 1.5, 'bounds': [0, 3]}]
EPS_LISTS = [[0.01, 0.01], [0.5], [1.0, 0.1, 2.0], [0.25, 4.0], [1e-6], [3.0, 3.0, 3.0, 3.0], 0.1, [1e3, 1e-3]]


def selector_specs():
    specs = [{"class": "TournamentSelector", "parameters": "empty"},          # first = the stream's long-lived default
             {"class": "TournamentSelector"},
             {"class": "TournamentSelector", "dominance": "ParetoDominance"},
             {"class": "TournamentSelector", "dominance": "ParetoDominance", "epsilons": [0.01, 0.01]},
             {"class": "TournamentSelector", "epsilons": [0.5]},
             {"class": "DummySelector"}, {"class": "CopySelector"}]
    for e in EPS_LISTS:
        specs.append({"class": "TournamentSelector", "dominance": "EpsilonDominance", "epsilons": e})
        specs.append({"class": "TournamentSelector", "dominance": "EpsilonDominance", "epsilons": e, "positional": True})
    return specs


def make_selector(ops, spec):
    cls = getattr(ops, spec["class"])
    params = [] if spec.get("parameters") == "empty" else [dict(p) for p in SEL_PARAMS]
    kw = {}
    if "dominance" in spec:
        kw["dominance"] = getattr(ops, spec["dominance"])
    if "epsilons" in spec:
        kw["epsilons"] = list(spec["epsilons"]) if isinstance(spec["epsilons"], list) else spec["epsilons"]
    if spec.get("positional"):
        return cls(params, kw["dominance"], kw["epsilons"])
    return cls(params, **kw)


def selector_label(spec):
    if spec.get("from"):
        return spec["from"]
    return spec["class"] + ("(%s)" % spec["dominance"] if "dominance" in spec else "") + ("+epsilons" if "epsilons" in spec else "")


def algorithm_selectors():
    """the Selector objects the algorithms of the package build for themselves (constructor, or run() of a tiny job)"""
    import logging
    out = []
    logging.disable(logging.CRITICAL)
    try:
        from artap.problem import Problem

        class _P(Problem):
            def set(self):
                self.parameters = [dict(p) for p in SEL_PARAMS]
                self.costs = [{'name': 'f_1'}, {'name': 'f_2'}]

            def evaluate(self, individual):
                x = individual.vector
                return [x[0] ** 2 + x[1], (x[0] - 2) ** 2 + x[1]]
        import artap.algorithm_swarm as sw
        for name in ("OMOPSO", "SMPSO", "PSOGA"):
            try:
                alg = getattr(sw, name)(_P())
                for attr in ("selector", "offspring_selector"):
                    if getattr(alg, attr, None) is not None:
                        out.append((getattr(alg, attr), {"class": type(getattr(alg, attr)).__name__, "from": "%s.%s" % (name, attr)}))
            except Exception:
                pass
        from artap.algorithm_NSGAII import NSGAII
        from artap.algorithm_genetic import EpsMOEA
        for name, A in (("NSGAII", NSGAII), ("EpsMOEA", EpsMOEA)):
            try:
                alg = A(_P())
                alg.options['max_population_number'] = 1
                alg.options['max_population_size'] = 4
                alg.options['verbose_level'] = 0
                alg.run()
                if getattr(alg, "selector", None) is not None:
                    out.append((alg.selector, {"class": type(alg.selector).__name__, "from": "%s.selector after run()" % name}))
            except Exception:
                pass
    except Exception:
        pass
    finally:
        logging.disable(logging.NOTSET)
    return out


# ----------------------------------------------------------------------------------------------
# start-up scenarios, each in its own fresh interpreter: all id state of all Individual classes is in its initial state,
# seeds / algorithm individuals / reloaded individuals are created block-wise exactly as a run does (no harness tricks)
FRESH_SCRIPT = r"""
import sys, json
import artap.operators as ops
from artap.individual import Individual
from artap.algorithm_NSGAII import IndividualNSGAII
from artap.algorithm_swarm import IndividualSwarm
from artap.algorithm_genetic import IndividualEpsMOEA
C = {"plain": Individual, "nsga2": IndividualNSGAII, "swarm": IndividualSwarm, "epsmoea": IndividualEpsMOEA}
sel = ops.TournamentSelector([])
out = []
for P in json.load(sys.stdin):
    objs = []
    for cname, route, src in P["create"]:
        if route == "copy":
            x = objs[src].copy()
        elif route == "from_dict":
            x = Individual.from_dict(objs[src].to_dict()) if src is not None else Individual.from_dict(C[cname]([0.5, 0.5]).to_dict())
        else:
            x = C[cname]([0.5, 0.5])
        objs.append(x)
    inds = [objs[k] for k in P["order"]]
    for x, row in zip(inds, P["members"]):
        x.costs = list(row[:-1]); x.costs_signed = list(row)
    fronts, real_cd, pos = [], ops.crowding_distance, {id(x): k for k, x in enumerate(inds)}
    def rec_cd(front):
        fronts.append([pos[id(x)] for x in front])
        return real_cd(front)
    ops.crowding_distance = rec_cd
    err = None
    try:
        sel.fast_nondominated_sorting(inds)
    except Exception as e:
        err = repr(e)
    ops.crowding_distance = real_cd
    out.append({"raw": [x.id for x in inds], "classes": [type(x).__name__ for x in inds], "error": err,
                "front": [x.features.get("front_number") for x in inds], "counter": [x.features.get("domination_counter") for x in inds],
                "dominate": [list(x.features.get("dominate") or []) for x in inds], "fronts": fronts})
print("C02FRESH" + json.dumps(out))
"""


# red-team round 5: a population with more fronts than the interpreter's recursion limit (a 1100-deep domination chain), sorted
# in its own interpreter (default recursion limit, shallow call stack) while the main stream runs; oracle-only (closed form)
DEEP_N = 1100
DEEP_SCRIPT = r"""
import sys, json
import artap.operators as ops
from artap.individual import Individual
P = json.load(sys.stdin)
inds = []
for k in P["order"]:
    x = Individual([0.5, 0.5]); x.costs = [float(k), float(k // 2)]; x.costs_signed = x.costs + [P["marker"]]
    inds.append(x)
err = None
try:
    ops.TournamentSelector([]).fast_nondominated_sorting(inds)
except BaseException as e:
    err = repr(e)[:300]
print("C02DEEP" + json.dumps({"error": err, "front": [x.features.get("front_number") for x in inds],
                              "distinct_ids": len({x.id for x in inds})}))
"""


def fresh_scenarios(rng, corpus):
    """creation plans for the fresh interpreters: (create list, population order, members)"""
    plans = []
    shapes = [
        # DoE seeds, then the algorithm's individuals, then designs read back from a store / archive
        [("plain", 3), ("nsga2", 4), ("plain", 3)],
        [("swarm", 3), ("plain", 3), ("epsmoea", 3), ("plain", 2)],
        [("plain", 1), ("nsga2", 1), ("swarm", 1), ("epsmoea", 1)] * 3,
        [("nsga2", 3), ("swarm", 3), ("epsmoea", 3), ("plain", 3)],
    ]
    for shape in shapes:
        plan = []
        for rep in range(3):                    # the first population of a process is the truly fresh one
            create = [(c, "new", None) for c, k in shape for _ in range(k)]
            n0 = len(create)
            for src in rng.sample(range(n0), rng.choice([0, 2, 3])):   # copies / reloaded versions of members (each member
                create.append((None, rng.choice(["copy", "from_dict"]), src))   # reloaded at most once: a reload keeps the id)
            for _ in range(rng.choice([0, 1, 2])):
                create.append((rng.choice(["plain", "nsga2", "swarm", "epsmoea"]), "from_dict", None))
            # a reloaded individual keeps the id of its source: it REPLACES the source in the population
            gone = {src for _, route, src in create if route == "from_dict" and src is not None}
            order = [k for k in range(len(create)) if k not in gone]
            n = len(order)
            if rep:
                rng.shuffle(order)
            kind = rng.choice(["chain", "layers", "grid"])
            if kind == "chain":                 # a chain: every collision of ids has a rank consequence
                costs = [[float(k), float(k // 2)] for k in range(n)]
            elif kind == "layers":
                costs = t_layers(rng, n, 2)
            else:
                costs = t_grid(rng, n, 2)
            mk = rng.choice([True, True, 0])
            members = [list(c) + [mk if rng.random() < 0.9 else False] for c in costs]
            plan.append({"create": create, "order": order, "members": members})
        plans.append(plan)
    return plans


def run(ctx):
    import artap.operators as ops
    from artap.individual import Individual
    from artap.algorithm_NSGAII import IndividualNSGAII
    from artap.algorithm_swarm import IndividualSwarm
    from artap.algorithm_genetic import IndividualEpsMOEA
    rng = ctx.rng
    n_pops = ctx.pick(330, 2600)
    nmax = ctx.pick(12, 40)
    n_shuffles = 4

    # ---- the sorter under test: EVERY public construction of a Selector (red-team round 4) ------------------------------
    # fast_nondominated_sorting is a method of the base class; in the unchanged code every construction the package offers
    # (TournamentSelector with any dominance= / epsilons=, DummySelector, CopySelector, the selectors the algorithms build)
    # sorts with ParetoDominance: dominance= / epsilons= of TournamentSelector configure the binary tournament of select()
    # only.  The model is therefore the Pareto sorter for every one of them.
    sel_stats = {}
    pool = {}

    def selector_for(spec):
        """spec -> (selector object, its description); long-lived per spec (rule 1) or freshly constructed (30 %)"""
        key = json_line(spec)
        if key in pool and rng.random() < 0.7:
            return pool[key]
        pool[key] = make_selector(ops, spec)
        return pool[key]

    SELECTOR_SPECS = selector_specs()
    algo_selectors = []          # filled after the start-up block below (building them creates Individuals)
    selector = make_selector(ops, SELECTOR_SPECS[0])
    assert type(selector.comparator) is ops.ParetoDominance

    def pick_selector():
        r = rng.random()
        if r < 0.25:
            return selector, SELECTOR_SPECS[0]        # ONE default selector for the whole stream, as the algorithms do
        if r < 0.35 and algo_selectors:
            return rng.choice(algo_selectors)
        spec = rng.choice(SELECTOR_SPECS)
        return selector_for(spec), spec

    cases, expected, meta = [], [], []
    stats = {"template": {}, "markers": {}, "size": {}, "objectives": {}, "max_rank": {}, "with_duplicates": 0,
             "with_domination": 0, "with_incomparable_pair": 0, "stale_features": 0, "scrambled_ids": 0,
             "order_checks": 0, "classes": {}, "vectors": {}, "constructed_by": {}, "populations_with_two_or_more_classes": 0,
             "id_collisions": 0, "selector": {}, "tournaments_before_sorting": 0,
             "populations_with_shared_costs_signed_lists": 0, "pairs_sharing_one_costs_signed_list": 0}

    def bump(d, k):
        d[str(k)] = d.get(str(k), 0) + 1

    # ---- construction of the members: every class artap ranks together, every route that makes an Individual ----------
    CLASSES = {"plain": Individual, "nsga2": IndividualNSGAII, "swarm": IndividualSwarm, "epsmoea": IndividualEpsMOEA}
    CNAMES = list(CLASSES)
    step = [0]

    made = {k: 0 for k in CLASSES}

    def burn(skip=None):
        """One construction step creates objects of EVERY class (rotating order; 1 to 3 per class, a bounded random
        walk: no class ever leads the slowest one by more than 5 objects), so that the numbers of objects ever created
        stay close for all classes without being equal: whatever id state the classes keep, members of different
        classes draw their ids from overlapping regions - as in a run seeded from a DoE or merged with an archive, where
        plain seeds and the algorithm's individuals are created alternately.  `skip`: a class of which the caller has
        just created one object itself.  Returns the newest object per class name."""
        step[0] += 1
        if skip:
            made[skip] += 1
        out = {}
        for k in range(4):
            name = CNAMES[(k + step[0]) % 4]
            if name == skip:
                continue
            lead = made[name] - min(made.values())
            # at least one per class (the caller may want it); who is far ahead advances by one only: gaps stay <= 5
            count = 1 if lead >= 4 else rng.choice([1, 2, 2, 3]) if lead == 0 else rng.choice([1, 1, 2, 3])
            for _ in range(count):
                out[name] = CLASSES[name]([0.0])
                made[name] += 1
        return out

    def construct(cname, route, vector, inds):
        if route == "copy_of_member" and inds:        # NSGA-II sorts offsprings + copies: original and copy together
            src = rng.choice(inds)
            x = src.copy()
            burn(skip=next(k for k, c in CLASSES.items() if c is type(src)))
            x.vector = list(vector)
            return x
        proto = burn()[cname]
        proto.vector = list(vector)
        if route == "copy":
            x = proto.copy()
            burn(skip=cname)
        elif route == "from_dict":                     # what a reloaded data store / a second process hands over
            x = Individual.from_dict(proto.to_dict())  # creates a plain Individual and overwrites its id
            burn(skip="plain")
        else:
            x = proto
        return x

    def model_ids_of(raw, base):
        seen, model_ids, fresh = set(), [], max(raw) - base + 1 if raw else 0
        for i in raw:
            if i in seen:
                model_ids.append(fresh)
                fresh += 1
            else:
                seen.add(i)
                model_ids.append(i - base)
        return model_ids, len(seen) < len(raw)

    def implementation(pop, ids_mode, stale, cmode="plain", vmode="costs", chosen=None, twin_of=None):
        """Runs the real sorter on real Individuals; returns the observation (ids relative to the case).
        twin_of: {position j: earlier position i} - member j is a `.copy()` twin of member i (equal costs and marker) and
        SHARES the costs_signed list object of i (IndividualNSGAII.copy, Individual.sync hand the list over by reference)."""
        twin_of = twin_of or {}
        sources = set(twin_of.values())
        selector, spec = chosen or pick_selector()
        tournaments = rng.random() < 0.3
        inds, classes, routes = [], [], []
        one = rng.choice(CNAMES[1:])
        gridv = [[rng.choice([0.0, 0.5, 1.0]) for _ in range(2)] for _ in range(3)]
        for k, (c, mk) in enumerate(pop):
            cname = {"plain": "plain", "one_class": one}.get(cmode) or rng.choice(CNAMES)
            route = "new" if cmode == "plain" and rng.random() < 0.8 else rng.choice(["new", "new", "copy", "from_dict", "copy_of_member"])
            vector = {"costs": [float(v) if math.isfinite(v) else 0.0 for v in c], "same": [0.5, 0.5]}.get(vmode) or rng.choice(gridv)
            if k in sources and k not in twin_of and rng.random() < 0.6:
                cname, route = "nsga2", "new"          # the class whose copy() shares the list
            if k in twin_of:
                src = inds[twin_of[k]]
                assert pop[twin_of[k]] == (c, mk)
                if type(src) is IndividualNSGAII:
                    x = src.copy()                      # shares costs and costs_signed with src
                    burn(skip="nsga2")
                    route = "copy_sharing_costs_signed"
                else:                                   # what Individual.sync does with the lists
                    x = construct(cname, route, vector, inds)
                    x.costs, x.costs_signed = src.costs, src.costs_signed
                    route += "+costs_signed_by_reference"
                assert x is not src and x.costs_signed is src.costs_signed
            else:
                x = construct(cname, route, vector, inds)
                x.costs = list(c)
                x.costs_signed = list(c) + [mk]
            inds.append(x)
            classes.append(type(x).__name__)
            routes.append(route)
        raw = [x.id for x in inds]
        base = min(raw) if raw else 0
        if ids_mode == "scrambled":        # ids need not grow with the position (populations are merged and re-sorted)
            new = rng.sample(range(base, base + 3 * len(inds) + 3), len(inds))
            for x, i in zip(inds, new):
                x.id = i
            raw = new
        # ids handed to the model: the implementation's own ids (relative to the case) when they are pairwise distinct
        # (the theorem's hypothesis, what Individual.counter provides).  Distinct objects sharing an id are NOT merged:
        # the later object gets a fresh id on the model side, so the model ranks per object and every consequence of the
        # collision (wrong counter decremented, dominate lists naming the wrong member) is a difference.
        model_ids, collision = model_ids_of(raw, base)
        if tournaments and len(inds) >= 1:   # the selector has been USED for what dominance= / epsilons= configure, before it sorts
            other = list(inds)
            rng.shuffle(other)
            try:
                selector.fast_nondominated_sorting(other)
                for _ in range(3):
                    selector.select(other)
            except Exception:
                pass                       # the tournament is not C02's subject; the sort proper is reported below
        if stale == "presorted":           # features left by an earlier sort of the same objects in another order
            other = list(inds)
            rng.shuffle(other)
            try:
                selector.fast_nondominated_sorting(other)
            except Exception:
                pass                       # reported by the run proper below
        elif stale == "reloaded":          # the population was sorted, written out and read back (data store, second process):
            try:                           # NEW objects carrying the SAME ids and the features of the first sort
                selector.fast_nondominated_sorting(inds)
            except Exception:
                pass
            reloaded = []
            for x in inds:
                y = Individual.from_dict(x.to_dict())
                burn(skip="plain")
                y.id = x.id
                reloaded.append(y)
            inds = reloaded
            classes = [type(x).__name__ for x in inds]
        elif stale == "recosted":          # the same objects, same order, same selector: sorted once with OTHER costs
            perm = list(range(len(inds)))  # (re-evaluation in place, changed signs, a noisy objective), then the real ones
            rng.shuffle(perm)
            for x, k in zip(inds, perm):
                c, mk = pop[k]
                x.costs, x.costs_signed = list(c), list(c) + [rng.choice([mk, pop[0][1]])]
            try:
                selector.fast_nondominated_sorting(inds)
            except Exception:
                pass
            for x, (c, mk) in zip(inds, pop):
                x.costs, x.costs_signed = list(c), list(c) + [mk]
        elif stale == "garbage":
            for x in inds:
                x.features["domination_counter"] = rng.choice([1, 5, -2])
                x.features["front_number"] = rng.choice([None, 1, 9])
                x.features["dominate"] = [rng.choice(raw)]
        for j, i in sorted(twin_of.items()):   # (a re-evaluation / reload above may have given the twins lists of their own)
            inds[j].costs_signed = inds[i].costs_signed
            assert inds[j] is not inds[i] and inds[j].costs_signed == list(pop[j][0]) + [pop[j][1]]
        fronts = []
        real_cd = ops.crowding_distance
        pos = {id(x): k for k, x in enumerate(inds)}

        def rec_cd(front):
            fronts.append([pos[id(x)] for x in front])     # before crowding_distance sorts the front in place
            return real_cd(front)
        ops.crowding_distance = rec_cd
        try:
            selector.fast_nondominated_sorting(inds)
        finally:
            ops.crowding_distance = real_cd
        return {"ids": model_ids, "raw_ids": [i - base for i in raw], "classes": classes, "routes": routes,
                "id_collision": collision, "selector": dict(spec, tournaments_before=tournaments),
                "shared_lists": sum(inds[j].costs_signed is inds[i].costs_signed for j, i in twin_of.items()),
                "front": [x.features["front_number"] for x in inds],
                "counter": [x.features["domination_counter"] for x in inds],
                "dominate": [[i - base for i in x.features["dominate"]] for x in inds],
                "fronts": fronts}

    def oracle(pop, obs, m, inp0):
        """the property statement evaluated on the implementation's output alone, per object (position), never by id"""
        ranks, doms = tb_ranks(pop)
        fr = obs["front"]
        inp = dict(inp0, observed_front_numbers=fr, required_front_numbers=ranks)
        for i in range(len(pop)):
            if not isinstance(fr[i], int) or isinstance(fr[i], bool):
                ctx.oracle_failures.append({"what": "individual %d is left without a front number (%r); its true Pareto rank is %d" % (i, fr[i], ranks[i]),
                                            "input": inp, "match": {"kind": "unranked", "case": m}})
                return False
        for i in range(len(pop)):
            want = 1 + max([fr[j] for j in doms[i]], default=0)
            if fr[i] != want:
                what = ("individual %d carries front number %d but %s" %
                        (i, fr[i], "nobody dominates it (required 1)" if not doms[i] else
                         "the largest front number among its dominators %r is %d (required %d)" % (doms[i], want - 1, want)))
                ctx.oracle_failures.append({"what": what, "input": inp, "match": {"kind": "rank", "case": m}})
                return False
        # consequences named in the statement (implied by the above; kept as a cross-check of the oracle itself)
        assert fr == ranks
        return True

    def add_case(pop, tname, mkind, ids_mode="real", stale="fresh", cmode="plain", vmode="costs", given=None, chosen=None,
                 twin_of=None):
        inp = {"population_costs_signed": [list(c) + [mk] for c, mk in pop], "ids": ids_mode, "stale_features": stale,
               "classes": cmode, "vectors": vmode}
        if twin_of:
            inp["members_sharing_one_costs_signed_list_object"] = sorted([i, j] for j, i in twin_of.items())
        try:
            if given is not None:          # observed in a fresh interpreter
                inp.update(member_classes=given["classes"], member_ids=given["raw"], created=given["created"])
                if given["error"]:
                    raise RuntimeError(given["error"])
                base = min(given["raw"])
                model_ids, collision = model_ids_of(given["raw"], base)
                obs = {"ids": model_ids, "raw_ids": [i - base for i in given["raw"]], "classes": given["classes"],
                       "routes": [], "id_collision": collision, "front": given["front"], "counter": given["counter"],
                       "dominate": [[i - base for i in l] for l in given["dominate"]], "fronts": given["fronts"]}
            else:
                obs = implementation(pop, ids_mode, stale, cmode, vmode, chosen, twin_of)
            inp.update(member_classes=obs["classes"], member_ids=obs["raw_ids"], constructed_by=obs["routes"],
                       selector=obs.get("selector"))
        except Exception as e:      # the sorter must rank every population; a crash leaves everybody unranked
            ctx.count(None, nontrivial=False)
            ctx.oracle_failures.append({"what": "the sorter raised %r: no individual is ranked" % (e,), "input": inp,
                                        "match": {"kind": "raised", "case": {"template": tname, "n": len(pop)}}})
            return None
        ok = oracle(pop, obs, {"template": tname, "n": len(pop)}, inp)
        try:
            case = ll([pl(nl(i), pl(ll(c, fl), zl(mk))) for i, (c, mk) in zip(obs["ids"], pop)])
            exp = "Some {| o_front := %s; o_counter := %s; o_dominate := %s; o_fronts := %s |}" % (
                ll(obs["front"], lambda v: optl(v, nl)), ll(obs["counter"], zl),
                ll(obs["dominate"], lambda l: ll(l, nl)), ll(obs["fronts"], lambda l: ll(l, nl)))
        except Exception as e:      # an observation the model's types cannot even express (e.g. a negative front number)
            if ok:
                ctx.oracle_failures.append({"what": "observation outside the model's range: %r" % (e,),
                                            "input": dict(inp, observed=obs), "match": {"kind": "range"}})
            ctx.count(None, nontrivial=False)
            return obs
        m = {"template": tname, "markers": mkind, "ids": ids_mode, "stale_features": stale, "classes": cmode, "vectors": vmode,
             "population": [{"id": i, "class": k, "costs_signed": list(c) + [mk]}
                            for i, k, (c, mk) in zip(obs["raw_ids"], obs["classes"], pop)],
             "observed": obs}
        if twin_of:
            m["members_sharing_one_costs_signed_list_object"] = inp["members_sharing_one_costs_signed_list_object"]
            stats["populations_with_shared_costs_signed_lists"] += 1
            stats["pairs_sharing_one_costs_signed_list"] += obs.get("shared_lists", 0)
        if obs["id_collision"]:
            stats["id_collisions"] += 1
            m["note"] = "distinct Individual objects of this population carry the same id (the model ranks per object)"
        cases.append(case)
        expected.append(exp)
        meta.append(m)
        n = len(pop)
        key = tuple((tuple(c), int(mk)) for c, mk in pop)
        ctx.count(key, nontrivial=n >= 2)
        bump(stats["template"], tname)
        bump(stats["markers"], mkind)
        bump(stats["classes"], cmode)
        bump(stats["vectors"], vmode)
        if obs.get("selector"):
            bump(stats["selector"], selector_label(obs["selector"]))
            stats["tournaments_before_sorting"] += bool(obs["selector"].get("tournaments_before"))
        for r in obs["routes"]:
            bump(stats["constructed_by"], r)
        if len(set(obs["classes"])) > 1:
            stats["populations_with_two_or_more_classes"] += 1
        bump(stats["size"], n)
        bump(stats["objectives"], len(pop[0][0]) if pop else 0)
        if ok and n:
            bump(stats["max_rank"], max(obs["front"]))
        if len(set(key)) < n:
            stats["with_duplicates"] += 1
        if any(obs["dominate"]):
            stats["with_domination"] += 1
        if n >= 2 and sum(len(d) for d in obs["dominate"]) < n * (n - 1) // 2:
            stats["with_incomparable_pair"] += 1
        if stale != "fresh":
            stats["stale_features"] += 1
        if ids_mode != "real":
            stats["scrambled_ids"] += 1
        if ok and len(ctx.samples) < 4 and n >= 4 and max(obs["front"]) >= 2 and tname in ("grid", "layers", "duplicates"):
            ctx.sample(m)
        return obs

    # corpus: boundary cases read off the code
    T, F = True, False
    corpus = [
        [],                                                                        # empty population: no front at all
        [([2.0, 3.0], T)],
        [([2.0, 3.0], 0), ([1.0, 1.0], 0)],                                        # the suite's two-individual case
        [([1.0, 1.0], T), ([1.0, 1.0], T), ([1.0, 1.0], T)],                       # all equal
        [([3.0], T), ([2.0], T), ([1.0], T), ([0.0], T)],                          # reversed chain: verdict 2 only
        [([0.0], T), ([1.0], T), ([2.0], T), ([3.0], T)],                          # chain: verdict 1 only
        [([1.0, 1.0], T), ([2.0, 2.0], T), ([1.0, 3.0], T), ([3.0, 3.0], T), ([0.0, 5.0], F), ([2.0, 2.0], T)],
        [([0.0, 0.0], T), ([1.0, 1.0], T), ([2.0, 2.0], T), ([1.0, 1.0], T), ([2.0, 2.0], T)],   # duplicates deep in a chain
        [([5.0, 5.0], F), ([0.0, 0.0], T), ([1.0, 1.0], 2), ([9.0, 9.0], -1), ([0.0, 0.0], -2)],  # marker decides
        [([0.0, 2.0], T), ([2.0, 0.0], T), ([1.0, 1.0], T), ([3.0, 3.0], T), ([2.0, 2.0], T)],   # x dominated by members of two fronts
        [([0.0], T), ([-0.0], T), ([5e-324], T)],
        [([2.0, 2.0], T), ([0.0, 3.0], T), ([3.0, 0.0], T), ([1.0, 1.0], T), ([0.0, 0.0], T)],   # last one dominates all
    ]
    import subprocess, sys, json
    plans = fresh_scenarios(rng, corpus)
    procs = []
    for plan in plans:
        pr = subprocess.Popen([sys.executable, "-W", "ignore", "-c", FRESH_SCRIPT], stdin=subprocess.PIPE, stdout=subprocess.PIPE,
                              stderr=subprocess.PIPE, text=True)
        pr.stdin.write(json.dumps(plan))
        pr.stdin.close()
        procs.append(pr)

    # red-team round 5: the 1100-deep chain in three input orders, each in its own interpreter, collected at the end
    deep_orders = {"best_first": list(range(DEEP_N)), "worst_first": list(reversed(range(DEEP_N))),
                   "shuffled": rng.sample(range(DEEP_N), DEEP_N)}
    deep_procs = []
    for oname, order in deep_orders.items():
        pr = subprocess.Popen([sys.executable, "-W", "ignore", "-c", DEEP_SCRIPT], stdin=subprocess.PIPE, stdout=subprocess.PIPE,
                              stderr=subprocess.PIPE, text=True)
        pr.stdin.write(json.dumps({"order": order, "marker": rng.choice([True, True, 0, False])}))
        pr.stdin.close()
        deep_procs.append((oname, order, pr))

    # first of all, while no Individual has been created in this process yet (all id state in its initial state): seed
    # designs and algorithm individuals created alternately, as a DoE-seeded run does right after start-up
    for pop in corpus:
        if len(pop) >= 3:
            add_case(pop, "corpus", "corpus", "real", "fresh", "mixed", "costs")
    for pop in corpus:
        for stale in ("fresh", "presorted", "garbage", "recosted", "reloaded"):
            if pop or stale == "fresh":
                add_case(pop, "corpus", "corpus", "real", stale)
        if len(pop) >= 2:
            add_case(list(reversed(pop)), "corpus", "corpus", "scrambled", "fresh")
            add_case(pop, "corpus", "corpus", "real", "fresh", "mixed", "same")
            add_case(list(reversed(pop)), "corpus", "corpus", "real", "presorted", "mixed", "grid")

    algo_selectors.extend(algorithm_selectors())
    # every construction of the sorter on the corpus populations with duplicated cost vectors (a comparator that breaks
    # ties between equal vectors shows there), fresh object per case and the long-lived one
    for spec in SELECTOR_SPECS:
        for k in (3, 6, 7):
            add_case(corpus[k], "corpus", "corpus", "real", "fresh", chosen=(make_selector(ops, spec), spec))
        add_case(list(reversed(corpus[7])), "corpus", "corpus", "real", "presorted", "mixed", "same", chosen=(selector_for(spec), spec))
    for chosen in algo_selectors:
        for k in (3, 7):
            add_case(corpus[k], "corpus", "corpus", "real", "fresh", chosen=chosen)
    stats["algorithm_built_selectors"] = [sp["from"] for _, sp in algo_selectors]

    for _ in range(n_pops):
        tname, mkind, pop = gen_population(rng, nmax)
        by_key = {}
        for s in range(n_shuffles if len(pop) > 1 else 1):
            order = list(range(len(pop)))
            if s > 0:
                rng.shuffle(order)
            elif rng.random() < 0.3:
                order.reverse()
            shuffled = [pop[k] for k in order]
            obs = add_case(shuffled, tname, mkind,
                           "scrambled" if rng.random() < 0.2 else "real",
                           rng.choice(["fresh", "fresh", "presorted", "garbage", "recosted", "reloaded"]),
                           rng.choice(["plain", "one_class", "mixed", "mixed", "mixed"]),
                           rng.choice(["costs", "costs", "same", "grid"]))
            if obs is None:
                continue
            # "in every input order": the same member gets the same front number in every shuffle
            for k, fr in zip(order, obs["front"]):
                stats["order_checks"] += 1
                if by_key.setdefault(k, fr) != fr:
                    ctx.oracle_failures.append({
                        "what": "front number of a member depends on the input order: %r vs %r" % (by_key[k], fr),
                        "input": {"population_costs_signed": [list(c) + [mk] for c, mk in pop], "member": k, "order": order},
                        "match": {"kind": "order", "template": tname}})

    # ---- red-team round 5: twins that SHARE one costs_signed list object ----------------------------------------------------
    # IndividualNSGAII.copy() and Individual.sync() hand the list of the signed costs over by reference: an individual and its
    # copy are two members (two ids) with one list object.  The model sees two equal cost vectors; the sorter must too,
    # whatever pair it compared just before.  Twins are interleaved with dominating / dominated members, several orders.
    def twin_population(base, picks):
        """base + one twin per pick (a pick may name a member twice: three members on one list); returns pop, group ids"""
        pop, gid = list(base), [None] * len(base)
        for k in picks:
            gid[k] = k
            pop.append(base[k])
            gid.append(k)
        return pop, gid

    def add_twin_case(pop, gid, order, tname, mkind, **kw):
        first, twin_of = {}, {}
        for posn, k in enumerate(order):
            if gid[k] is not None:
                if gid[k] in first:
                    twin_of[posn] = first[gid[k]]
                else:
                    first[gid[k]] = posn
        return add_case([pop[k] for k in order], tname, mkind, twin_of=twin_of, **kw)

    T3 = [([0.0, 0.0], T), ([1.0, 1.0], T), ([2.0, 2.0], T)]
    for base, picks in ((T3, [1]), (T3, [0]), (T3, [2]), (T3, [1, 1]), (T3, [0, 2]), (corpus[6], [0, 3]), (corpus[9], [2, 4]),
                        (corpus[8], [1, 4]), (corpus[11], [4]), (corpus[11], [0, 3])):
        pop, gid = twin_population(base, picks)
        n = len(pop)
        for order in (list(range(n)), list(reversed(range(n))), [n - 1] + list(range(n - 1)), rng.sample(range(n), n)):
            for stale in ("fresh", "presorted"):
                add_twin_case(pop, gid, order, "twins_shared_list", "corpus", stale=stale, cmode="mixed")
    for _ in range(ctx.pick(70, 500)):
        tname, mkind, base = gen_population(rng, min(nmax, ctx.pick(9, 20)))
        if not base:
            continue
        picks = [rng.randrange(len(base)) for _ in range(rng.choice([1, 1, 2, 3]))]
        pop, gid = twin_population(base, picks)
        by_key = {}
        for sh in range(n_shuffles):
            order = list(range(len(pop)))
            if sh == 1:
                order.reverse()
            elif sh > 1:
                rng.shuffle(order)
            obs = add_twin_case(pop, gid, order, "twins_shared_list", mkind,
                                ids_mode="scrambled" if rng.random() < 0.2 else "real",
                                stale=rng.choice(["fresh", "fresh", "presorted", "garbage", "recosted", "reloaded"]),
                                cmode=rng.choice(["plain", "one_class", "mixed", "mixed"]),
                                vmode=rng.choice(["costs", "same", "grid"]))
            if obs is None:
                continue
            for k, fr in zip(order, obs["front"]):
                stats["order_checks"] += 1
                if by_key.setdefault(k, fr) != fr:
                    ctx.oracle_failures.append({
                        "what": "front number of a member depends on the input order: %r vs %r" % (by_key[k], fr),
                        "input": {"population_costs_signed": [list(c) + [mk] for c, mk in pop], "member": k, "order": order,
                                  "members_sharing_one_costs_signed_list_object": [[a, b] for b, a in enumerate(gid) if a is not None and a != b]},
                        "match": {"kind": "order", "template": "twins_shared_list"}})

    # ---- red-team round 5: more fronts than the recursion limit: oracle only, closed form -------------------------------------
    # member with cost (k, k // 2) of the chain has exactly the members 0..k-1 as dominators: front number k + 1
    stats["deep_chain_oracle_only"] = {"members": DEEP_N, "orders": []}
    for oname, order, pr in deep_procs:
        text, err = pr.stdout.read(), pr.stderr.read()
        pr.wait()
        lines = [l for l in text.splitlines() if l.startswith("C02DEEP")]
        inp = {"population": "domination chain: member k has costs_signed [k, k // 2, marker], k = 0..%d" % (DEEP_N - 1),
               "input_order": oname, "first_members_of_the_order": order[:8], "size": DEEP_N}
        ctx.count(("deep_chain", oname, tuple(order[:16])), nontrivial=True)
        if not lines:
            ctx.oracle_failures.append({"what": "the interpreter sorting a %d-deep domination chain died: %s" % (DEEP_N, err[-400:]),
                                        "input": inp, "match": {"kind": "raised", "case": {"template": "deep_chain", "n": DEEP_N}}})
            continue
        got = json.loads(lines[0][7:])
        stats["deep_chain_oracle_only"]["orders"].append(oname)
        fr = got["front"]
        unranked = [i for i, v in enumerate(fr) if not isinstance(v, int) or isinstance(v, bool)]
        wrong = [i for i, (v, k) in enumerate(zip(fr, order)) if v != k + 1]
        if got["error"] or unranked:
            ctx.oracle_failures.append({"what": "%d-deep domination chain (%d fronts): %s; %d individuals are left without a front number (first: position %s, true rank %s)"
                                        % (DEEP_N, DEEP_N, "the sorter raised " + got["error"] if got["error"] else "no exception", len(unranked),
                                           unranked[:1], [order[i] + 1 for i in unranked[:1]]),
                                        "input": inp, "match": {"kind": "raised" if got["error"] else "unranked", "case": {"template": "deep_chain", "n": DEEP_N}}})
        elif wrong or got["distinct_ids"] != DEEP_N:
            i = wrong[0] if wrong else None
            ctx.oracle_failures.append({"what": "%d-deep domination chain: individual at position %r carries front number %r, required %r (its dominators are the %r members with smaller costs)"
                                        % (DEEP_N, i, fr[i] if wrong else None, order[i] + 1 if wrong else None, order[i] if wrong else None),
                                        "input": inp, "match": {"kind": "rank", "case": {"template": "deep_chain", "n": DEEP_N}}})

    stats["fresh_interpreter_populations"] = 0
    for plan, pr in zip(plans, procs):
        text = pr.stdout.read()
        err = pr.stderr.read()
        pr.wait()
        lines = [l for l in text.splitlines() if l.startswith("C02FRESH")]
        if not lines:
            ctx.oracle_failures.append({"what": "a fresh interpreter could not build and sort a population of mixed Individual classes: %s" % err[-600:],
                                        "input": {"plan": plan[0]}, "match": {"kind": "raised", "case": {"template": "fresh_interpreter"}}})
            continue
        for P, given in zip(plan, json.loads(lines[0][8:])):
            given["created"] = [list(c) for c in P["create"]]
            pop = [([float(v) for v in row[:-1]], row[-1]) for row in P["members"]]
            add_case(pop, "fresh_interpreter", "uniform", "real", "fresh", "mixed", "same", given=given)
            stats["fresh_interpreter_populations"] += 1

    ctx.coq_compare("c02", HEADER, "c02_case", "option c02_obs", "c02_run", "c02_obs_eqb", cases, expected, meta,
                    shard=ctx.pick(90, 160))
    ctx.rule = ("populations from templates (chain, anti-chain, duplicates, all-equal, stacked layers, value grids with ties, "
                "wide magnitudes incl. -0.0/denormal/1e300/+-inf, members sharing an infinite objective, adjacent floats, the suite's "
                "triangle), 1..4 objectives, markers uniform / mixed bool / mixed int from %r, each in %d input orders; members are "
                "plain Individual / IndividualNSGAII / IndividualSwarm / IndividualEpsMOEA objects (one class or mixed, created "
                "alternately), built by the constructor, copy() (also original and copy together), from_dict(to_dict()); design vectors "
                "equal to the costs, all equal, or independent of the costs; real or scrambled ids (never renumbered: the model gets "
                "the implementation's ids, distinct objects sharing an id stay distinct on the model side); fresh or stale features "
                "(sorted before in another order, garbage, sorted before with other costs by the same selector, sorted-written-read "
                "back as new objects with the same ids); %d start-up scenarios each in its own fresh interpreter (seeds, algorithm "
                "individuals, reloaded designs created block-wise); the sorter is built through every public construction "
                "(TournamentSelector with and without dominance= ParetoDominance / EpsilonDominance and epsilons=, by keyword or "
                "position, DummySelector, CopySelector, the selectors OMOPSO / SMPSO / PSOGA / NSGAII / EpsMOEA build for themselves), "
                "one long-lived object per construction or a fresh one, in 30 %% of the cases after binary tournaments on it; compared per individual: front_number, final domination_counter, "
                "dominate ids, and the fronts passed to crowding_distance; non-trivial = at least two members; distinct = distinct "
                "ordered population; populations with `.copy()` twins (two or three members, distinct ids, SHARING one costs_signed list "
                "object as IndividualNSGAII.copy / Individual.sync produce) interleaved with dominating / dominated members in %d orders; "
                "direct oracle only (closed form, not evaluated by the model): a %d-deep domination chain (more fronts than the "
                "recursion limit) best-first, worst-first and shuffled, each sorted in its own interpreter") % (MARKERS, n_shuffles, len(plans), n_shuffles, DEEP_N)
    ctx.extra.update({"input_distribution": stats, "max_population_size": nmax})


LEVEL_TEXT = ("Machine-checked Coq theorems over an executable model of Selector.fast_nondominated_sorting (pair loop with "
              "counters and dominated-id lists, id lookup, front peeling with the `front_number is None` guard), for every "
              "population size, every number of objectives, duplicates and every input order, for any comparator satisfying the "
              "C01 laws (instantiated at the Pareto comparator over any strict weak order and at binary64): every individual "
              "gets a front number and it is 1 + the largest front number among its dominators (1 if none); front 1 is exactly "
              "the non-dominated set, one front never contains a dominating pair, the labelling is unique and independent of "
              "the input order. The model is tied to operators.py on every run by evaluating it in Coq on generated populations "
              "run through the real sorter, comparing front numbers, counters, dominated lists and fronts exactly.")
LEVEL_NOTE = ("Full statement proved (no partial fallback). Hypotheses: distinct ids, cost vectors of one length. Trusted: Coq kernel + "
              "vm_compute; FloatAxioms for the float instance; the hand-written model, the translator front-ends (tools/py2coq.py, "
              "tools/py2coq_heap.py) and the Python harness. Correspondence is sampled (generated + corpus cases; which comparator "
              "object the sorter reads is sampled over the package's Selector constructions), the theorems are unbounded.")


def replay(ctx, data):
    """./check C02 --replay f : re-executes the stored failing inputs on the implementation, on the model
    and on the textbook definition, and prints the three labellings."""
    import artap.operators as ops
    from artap.individual import Individual
    selector = ops.TournamentSelector([])
    from artap.algorithm_NSGAII import IndividualNSGAII
    from artap.algorithm_swarm import IndividualSwarm
    from artap.algorithm_genetic import IndividualEpsMOEA
    by_name = {c.__name__: c for c in (Individual, IndividualNSGAII, IndividualSwarm, IndividualEpsMOEA)}
    pops = [(f["input"]["population_costs_signed"], f["input"].get("member_classes"))
            for f in data.get("failing_inputs", []) if "population_costs_signed" in f.get("input", {})]
    shared = [f["input"].get("members_sharing_one_costs_signed_list_object") or []
              for f in data.get("failing_inputs", []) if "population_costs_signed" in f.get("input", {})]
    pops += [([x["costs_signed"] for x in m["case"]["population"]], [x.get("class", "Individual") for x in m["case"]["population"]])
             for m in data.get("correspondence_mismatches", [])
             if isinstance(m.get("case"), dict) and "population" in m["case"]]
    specs = [f["input"].get("selector") for f in data.get("failing_inputs", []) if "population_costs_signed" in f.get("input", {})]
    specs += [(m["case"].get("observed") or {}).get("selector") for m in data.get("correspondence_mismatches", [])
              if isinstance(m.get("case"), dict) and "population" in m["case"]]
    bad = 0
    shared += [(m["case"].get("members_sharing_one_costs_signed_list_object") or []) for m in data.get("correspondence_mismatches", [])
               if isinstance(m.get("case"), dict) and "population" in m["case"]]
    for (rows, classes), spec, pairs in zip(pops[:5], specs, shared):
        pop = [(r[:-1], r[-1]) for r in rows]
        if spec and not spec.get("from"):         # the sorter is rebuilt the way the failing case constructed it
            selector = make_selector(ops, spec)
        else:
            selector = ops.TournamentSelector([])
        inds = []
        # members are rebuilt as objects of the recorded classes, in population order, with the ids the code gives them
        for (c, mk), cname in zip(pop, classes or ["Individual"] * len(pop)):
            x = by_name.get(cname, Individual)([0.5, 0.5])
            x.costs, x.costs_signed = list(c), list(c) + [mk]
            inds.append(x)
        for i, j in pairs:                        # twins sharing one list object, as recorded
            inds[j].costs_signed = inds[i].costs_signed
        try:
            selector.fast_nondominated_sorting(inds)
            observed = [x.features["front_number"] for x in inds]
        except Exception as e:
            observed = repr(e)
        required, _ = tb_ranks(pop)
        case = ll([pl(nl(i), pl(ll(c, fl), zl(mk))) for i, (c, mk) in enumerate(pop)])
        model = ctx.coq_eval("c02_replay", HEADER, ["match c02_run %s with Some o => Some (o_front o) | None => None end" % case])[0]
        print(json_line({"population_costs_signed": rows, "selector": spec, "classes": [type(x).__name__ for x in inds], "ids": [x.id for x in inds],
                         "implementation": observed, "required": required, "model": model}))
        bad += observed != required
    print("C02 replay: %d of %d stored inputs still violate the property" % (bad, len(pops[:5])))
    return 1 if bad else 0


def json_line(d):
    import json
    return json.dumps(d, default=str)
