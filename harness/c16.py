"""C16 - multi-objective benchmark identities: correspondence with Model/ParetoBench.v (Interval point
goals for every objective value) and direct oracle (the identities evaluated in floats)."""
import math
from fractions import Fraction

from harness.core import REAL_AXIOMS, translated_specs

PROP = "C16"
# second tie (notes/TRANSLATOR.md, "Benchmark functions"): DTLZI-IV.evaluate, ZDT1.evaluate / eval_g / eval_h and
# BiObjectiveTestProblem.evaluate are translated from the current source by tools/py2coq_bench.py on every run and proved
# equal to the models of Model/ParetoBench.v for every m and every vector (GenProofs/ParetoEquiv.v)
TRANSLATED = translated_specs("ParetoGen")
THEOREMS = {"Artap.Props.C16": [
    "C16_dtlz1_sum", "C16_dtlz2_norm", "C16_dtlz3_norm", "C16_dtlz4_norm", "C16_distance_variables",
    "C16_pareto_set_images", "C16_dtlz1_pareto_set_image", "C16_zdt1_identity", "C16_zdt1_well_defined",
    "C16_biobjective_identity", "C16_nonneg_on_box", "C16_objective_counts", "C16_dtlz2_buggy_index_refuted"]}
# the property theorems depend on the axioms of Coq's classical reals only.  The generated point goals
# (not property theorems, compiled per run through Run/C16Run.v) additionally go through Interval, whose
# fast arithmetic relies on the standard library's primitive Uint63 / PrimFloat specification axioms.
AXIOMS_OK = REAL_AXIOMS
TRUSTED = [
    "Coq 8.16.1 kernel; no vm_compute/native_compute in the property theorems",
    "axioms of Coq's classical real numbers under the property theorems: ClassicalDedekindReals.sig_forall_dec, "
    "ClassicalDedekindReals.sig_not_dec, FunctionalExtensionality.functional_extensionality_dep",
    "point goals of the correspondence only: the Interval library (verified interval arithmetic) and the standard "
    "library's primitive-integer/float axioms it computes with (Uint63Axioms.*, FloatAxioms.*, PrimInt63.*, PrimFloat.*)",
    "hand-written model Model/ParetoBench.v tied to benchmark_pareto.py by this correspondence run (sampled points)",
    "Python harness: float -> exact rational encoder, generators, direct oracle",
]
ASSUMPTIONS = [
    "the theorems are statements about real numbers; binary64 rounding of the implementation is bounded only on the "
    "sampled points (|model - implementation| <= 1e-9 * (1 + |implementation|), proved by Interval per objective value)",
    "dimension m + 9 for DTLZ2-4 (the code hard-codes k = 10) and m + k - 1, k >= 1, for DTLZ1; with fewer variables "
    "Python's negative indices wrap and neither model nor theorems apply",
    "libm cos/sin/sqrt/pow and numpy float64 scalar arithmetic are exercised, not modelled",
]

HEADER = "From Artap Require Import Run.C16Run.\nLocal Open Scope R_scope.\n"
TOL = 1e-9
MS = [2, 3, 4, 6]


def rl(x):
    """binary64 -> exact Coq real literal."""
    f = Fraction(float(x))
    if f.denominator == 1:
        return "(%d)" % f.numerator
    return "(%d / %d)" % (f.numerator, f.denominator)


def close(a, b):
    return abs(a - b) <= TOL * (1 + abs(b))


# ---------------------------------------------------------------------------------------------
# the families' definitions (Deb et al. 2002; Zitzler et al. 2000), written independently of the code
def g_multimodal(xm):
    return 100.0 * (len(xm) + math.fsum((y - 0.5) ** 2 - math.cos(20.0 * math.pi * (y - 0.5)) for y in xm))


def g_sphere(xm):
    return math.fsum((y - 0.5) ** 2 for y in xm)


# Red-team round 4 (rule 8): near the Pareto-optimal set g -> 0 and the general tolerance 1e-9 * (1 + g) hides whatever the
# code does with a small g (a clamp `if gm < 1e-6: gm = 0.`).  For points whose distance variables are all within NEAR of
# 0.5 the g-dependent part of the identity is compared with g itself: |(norm - 1) - g| <= REL * g + floor.  The floors are
# ~10x the rounding noise of the unchanged implementation at such points, whatever g (DTLZ1/3: k - sum(cos) cancels
# with an absolute error of a few ulp(k), times 100; DTLZ2/4: 1 + g rounds to ulp(1)); residuals measured on every run are
# in the evidence (`near_front_max_residual_over_allowance`).
NEAR = 2e-3
REL = 1e-3
FLOOR = {"dtlz1": 2e-11, "dtlz3": 2e-11, "dtlz2": 2e-14, "dtlz4": 2e-14}
ZTOL = 1e-12          # ZDT1 / bi-objective identities: a handful of roundings of O(1) quantities
RESID = {}


def g_exact(kind, xm):
    """g of the family for the distance variables xm: exact rational arithmetic on the binary64 inputs; the cosine of
    the multimodal g is taken at the correctly rounded argument (error <= 1 ulp of 1 per term: far below the floors)"""
    if kind in ("dtlz2", "dtlz4"):
        return sum((Fraction(y) - Fraction(1, 2)) ** 2 for y in xm)
    pi = Fraction(math.pi) + Fraction(1.2246467991473532e-16)      # pi to ~1e-32
    t = Fraction(len(xm))
    for y in xm:
        d = Fraction(y) - Fraction(1, 2)
        t += d * d - Fraction(math.cos(float(20 * pi * d)))
    return 100 * t


def near_front(kind, m, x, f):
    """the tight clause; None when the point is not near the Pareto-optimal set"""
    xm = x[m - 1:]
    if not xm or any(abs(y - 0.5) > NEAR for y in xm):
        return None
    g = g_exact(kind, xm)
    if kind == "dtlz1":
        excess = 2 * sum(Fraction(v) for v in f) - 1                 # 2 * sum f - 1 = g
        name = "2*sum(f) - 1"
    else:
        excess = Fraction(math.sqrt(math.fsum(v * v for v in f))) - 1   # norm - 1 = g
        name = "norm(f) - 1"
    allow = REL * abs(g) + Fraction(FLOOR[kind])
    r = float(abs(excess - g) / allow)
    RESID[kind] = max(RESID.get(kind, 0.0), r)
    if r > 1.0:
        return ("%s near the Pareto-optimal set (distance variables within %.0e .. %.0e of 0.5): %s = %.6e but g = %.6e "
                "(allowed difference %.2e)" % (kind.upper(), float(min(abs(y - 0.5) for y in xm)), float(max(abs(y - 0.5) for y in xm)),
                                                name, float(excess), float(g), float(allow)))
    return None


def oracle(kind, m, x, f):
    """Property clauses on the implementation's own output; returns a list of failure texts."""
    bad = []
    x = [float(v) for v in x]
    try:
        f = [float(v) for v in f]
    except Exception as e:     # not a list of numbers
        return ["objective vector is not a list of numbers: %r" % (e,)]
    want_len = m if kind.startswith("dtlz") else 2
    if len(f) != want_len:
        bad.append("number of objectives %d, expected %d" % (len(f), want_len))
        return bad
    if any(not math.isfinite(v) for v in f):
        bad.append("non-finite objective value %r" % (f,))
        return bad
    if any(v < -1e-12 for v in f):
        bad.append("negative objective on the box: %r" % (f,))
    if kind == "dtlz1":
        k = len(x) - m + 1
        want = (1.0 + g_multimodal(x[m - 1:])) / 2.0
        got = math.fsum(f)
        if not close(got, want):
            bad.append("DTLZ1: sum of objectives %.17g, (1+g)/2 = %.17g (g of the last k=%d variables)" % (got, want, k))
        else:
            why = near_front(kind, m, x, f)
            if why:
                bad.append(why)
    elif kind in ("dtlz2", "dtlz3", "dtlz4"):
        g = g_multimodal(x[m - 1:]) if kind == "dtlz3" else g_sphere(x[m - 1:])
        got = math.sqrt(math.fsum(v * v for v in f))
        if not close(got, 1.0 + g):
            bad.append("%s: Euclidean norm of objectives %.17g, 1+g = %.17g (g of the last 10 variables)" % (kind.upper(), got, 1.0 + g))
        else:
            why = near_front(kind, m, x, f)
            if why:
                bad.append(why)
    elif kind == "zdt1":
        g = 1.0 + 9.0 * (math.fsum(x[1:]) / (len(x) - 1))
        want = g * (1.0 - math.sqrt(f[0] / g)) if f[0] >= 0 else float("nan")
        if f[0] != x[0]:
            bad.append("ZDT1: f1 = %.17g differs from x1 = %.17g" % (f[0], x[0]))
        if not abs(f[1] - want) <= ZTOL * (1 + abs(want)):
            bad.append("ZDT1: f2 = %.17g, g(1 - sqrt(f1/g)) = %.17g with g = 1 + 9 mean(x2..xn) = %.17g" % (f[1], want, g))
        RESID["zdt1"] = max(RESID.get("zdt1", 0.0), abs(f[1] - want) / (ZTOL * (1 + abs(want))))
    elif kind == "biobj":
        if not abs(f[0] * f[1] - (1.0 + x[1])) <= ZTOL * (2 + abs(x[1])):
            bad.append("bi-objective problem: f1*f2 = %.17g, 1 + x2 = %.17g" % (f[0] * f[1], 1.0 + x[1]))
        RESID["biobj"] = max(RESID.get("biobj", 0.0), abs(f[0] * f[1] - (1.0 + x[1])) / (ZTOL * (2 + abs(x[1]))))
    return bad


# ---------------------------------------------------------------------------------------------
# generators
def away_from_half(rng):
    """position variable away from 0.5 (sine and cosine of x*pi/2 differ)."""
    v = rng.uniform(0.03, 0.42)
    return v if rng.random() < 0.5 else 1.0 - v


def distance_var(rng):
    r = rng.random()
    if r < 0.15:
        return 0.5
    if r < 0.25:
        return rng.choice([0.0, 1.0])
    return rng.random()


def gen_point(rng, kind, m, n, style):
    npos = m - 1
    if style == "random":
        pos = [away_from_half(rng) for _ in range(npos)]
        if kind == "dtlz4":      # x**100 spread over (0,1): otherwise every random point maps to the corner (1+g,0,..,0)
            pos = [v ** 0.01 for v in pos]
        dist = [distance_var(rng) for _ in range(n - npos)]
        if all(d == 0.5 for d in dist):
            dist[0] = rng.random()
    elif style == "corner":
        pos = [float(rng.randrange(2)) for _ in range(npos)]
        dist = [float(rng.randrange(2)) for _ in range(n - npos)]
    elif style == "half":       # the point of artap's own tests
        pos = [0.5] * npos
        dist = [0.5] * (n - npos)
    elif style == "pareto":     # Pareto-optimal set: distance variables 0.5, any position variables
        pos = [away_from_half(rng) for _ in range(npos)]
        if kind == "dtlz4":
            pos = [v ** 0.01 for v in pos]
        dist = [0.5] * (n - npos)
    elif style == "mixed":      # one position variable on a bound, distance variables near 0.5
        pos = [away_from_half(rng) for _ in range(npos)]
        pos[rng.randrange(npos)] = float(rng.randrange(2))
        dist = [0.5 + rng.choice([-1, 1]) * rng.choice([2.0 ** -30, 1e-3, 0.05, 0.025]) for _ in range(n - npos)]
    elif style.startswith("near"):     # rule 8: distance variables approaching 0.5 at one scale, from both sides
        _, shape, scale = style.split(":")
        d = float(scale)
        pos = [away_from_half(rng) for _ in range(npos)]
        if kind == "dtlz4":
            pos = [v ** 0.01 for v in pos]
        nd = n - npos
        if shape == "all":            # every distance variable at +-d
            dist = [0.5 + rng.choice([-1, 1]) * d for _ in range(nd)]
        elif shape == "one":          # one distance variable at +-d, the others exactly 0.5
            dist = [0.5] * nd
            dist[rng.randrange(nd)] = 0.5 + rng.choice([-1, 1]) * d
        elif shape == "some":         # a few at +-d * (1 .. 2.5), the others exactly 0.5
            dist = [0.5 + rng.choice([-1, 1]) * d * rng.choice([1.0, 1.5, 2.0, 2.5]) if rng.random() < 0.4 else 0.5 for _ in range(nd)]
            if all(v == 0.5 for v in dist):
                dist[rng.randrange(nd)] = 0.5 + d
        else:                         # mixed scales up to d
            dist = [0.5 + rng.choice([-1, 1]) * d * rng.choice([1.0, 0.1, 0.01, 1e-3, 0.0]) for _ in range(nd)]
    else:
        raise ValueError(style)
    return pos + dist


NEAR_SCALES = ["1e-3", "1e-4", "2e-5", "1e-5", "1e-6", "1e-7", "1e-9", "1e-12"]
NEAR_SHAPES = ["all", "one", "some", "mix"]


# Red-team round 5 (rule 11): points whose coordinates are all integers (the vertices of [0,1]^n; (1, 0..5) of the bi-objective
# box) written the natural way, as ints.  The model and the oracle see the same point as floats.  "tuple_int" is assigned to
# Individual.vector (Individual(tuple) itself raises: tuple has no .copy()); "mixed_int" writes only the integral
# coordinates of a point as ints, the others stay floats.
INT_DTYPES = ("int", "tuple_int", "np_int64", "np_int32", "np_int64_scalars", "np_uint8")


def integral(x):
    return all(float(v).is_integer() for v in x)


def as_dtype(x, dtype):
    import numpy as np
    if dtype == "float":
        return [float(v) for v in x]
    if dtype == "np_float64":
        return [np.float64(v) for v in x]
    if dtype == "np_array":
        return np.array(x, dtype=np.float64)
    if dtype == "mixed_int":
        return [int(v) if float(v).is_integer() else float(v) for v in x]
    if dtype in INT_DTYPES:
        if not integral(x):
            raise ValueError("not an integer point: %r" % (x,))
        xi = [int(v) for v in x]
        if dtype == "int":
            return xi
        if dtype == "tuple_int":
            return tuple(xi)
        if dtype == "np_int64_scalars":
            return [np.int64(v) for v in xi]
        return np.array(xi, dtype={"np_int64": np.int64, "np_int32": np.int32, "np_uint8": np.uint8}[dtype])
    raise ValueError(dtype)


def run(ctx):
    import artap.benchmark_pareto as bp
    from artap.individual import Individual
    rng = ctx.rng

    problems = {}
    import contextlib, io, logging
    # Red-team round 4: the constructors forward **kwargs (BenchmarkFunction -> Problem -> set(**kwargs)); the DTLZ
    # classes read `dimension`, `m` and `criteria` (one direction for all objectives, handed to
    # generate_objective_functions; anything but 'minimize' gives sign -1), every other keyword is accepted and ignored;
    # ZDT1 accepts and ignores all of them, BiObjectiveTestProblem() accepts none.  The declared direction can also be changed in place
    # afterwards, per objective (rule 9).  C16's identities are about what evaluate() returns, whatever is declared.
    VARIANTS = ["default", "criteria=minimize", "criteria=maximize", "criteria=max", "other_kwargs",
                "in_place:alternating", "in_place:all_maximize", "in_place:first_maximize"]

    def problem(kind, m, n, variant="default"):
        key = (kind, m, n, variant)
        if key not in problems:
            kw = {}
            if variant.startswith("criteria="):
                kw["criteria"] = variant.split("=", 1)[1]
            elif variant == "other_kwargs":
                kw.update(initial_value=0.25, name="renamed", lb=-1.0, ub=2.0, k=3, alpha=2.0, signs=[-1, -1])
            with contextlib.redirect_stderr(io.StringIO()):
                if kind == "zdt1":
                    p = bp.ZDT1(**kw)
                elif kind == "biobj":
                    p = bp.BiObjectiveTestProblem(**kw)
                else:
                    cls = {"dtlz1": bp.DTLZI, "dtlz2": bp.DTLZII, "dtlz3": bp.DTLZIII, "dtlz4": bp.DTLZIV}[kind]
                    p = cls(**dict(kw, dimension=n, m=m))
            try:
                p.logger.setLevel(logging.CRITICAL)
            except Exception:
                pass
            if variant.startswith("in_place:"):
                how = variant.split(":", 1)[1]
                nobj = len(p.costs)
                maxi = [{"alternating": i % 2 == 1, "all_maximize": True, "first_maximize": i == 0}[how] for i in range(nobj)]
                for c_, mx in zip(p.costs, maxi):
                    c_["criteria"] = "maximize" if mx else "minimize"
                p.signs = [-1 if mx else 1 for mx in maxi]
            problems[key] = p
        return problems[key]

    def pick_variant():
        return "default" if rng.random() < 0.4 else rng.choice(VARIANTS[1:])

    goals, meta = [], []
    seen_goals = set()
    stats = {"points": 0, "by_class": {}, "by_m": {}, "by_style": {}, "by_dtype": {}, "numpy_bit_identical": 0,
             "numpy_differs": 0, "goals": 0, "oracle_only_points": 0, "position_vars_at_half": 0, "by_variant": {},
             "near_front_points": 0, "integer_points": 0, "dtlz1_k_of_integer_points": {},
             "differs_from_float_input_by_dtype": {}}

    def model_term(kind, m, x):
        xs = "[" + "; ".join(rl(v) for v in x) + "]"
        if kind.startswith("dtlz"):
            return "%s %d%%nat %s" % (kind, m, xs)
        return "%s %s" % (kind, xs)

    def evaluate(kind, m, x, dtype, variant="default"):
        p = problem(kind, m, len(x), variant)
        v = as_dtype(x, dtype)
        if isinstance(v, tuple):
            ind = Individual([0.0])
            ind.vector = v
        else:
            ind = Individual(v)
        return p.evaluate(ind)

    def check_point(kind, m, x, style, dtypes=("float", "np_float64"), with_goals=True, variant=None):
        """Runs the implementation on x (once per dtype), the direct oracle on every result, and emits
        the model point goals (once per distinct result)."""
        variant = variant or pick_variant()
        if kind == "biobj" and not variant.startswith(("default", "in_place")):
            variant = "default"            # BiObjectiveTestProblem.set() takes no keywords: the constructor accepts none
        inp = {"class": kind, "m": m, "dimension": len(x), "x": [float(v) for v in x], "style": style, "constructed": variant}
        if any(d in INT_DTYPES or d == "mixed_int" for d in dtypes):
            stats["integer_points"] += 1
            if kind == "dtlz1":
                k_ = len(x) - m + 1
                stats["dtlz1_k_of_integer_points"][k_] = stats["dtlz1_k_of_integer_points"].get(k_, 0) + 1
        stats["by_variant"][variant] = stats["by_variant"].get(variant, 0) + 1
        if style.startswith("near"):
            stats["near_front_points"] += 1
        results = []
        for dtype in dtypes:
            try:
                f = evaluate(kind, m, x, dtype, variant)
                f = list(f)
            except Exception as e:
                msg = "%s.evaluate raised %r for a point of the box (%s input)" % (kind, e, dtype)
                ctx.oracle_failures.append({"what": msg, "input": dict(inp, dtype=dtype),
                                            "match": {"kind": "pareto_bench_point", "class": kind}})
                ctx.mismatches.append({"what": msg, "correspondence": "c16", "case": dict(inp, dtype=dtype)})
                continue
            for why in oracle(kind, m, x, f):
                if dtype in INT_DTYPES or dtype == "mixed_int":
                    why += " [design vector passed as %s: %r]" % (dtype, as_dtype(x, dtype))
                ctx.oracle_failures.append({"what": why, "input": dict(inp, dtype=dtype),
                                            "observed": [repr(v) for v in f],
                                            "match": {"kind": "pareto_bench_point", "class": kind}})
            try:
                fl_ = [float(v) for v in f]
            except Exception:
                continue
            results.append((dtype, fl_))
            stats["by_dtype"][dtype] = stats["by_dtype"].get(dtype, 0) + 1
            nontrivial = style not in ("half",)
            ctx.count((kind, m, tuple(inp["x"]), dtype), nontrivial=nontrivial)
        stats["points"] += 1
        for k_, v_ in (("by_class", kind), ("by_m", m), ("by_style", style.split(":")[0])):
            stats[k_][v_] = stats[k_].get(v_, 0) + 1
        if kind.startswith("dtlz") and any(v == 0.5 for v in x[:m - 1]):
            stats["position_vars_at_half"] += 1
        if not with_goals:
            stats["oracle_only_points"] += 1
            return
        want_len = m if kind.startswith("dtlz") else 2
        first = None
        for dtype, f in results:
            if first is not None:
                if [v.hex() for v in f] == [v.hex() for v in first]:
                    stats["numpy_bit_identical"] += 1
                else:
                    stats["numpy_differs"] += 1
                    stats["differs_from_float_input_by_dtype"][dtype] = stats["differs_from_float_input_by_dtype"].get(dtype, 0) + 1
            else:
                first = f
            if len(f) != want_len:
                ctx.mismatches.append({"what": "model returns %d objectives (theorem C16_objective_counts), implementation %d" % (want_len, len(f)),
                                       "correspondence": "c16", "case": dict(inp, dtype=dtype)})
                continue
            term = model_term(kind, m, x)
            for i, y in enumerate(f):
                if not math.isfinite(y):
                    ctx.mismatches.append({"what": "implementation returned a non-finite value; the model is real-valued",
                                           "correspondence": "c16", "case": dict(inp, dtype=dtype, objective=i)})
                    continue
                stmt = "Rabs (nth %d (%s) 0 - %s) <= 1e-9 * (1 + Rabs %s)" % (i, term, rl(y), rl(y))
                if stmt in seen_goals:
                    continue
                seen_goals.add(stmt)
                goals.append((stmt, "c16_point."))
                meta.append(dict(inp, dtype=dtype, objective=i, implementation=y))
        if results:
            ctx.sample({"class": kind, "m": m, "x": inp["x"], "f": results[0][1]})

    # ---- corpus: boundary cases read off the code ------------------------------------------
    # the test-suite point (everything 0.5), m = 3, dimension 12 and DTLZI with the suite's dimension 8
    for kind in ("dtlz1", "dtlz2", "dtlz3", "dtlz4"):
        check_point(kind, 3, [0.5] * 12, "half", dtypes=("float", "np_float64", "np_array"))
    check_point("dtlz1", 3, [0.5] * 8, "half")
    # the F6 witness of Proofs (m = 2, x1 = 0, first distance variable 1)
    check_point("dtlz2", 2, [0.0, 1.0] + [0.5] * 9, "corner")
    # DTLZ4: a position variable whose 100th power is 1/2 up to rounding
    check_point("dtlz4", 2, [0.5 ** 0.01] + [0.5] * 10, "pareto")

    # ---- DTLZ1-4, m in {2,3,4,6}, dimension m + 9 ------------------------------------------
    n_random = ctx.pick(2, 20)
    for kind in ("dtlz1", "dtlz2", "dtlz3", "dtlz4"):
        for m in MS:
            n = m + 9
            styles = ["random"] * n_random + ["corner", ["pareto", "mixed", "half", "pareto"][MS.index(m)]]
            if ctx.thorough:
                styles += ["corner", "pareto", "mixed", "mixed"]
            for style in styles:
                check_point(kind, m, gen_point(rng, kind, m, n, style), style,
                            dtypes=("float", "np_float64") + (INT_DTYPES if style == "corner" else ()))
    # ---- near the Pareto-optimal set: distance variables approaching 0.5 at every scale, both sides (rule 8) -----
    # with model goals: every scale for DTLZ3 (the multimodal g cancels k - sum(cos)) and DTLZ1, two scales for DTLZ2 / 4
    for kind in ("dtlz3", "dtlz1", "dtlz2", "dtlz4"):
        scales = NEAR_SCALES if kind == "dtlz3" else ["1e-4", "1e-6", "1e-9"] if kind == "dtlz1" else ["1e-3", "1e-6"]
        if not ctx.thorough and kind != "dtlz3":
            scales = scales[:2]
        for sc in scales:
            shape = rng.choice(NEAR_SHAPES) if kind != "dtlz3" else ["all", "one", "some", "mix"][NEAR_SCALES.index(sc) % 4]
            m = rng.choice([2, 3])
            check_point(kind, m, gen_point(rng, kind, m, m + 9, "near:%s:%s" % (shape, sc)), "near:%s:%s" % (shape, sc), dtypes=("float",))
    # every variant of the constructor on one fixed point per class (with goals: the model does not know the variant)
    for kind in ("dtlz1", "dtlz2", "dtlz3", "dtlz4"):
        x = gen_point(rng, kind, 3, 12, "random")
        for variant in VARIANTS:
            check_point(kind, 3, x, "random", dtypes=("float",), variant=variant)
    for variant in VARIANTS:
        check_point("zdt1", 2, [0.25] + [0.5] * 29, "zdt1", dtypes=("float",), variant=variant)
        check_point("biobj", 2, [0.4, 3.0], "biobj", dtypes=("float",), variant=variant)
    # ---- DTLZ1 with other k (dimension m + k - 1) --------------------------------------------
    for m, k in [(2, 1), (3, 5), (2, 5), (4, 1), (3, 2)][:ctx.pick(3, 5)]:
        for style in ["random", "corner"] + (["random"] * 4 if ctx.thorough else []):
            check_point("dtlz1", m, gen_point(rng, "dtlz1", m, m + k - 1, style), style,
                        dtypes=("float", "np_float64") + (INT_DTYPES if style == "corner" else ()))
    # even k (at a vertex (1+g)/2 = (1+25k)/2 is not an integer), the vertex with the whole weight on the first objective
    for m, k in [(3, 2), (2, 6), (4, 4)][:ctx.pick(2, 3)]:
        check_point("dtlz1", m, [1.0] * (m - 1) + [0.0] * k, "corner", dtypes=("float",) + INT_DTYPES)
    # ---- ZDT1 (the class fixes dimension 30; evaluate uses len(x.vector)) --------------------
    zpoints = [[0.5] * 30, [0.0] * 30, [1.0] * 30, [1.0] + [0.0] * 29, [0.0] + [1.0] * 29]
    for _ in range(ctx.pick(4, 40)):
        zpoints.append([rng.random() for _ in range(30)])
    zpoints.append([rng.random()] + [0.0] * 29)                      # on the Pareto front: g = 1
    zpoints.append([rng.random() for _ in range(2)])
    zpoints.append([rng.random() for _ in range(5)])
    for sc in ([1e-3, 1e-6, 1e-9] if not ctx.thorough else [1e-3, 1e-4, 1e-5, 1e-6, 1e-7, 1e-9, 1e-12]):   # g -> 1 (rule 8)
        zpoints.append([rng.random()] + [sc * rng.choice([1.0, 0.5, 0.0]) for _ in range(29)])
    zpoints.append([1.0 - 2.0 ** -53] + [1e-9] * 29)
    zpoints.append([5e-324] + [1.0 - 2.0 ** -53] * 29)
    for x in zpoints:
        check_point("zdt1", 2, x, "zdt1", dtypes=("float", "np_float64", "np_array") + (INT_DTYPES if integral(x) else ()))
    # ---- bi-objective problem on [0.1,1] x [0,5] ----------------------------------------------
    bpoints = [[0.1, 0.0], [1.0, 5.0], [0.1, 5.0], [1.0, 0.0], [0.5, 2.0]]
    for _ in range(ctx.pick(4, 40)):
        bpoints.append([rng.uniform(0.1, 1.0), rng.uniform(0.0, 5.0)])
    # the edges of the box from inside (rule 8)
    bpoints += [[math.nextafter(0.1, 1.0), 5e-324], [math.nextafter(1.0, 0.0), math.nextafter(5.0, 0.0)], [0.1, 1e-9], [1.0, 1e-300]]
    for x in bpoints:
        check_point("biobj", 2, x, "biobj", dtypes=("float", "np_float64", "np_array") + (INT_DTYPES if integral(x) else ()))

    # ---- oracle-only stream: many more points through the implementation and the identities ------
    n_oracle = ctx.pick(150, 3000)
    for kind in ("dtlz1", "dtlz2", "dtlz3", "dtlz4"):
        for m in MS + [8, 12]:
            for j in range(n_oracle):
                style = "random" if j % 5 else rng.choice(["corner", "pareto", "mixed"])
                check_point(kind, m, gen_point(rng, kind, m, m + 9, style), style,
                            dtypes=("float",) if j % 3 else ("np_float64",), with_goals=False)
    # near-front points, oracle only: every class, every m, every scale and shape, float and numpy scalars
    for kind in ("dtlz1", "dtlz2", "dtlz3", "dtlz4"):
        for m in MS + [8, 12]:
            for sc in NEAR_SCALES:
                for shape in NEAR_SHAPES:
                    for j in range(ctx.pick(2, 12)):
                        style = "near:%s:%s" % (shape, sc)
                        check_point(kind, m, gen_point(rng, kind, m, m + 9, style), style,
                                    dtypes=("float",) if j % 2 == 0 else ("np_float64",), with_goals=False)
    for sc in NEAR_SCALES:                      # DTLZ1 with other k, near the front
        for j in range(ctx.pick(3, 12)):
            m, k = rng.choice(MS), rng.randrange(1, 12)
            style = "near:%s:%s" % (rng.choice(NEAR_SHAPES), sc)
            check_point("dtlz1", m, gen_point(rng, "dtlz1", m, m + k - 1, style), style, dtypes=("float",), with_goals=False)
            check_point("zdt1", 2, [rng.random()] + [float(sc) * rng.choice([1.0, 0.3, 0.0]) for _ in range(29)], "zdt1",
                        dtypes=("float",), with_goals=False)
    for j in range(n_oracle):
        m = rng.choice(MS)
        k = rng.randrange(1, 12)
        check_point("dtlz1", m, gen_point(rng, "dtlz1", m, m + k - 1, "random"), "random", dtypes=("float",), with_goals=False)
        check_point("zdt1", 2, [rng.random() for _ in range(30)], "zdt1", dtypes=("float",), with_goals=False)
        check_point("biobj", 2, [rng.uniform(0.1, 1.0), rng.uniform(0.0, 5.0)], "biobj", dtypes=("float",), with_goals=False)

    # ---- all-integer design vectors, oracle only (rule 11): every class, every m, every representation -------------
    n_int = ctx.pick(5, 30)
    for kind in ("dtlz1", "dtlz2", "dtlz3", "dtlz4"):
        for m in MS + [8, 12]:
            for j in range(n_int):
                check_point(kind, m, gen_point(rng, kind, m, m + 9, "corner"), "corner", dtypes=INT_DTYPES, with_goals=False)
            # one position variable on a bound written as an int, everything else floats
            check_point(kind, m, gen_point(rng, kind, m, m + 9, "mixed"), "mixed", dtypes=("float", "mixed_int"), with_goals=False)
    for m in MS:                                   # DTLZ1 with every k = 1..12 (even and odd)
        for k in range(1, 13):
            check_point("dtlz1", m, [1.0] * (m - 1) + [0.0] * k, "corner", dtypes=INT_DTYPES, with_goals=False)
            for j in range(ctx.pick(2, 8)):
                check_point("dtlz1", m, gen_point(rng, "dtlz1", m, m + k - 1, "corner"), "corner", dtypes=INT_DTYPES, with_goals=False)
    for n in (2, 5, 30):
        for j in range(n_int):
            check_point("zdt1", 2, [float(rng.randrange(2)) for _ in range(n)], "zdt1", dtypes=INT_DTYPES, with_goals=False)
        check_point("zdt1", 2, [rng.random()] + [float(rng.randrange(2)) for _ in range(n - 1)], "zdt1", dtypes=("float", "mixed_int"), with_goals=False)
    for x2 in range(6):                            # the integer points of [0.1,1] x [0,5]
        check_point("biobj", 2, [1.0, float(x2)], "biobj", dtypes=INT_DTYPES, with_goals=False)
        check_point("biobj", 2, [rng.uniform(0.1, 1.0), float(x2)], "biobj", dtypes=("float", "mixed_int"), with_goals=False)
        check_point("biobj", 2, [1.0, rng.uniform(0.0, 5.0)], "biobj", dtypes=("float", "mixed_int"), with_goals=False)

    # ---- purity probe: the models are functions of the point; the implementation must be one too --------
    # (no state shared between overlapping evaluations on one problem object - parallel evaluation runs
    #  threads on a shared problem -, no mutation of the caller's vector)
    from harness import core as _core
    stats["purity_probes"] = 0
    probe_specs = [(k_, m_, m_ + 9) for k_ in ("dtlz1", "dtlz2", "dtlz3", "dtlz4") for m_ in (2, 3)] + [("zdt1", 2, 30), ("biobj", 2, 2)]
    for kind, m, n in probe_specs:
        p = problem(kind, m, n)

        def call(vec, p=p):
            ind = Individual([0.0])
            ind.vector = vec
            return list(p.evaluate(ind))
        for _ in range(ctx.pick(2, 10)):
            if kind == "biobj":
                xa, xb = [[rng.uniform(0.1, 1.0), rng.uniform(0.0, 5.0)] for _ in range(2)]
            elif kind == "zdt1":
                xa, xb = [[rng.random() for _ in range(n)] for _ in range(2)]
            else:
                xa, xb = gen_point(rng, kind, m, n, "random"), gen_point(rng, kind, m, n, "random")
            stats["purity_probes"] += 1
            ctx.count(("purity", kind, m, tuple(xa), tuple(xb)))
            for why in _core.purity_probe(call, xa, xb, rng):
                ctx.oracle_failures.append({"what": "%s: %s" % (kind, why), "input": {"class": kind, "m": m, "x": xa, "other": xb},
                                            "match": {"kind": "pareto_bench_purity", "class": kind}})
                ctx.mismatches.append({"what": "implementation is not a function of the point (the model is): " + why,
                                       "correspondence": "c16-purity", "case": {"class": kind, "m": m, "x": xa, "other": xb}})

    stats["goals"] = len(goals)
    stats["near_front_max_residual_over_allowance"] = {k_: float("%.3g" % v_) for k_, v_ in sorted(RESID.items())}
    stats["near_front_allowance"] = {"relative_to_g": REL, "floor": FLOOR, "distance_variables_within": NEAR, "zdt1_biobj_tolerance": ZTOL}
    ctx.coq_goals("c16", HEADER, goals, meta, shard=ctx.pick(22, 60))
    ctx.rule = ("a point is one (class, m, x, input dtype) evaluated by the implementation and checked by the direct oracle; "
                "non-trivial = not the all-0.5 point; distinct = distinct (class, m, x, dtype). Model goals (one per objective value, "
                "deduplicated when the numpy run returns the same bits) cover m in {2,3,4,6} with random points whose position "
                "variables avoid 0.5, corners, Pareto-set points, near-0.5 distance variables, the all-0.5 point, DTLZ1 with k in {1,5,10} (thorough tier also k = 2), "
                "ZDT1 with 2, 5 and 30 variables and the bi-objective box incl. its corners; distance variables approaching 0.5 at the scales "
                "1e-3 .. 1e-12 from both sides (all / one / some / mixed) for every DTLZ class, checked by a tight clause (g-dependent part "
                "of the identity against the exactly recomputed g), ZDT1 with g -> 1, the box edges from inside; every point goes to a "
                "problem constructed with one of: no extra keyword, criteria='minimize' / 'maximize' / 'max', other keywords, or the declared "
                "direction changed in place per objective after construction; the integer points of each box (vertices of [0,1]^n, (1, 0..5) of "
                "the bi-objective box) are also passed as ints: list, tuple, int64 / int32 / uint8 arrays, list of numpy int64, and lists mixing ints "
                "and floats, for every class and m, DTLZ1 with every k = 1..12")
    ctx.extra.update({"input_distribution": stats, "point_goal_tolerance": "1e-9 * (1 + |y_impl|), Interval i_prec 80",
                      "not_covered": "finite-float behaviour of the implementation is sampled only; the R-valued model cannot overflow"})


LEVEL_TEXT = ("Machine-checked Coq theorems over real-valued models of DTLZI-IV, ZDT1 and the bi-objective test problem that mirror "
              "the code's loops and index expressions: for every number of objectives m >= 1 and every vector of dimension m+9 "
              "(DTLZ2-4; m+k-1 with any k >= 1 for DTLZ1) the DTLZ1 objectives sum to (1+g)/2 and the DTLZ2-4 objective vectors have "
              "Euclidean norm 1+g (telescoping induction over m), distance variables at 0.5 give sum 0.5 / norm 1, ZDT1 satisfies "
              "f2 = g(1 - sqrt(f1/g)) with g = 1 + 9 mean(x2..xn) >= 1, the bi-objective problem satisfies f1*f2 = 1+x2 with x1 <> 0, "
              "and every objective is non-negative on the box. The model of the pre-fix DTLZ2 index (finding F6) is refuted in Coq. "
              "The models are tied to benchmark_pareto.py on every run by Interval point goals for every objective value of sampled "
              "points and by a direct float oracle of the identities on thousands more points.")
LEVEL_NOTE = ("Trusted: Coq kernel; the three axioms of the classical reals; Interval (+ primitive int/float axioms) for the "
              "point goals only; the hand-written model and the Python harness. The theorems are about real numbers: floating-point "
              "rounding of the implementation is bounded only on the sampled points (1e-9 relative). pareto_set_images proves that the "
              "Pareto-optimal set is mapped into the simplex / sphere (with non-negativity); that every point of the simplex / positive "
              "orthant of the sphere is attained (surjectivity) is not claimed.")
