"""C12 - space-filling samplers: correspondence with Model/Samplers.v (exact rationals, regime R3)
and a direct oracle on the implementation's output.

The four Generator classes of artap.operators are driven through their public generate():

  LHSGenerator      numpy.random.RandomState is replaced (harness side, for the duration of the call)
                    by a recording wrapper around a seeded RandomState; the kind-tagged tape of calls
                    (rand matrix, permutation arrays, in call order) is an input of the model, which
                    accepts only the call pattern of doe._lhsclassic and fails closed otherwise.
  HaltonGenerator   deterministic.
  UniformGenerator  deterministic.
  RandomGenerator   artap.utils.random is replaced by a recording wrapper around a seeded
                    random.Random; the tape of draws is an input of the model.

The model computes exact rationals from the exact rational values of the floats the implementation
was given (bounds, draws); each output float is compared with the model's rational under the R3
tolerance TOL_ULPS * ulp(M), M = max(|lb|, |ub|, |ub - lb|) of that parameter (see `tol_of`).
The direct oracle evaluates the clauses of the property on the implementation's output alone.
"""
import itertools
import json
import math
import os
import random as pyrandom
from fractions import Fraction

from harness.core import nl, ll, pl, VERIF

PROP = "C12"
THEOREMS = {"Artap.Props.C12": [
    "C12_lhs_stratified", "C12_lhs_in_stratum", "C12_halton_radical_inverse", "C12_primes_correct",
    "C12_grid_complete", "C12_grid_first_last", "C12_random_count_in_box", "C12_random_total", "C12_dimension_ok"]}
AXIOMS_OK = []
TRUSTED = [
    "Coq 8.16.1 kernel, vm_compute (model evaluation in the correspondence; the prime sieve of halton() is checked "
    "against the definition of primality by kernel computation for every parameter count <= 300)",
    "hand-written model Model/Samplers.v tied to doe.py / operators.py / utils.py by this correspondence run",
    "regime R3: the model is exact rational arithmetic; the implementation's binary64 results are compared with it under "
    "a tolerance of 16 ulp of the largest magnitude of the parameter (rigorous first-order bound of the accumulated "
    "rounding of np.linspace, the affine maps and the van der Corput sums; measured maximum reported in the evidence)",
    "numpy.random.RandomState.rand / permutation and random.random are oracle tapes recorded from the run "
    "(the theorems hold for every tape of draws in [0,1) and every family of permutations)",
    "int(n ** 0.5) in the prime sieve is modelled by the integer square root (equal for the sieve limits 10 + 1000 t the code uses)",
]
ASSUMPTIONS = [
    "parameter names are distinct (LHSGenerator / HaltonGenerator key a dict by name)",
    "bounds are finite floats or ints with lb < ub (lb <= ub for Halton and the random generator) and ub - lb, number / precision do not overflow binary64",
    "the random generator's parameters are real-valued (no 'parameter_type': 'integer'); its designs are in the box up to precision / 2 "
    "(rounding to the declared precision, default 1e-12), as in C08",
]

HEADER = ("From Artap Require Import Run.C12Run.\nFrom Coq Require Import List ZArith QArith.\n"
          "Import ListNotations.\nOpen Scope list_scope.\n")

TOL_ULPS = 16
ABS_FLOOR = Fraction(1, 2 ** 1060)        # covers subnormal intermediate results


def Q(x):
    return Fraction(x) if isinstance(x, int) else Fraction(float(x))


def q_lit(f):
    f = Fraction(f)
    return "(%d # %d)%%Q" % (f.numerator, f.denominator)


def mag_of(lo, hi):
    lo, hi = Q(lo), Q(hi)
    return max(abs(lo), abs(hi), abs(hi - lo))


def tol_of(lo, hi):
    m = mag_of(lo, hi)
    if m == 0:
        return ABS_FLOOR
    return Fraction(TOL_ULPS * math.ulp(float(m))) + ABS_FLOOR


def ulps(err, lo, hi):
    m = mag_of(lo, hi)
    if m == 0:
        return 0.0
    return float(err / Fraction(math.ulp(float(m))))


# ---------------------------------------------------------------------------------------------
# generators of inputs
# ---------------------------------------------------------------------------------------------
LOS = [0.0, 0.0, 1.0, -1.0, -5.0, -10.0, 0.5, 2.5, 3.0, 100.0, -2.5, 0.1, -0.30000000000000004, 7.25]
WIDTHS = [1.0, 1.0, 2.0, 0.5, 2.4, 7.5, 10.0, 1e-3, 1e3, 0.1, 3.0, 20.0]


def gen_bound(rng, degenerate=0.0):
    """One (lb, ub) pair; the kind is returned for the distribution record."""
    r = rng.random()
    if r < degenerate / 2:
        a = rng.choice(LOS)
        return (a, a), "lb=ub"
    if r < degenerate:
        a = rng.choice(LOS)
        return (a, a - rng.choice([0.5, 1.0, 3.0])), "lb>ub"
    r = rng.random()
    if r < 0.45:
        a = rng.choice(LOS)
        return (a, a + rng.choice(WIDTHS)), "grid"
    if r < 0.55:
        a, w = rng.choice([(-5, 5), (0, 1), (-3, -1), (0, 10), (1, 4), (-100, 100)]), None
        return (a[0], a[1]), "int"
    if r < 0.70:
        hi = -rng.choice([0.25, 1.0, 3.5, 1e3, 1e-3])
        return (hi - rng.choice(WIDTHS), hi), "negative"
    if r < 0.80:
        s = rng.choice([1e-300, 1e-200, 3e-150, 1e-30])
        a = rng.choice([0.0, 1.0, -1.0, -2.5, 0.5]) * s
        return (a, a + rng.choice([1.0, 2.0, 0.5, 7.5]) * s), "tiny"
    if r < 0.90:
        s = rng.choice([1e300, 1e200, 3e150, 1e30, 1e18])
        a = rng.choice([0.0, 1.0, -1.0, -2.5, 0.5]) * s
        return (a, a + rng.choice([1.0, 2.0, 0.5, 0.75]) * s), "huge"
    a = rng.uniform(-10, 10)
    return (a, a + rng.uniform(0.01, 10)), "random"


def gen_bounds(rng, n, degenerate=0.0):
    out, kinds = [], []
    for _ in range(n):
        b, k = gen_bound(rng, degenerate)
        out.append(b)
        kinds.append(k)
    return out, kinds


def params_of(bounds, precisions=None):
    ps = []
    for i, b in enumerate(bounds):
        p = {"name": "x_%d" % i, "bounds": [b[0], b[1]], "initial_value": b[0]}
        if precisions is not None and precisions[i] is not None:
            p["precision"] = precisions[i]
        ps.append(p)
    return ps


SPECIAL_U = [0.0, 1.0 - 2.0 ** -53, 0.5, 2.0 ** -53, 0.25, 0.75, 0.125, 1.0 - 2.0 ** -20]


# ---------------------------------------------------------------------------------------------
# independent reference implementations for the direct oracle
# ---------------------------------------------------------------------------------------------
def first_primes(n):
    out, c = [], 2
    while len(out) < n:
        if all(c % d for d in range(2, int(math.isqrt(c)) + 1)):
            out.append(c)
        c += 1
    return out


def radical_inverse(i, b):
    """sum_k d_k b^(-k-1) over the base-b digits d_k of i, as an exact Fraction."""
    digits = []
    while i:
        digits.append(i % b)
        i //= b
    return sum(Fraction(d, b ** (k + 1)) for k, d in enumerate(digits))


# ---------------------------------------------------------------------------------------------
def run(ctx):
    import numpy as np
    import artap.operators as ops
    import artap.utils as autils
    import artap.doe as adoe

    rng = ctx.rng
    REAL_RS = np.random.RandomState
    REAL_RANDOM = autils.random

    cases, expected, meta = [], [], []
    stats = {"lhs": 0, "halton": 0, "grid": 0, "random": 0, "raises": 0}
    bound_kinds = {}
    hist_N = {}
    hist_n = {}
    near = {"lhs_columns_skipped_by_oracle": 0, "lhs_columns_checked": 0,
            "random_entries_near_rounding_boundary": 0, "random_entries": 0,
            "random_exact_ties_compared": 0}
    err_stats = {"max_err_ulps": 0.0, "entries_compared": 0, "entries_over_4ulp": 0}
    tape_len = {"rand_entries": 0, "permutations": 0, "random_draws": 0}

    def note_bounds(kinds, N, n):
        for k in kinds:
            bound_kinds[k] = bound_kinds.get(k, 0) + 1
        hist_N[N] = hist_N.get(N, 0) + 1
        hist_n[n] = hist_n.get(n, 0) + 1

    def fail(what, inp, match):
        ctx.oracle_failures.append({"what": what, "input": inp, "match": match})

    def to_rows(res):
        return [[float(x) for x in row] for row in res]

    def obs_lit(rows, tols):
        """rows: floats; tols[i][j]: Fraction"""
        return "(Some %s)" % ll([ll([pl(q_lit(Q(x)), q_lit(t)) for x, t in zip(r, tr)]) for r, tr in zip(rows, tols)])

    def bs_lit(bounds):
        return ll([pl(q_lit(Q(a)), q_lit(Q(b))) for a, b in bounds])

    def shape_ok(kind, rows, N_expected, n, inp):
        ok = True
        if len(rows) != N_expected:
            fail("%s generator returned %d designs, %d required" % (kind, len(rows), N_expected), inp,
                 {"kind": kind + "_count", "got": len(rows), "want": N_expected})
            ok = False
        bad = [len(r) for r in rows if len(r) != n]
        if bad:
            fail("%s generator returned a design with %d coordinates for %d declared parameters" % (kind, bad[0], n), inp,
                 {"kind": kind + "_dimension", "got": bad[0], "want": n})
            ok = False
        return ok

    def observe_err(x, exact_value, lo, hi):
        """informational: the rounding error of one output float against its exact value, in ulp(M)"""
        e = ulps(abs(Q(x) - exact_value), lo, hi)
        err_stats["entries_compared"] += 1
        if e > err_stats["max_err_ulps"]:
            err_stats["max_err_ulps"] = e
        if e > 4:
            err_stats["entries_over_4ulp"] += 1

    # -------------------------------------------------------------------------------------
    # Latin hypercube
    # -------------------------------------------------------------------------------------
    def lhs_case(N, bounds, seed, inject=None, kinds=()):
        """inject: dict (i, j) -> u value forced into the rand matrix (a legal RandomState output)."""
        tape = []
        inject = inject or {}

        class Recorder:
            def __init__(self, *a, **k):
                self._rs = REAL_RS(seed)

            def rand(self, *shape):
                m = self._rs.rand(*shape)
                if m.ndim == 2:
                    for (i, j), v in inject.items():
                        if i < m.shape[0] and j < m.shape[1]:
                            m[i, j] = v
                tape.append(("rand", [[float(x) for x in row] for row in np.atleast_2d(m)] if m.ndim == 2 else None))
                return m

            def permutation(self, x):
                p = self._rs.permutation(x)
                try:
                    tape.append(("perm", [int(v) for v in p]))
                except Exception:
                    tape.append(("other", "permutation"))
                return p

            def __getattr__(self, name):
                tape.append(("other", name))
                return getattr(self._rs, name)

        n = len(bounds)
        g = ops.LHSGenerator(params_of(bounds))
        g.init(N)
        np.random.RandomState = Recorder
        try:
            try:
                res = g.generate()
                rows = to_rows(res)
                exc = None
            except (IndexError, ValueError, ZeroDivisionError, TypeError) as e:
                rows, exc = None, type(e).__name__
        finally:
            np.random.RandomState = REAL_RS

        ev = []
        for kind, val in tape:
            if kind == "rand" and val is not None:
                ev.append("ERand %s" % ll([ll([q_lit(Q(x)) for x in row]) for row in val]))
                tape_len["rand_entries"] += sum(len(r) for r in val)
            elif kind == "perm":
                ev.append("EPerm %s" % ll([nl(v) for v in val]))
                tape_len["permutations"] += 1
            else:
                ev.append("ERand []")        # a call the model does not know: breaks the pattern, fails closed
        case = "CLhs %s %s %s" % (nl(N), bs_lit(bounds), ll(ev))
        m = {"generator": "lhs", "N": N, "bounds": [list(b) for b in bounds], "seed": seed,
             "inject": {"%d,%d" % k: v for k, v in inject.items()},
             "tape_kinds": [k for k, _ in tape], "raises": exc}
        if rows is None:
            exp = "None"
            stats["raises"] += 1
        else:
            tols = [[tol_of(*bounds[j]) if j < n else ABS_FLOOR for j in range(len(r))] for r in rows]
            exp = obs_lit(rows, tols)
            m["output_head"] = rows[:3]
        cases.append(case)
        expected.append(exp)
        meta.append(m)
        stats["lhs"] += 1
        note_bounds(kinds, N, n)
        ctx.count(("lhs", N, tuple(map(tuple, bounds)), seed, tuple(sorted(inject.items()))), nontrivial=(N >= 2 and n >= 1))
        if N >= 3 and n >= 2:
            ctx.sample({k: m[k] for k in ("generator", "N", "bounds", "seed", "output_head")})
        if rows is not None and [k for k, _ in tape] == ["rand"] + ["perm"] * n and N >= 1 and len(rows) == N:
            um = tape[0][1]
            for j, (lo, hi) in enumerate(bounds):
                perm = tape[1 + j][1]
                for i in range(N):
                    if len(rows[i]) == n and len(perm) == N and len(um) == N:
                        r_ = perm[i]
                        observe_err(rows[i][j], Q(lo) + (Q(um[r_][j]) / N + Fraction(r_, N)) * abs(Q(hi) - Q(lo)), lo, hi)
        # ---- direct oracle: exactly one sample in each of the N equal-width strata of every parameter
        if rows is None:
            if N >= 1 and n >= 1:
                fail("LHS generator raised %s for N=%d, %d parameters" % (exc, N, n), m, {"kind": "lhs_raises", "exc": exc})
            return
        inp = {"generator": "LHSGenerator", "N": N, "bounds": [list(b) for b in bounds], "random_state_seed": seed,
               "forced_draws": m["inject"]}
        if not shape_ok("lhs", rows, N, n, inp) or N < 1:
            return
        for j, (lo, hi) in enumerate(bounds):
            lo, hi = Q(lo), Q(hi)
            if not lo < hi:
                continue
            w = hi - lo
            slack = tol_of(lo, hi) * N / w           # tolerance in units of one stratum
            occupied, ambiguous = {}, False
            for i in range(N):
                y = (Q(rows[i][j]) - lo) * N / w      # position in stratum units, exact
                s = math.floor(y)
                if y - s <= slack or (s + 1) - y <= slack:
                    ambiguous = True                  # within the float tolerance of a stratum boundary
                    continue
                if s < 0 or s >= N:
                    fail("LHS sample %d of parameter %d (%r) lies outside [lb, ub) = [%r, %r)" % (i, j, rows[i][j], bounds[j][0], bounds[j][1]),
                         dict(inp, column=j, sample=i, value=rows[i][j]), {"kind": "lhs_out_of_range", "column": j})
                    break
                if s in occupied:
                    fail("LHS design puts samples %d and %d of parameter %d into the same stratum %d of %d (values %r, %r)"
                         % (occupied[s], i, j, s, N, rows[occupied[s]][j], rows[i][j]),
                         dict(inp, column=j, stratum=s, samples=[occupied[s], i], values=[rows[occupied[s]][j], rows[i][j]]),
                         {"kind": "lhs_stratum_twice", "column": j})
                    break
                occupied[s] = i
            if ambiguous:
                near["lhs_columns_skipped_by_oracle"] += 1
            else:
                near["lhs_columns_checked"] += 1

    # -------------------------------------------------------------------------------------
    # Halton
    # -------------------------------------------------------------------------------------
    def halton_case(N, bounds, kinds=()):
        n = len(bounds)
        g = ops.HaltonGenerator(params_of(bounds))
        g.init(N)
        try:
            rows = to_rows(g.generate())
            exc = None
        except (IndexError, ValueError, ZeroDivisionError, TypeError) as e:
            rows, exc = None, type(e).__name__
        m = {"generator": "halton", "N": N, "bounds": [list(b) for b in bounds], "raises": exc}
        if rows is None:
            exp = "None"
            stats["raises"] += 1
        else:
            tols = [[tol_of(*bounds[j]) if j < n else ABS_FLOOR for j in range(len(r))] for r in rows]
            exp = obs_lit(rows, tols)
            m["output_head"] = rows[:3]
        cases.append("CHalton %s %s" % (nl(N), bs_lit(bounds)))
        expected.append(exp)
        meta.append(m)
        stats["halton"] += 1
        note_bounds(kinds, N, n)
        ctx.count(("halton", N, tuple(map(tuple, bounds))), nontrivial=(N >= 1 and n >= 1))
        if N >= 3 and n >= 3:
            ctx.sample({k: m[k] for k in ("generator", "N", "bounds", "output_head")})
        if rows is None:
            if n >= 1:
                fail("Halton generator raised %s for N=%d, %d parameters" % (exc, N, n), m, {"kind": "halton_raises", "exc": exc})
            return
        inp = {"generator": "HaltonGenerator", "N": N, "bounds": [list(b) for b in bounds]}
        if not shape_ok("halton", rows, N, n, inp):
            return
        primes = first_primes(n)
        for j, (lo, hi) in enumerate(bounds):
            lo, hi = Q(lo), Q(hi)
            if lo > hi:
                continue
            t = tol_of(lo, hi)
            for i in range(1, N + 1):
                want = lo + radical_inverse(i, primes[j]) * (hi - lo)
                got = Q(rows[i - 1][j])
                e = abs(got - want)
                observe_err(rows[i - 1][j], want, lo, hi)
                if e > t:
                    fail("Halton point %d, parameter %d: %r, required lb + phi_%d(%d) (ub - lb) = %r"
                         % (i, j, rows[i - 1][j], primes[j], i, float(want)),
                         dict(inp, point=i, column=j, base=primes[j], value=rows[i - 1][j], required=float(want)),
                         {"kind": "halton_value", "column": j})
                    break

    # -------------------------------------------------------------------------------------
    # uniform grid
    # -------------------------------------------------------------------------------------
    def grid_case(k, bounds, kinds=()):
        n = len(bounds)
        g = ops.UniformGenerator(params_of(bounds))
        g.init(k)
        try:
            rows = to_rows(g.generate())
            exc = None
        except (IndexError, ValueError, ZeroDivisionError, TypeError) as e:
            rows, exc = None, type(e).__name__
        m = {"generator": "grid", "k": k, "bounds": [list(b) for b in bounds], "raises": exc}
        if rows is None:
            exp = "None"
            stats["raises"] += 1
        else:
            tols = [[tol_of(*bounds[j]) if j < n else ABS_FLOOR for j in range(len(r))] for r in rows]
            exp = obs_lit(rows, tols)
            m["output_head"] = rows[:3]
        cases.append("CGrid %s %s" % (nl(k), bs_lit(bounds)))
        expected.append(exp)
        meta.append(m)
        stats["grid"] += 1
        note_bounds(kinds, k, n)
        ctx.count(("grid", k, tuple(map(tuple, bounds))), nontrivial=(k >= 2 and n >= 1))
        if k >= 3 and n == 2:
            ctx.sample({kk: m[kk] for kk in ("generator", "k", "bounds", "output_head")})
        if k < 2:
            return
        if rows is None:
            fail("uniform generator raised %s for k=%d, %d parameters" % (exc, k, n), m, {"kind": "grid_raises", "exc": exc})
            return
        inp = {"generator": "UniformGenerator", "k": k, "bounds": [list(b) for b in bounds]}
        if not shape_ok("grid", rows, k ** n, n, inp):
            return
        if not all(Q(lo) < Q(hi) for lo, hi in bounds):
            return
        seen = {}
        for r_i, row in enumerate(rows):
            idx = []
            for j, (lo, hi) in enumerate(bounds):
                lo, hi = Q(lo), Q(hi)
                x = Q(row[j])
                lvl = round((x - lo) * (k - 1) / (hi - lo))
                lvl = min(max(lvl, 0), k - 1)
                want = lo + lvl * (hi - lo) / (k - 1)
                observe_err(row[j], want, lo, hi)
                if abs(x - want) > tol_of(lo, hi):
                    fail("grid row %d, parameter %d: %r is none of the %d equally spaced levels from %r to %r (nearest level %d = %r)"
                         % (r_i, j, row[j], k, bounds[j][0], bounds[j][1], lvl, float(want)),
                         dict(inp, row=r_i, column=j, value=row[j], nearest_level=float(want)),
                         {"kind": "grid_level", "column": j})
                    return
                idx.append(lvl)
            idx = tuple(idx)
            if idx in seen:
                fail("grid rows %d and %d are the same combination of levels %r" % (seen[idx], r_i, idx),
                     dict(inp, rows=[seen[idx], r_i], levels=list(idx)), {"kind": "grid_duplicate"})
                return
            seen[idx] = r_i
        # k^n rows, pairwise different combinations of level indices in 0..k-1  =>  every combination exactly once

    # -------------------------------------------------------------------------------------
    # random generator
    # -------------------------------------------------------------------------------------
    def simple(x):
        f = Q(x)
        return abs(f.numerator) < 2 ** 20 and f.denominator <= 2 ** 20

    def pow2(x):
        f = Q(x)
        return f > 0 and f.numerator & (f.numerator - 1) == 0 and f.denominator & (f.denominator - 1) == 0

    def random_case(N, bounds, precisions, seed, inject=None, kinds=()):
        n = len(bounds)
        inject = inject or {}
        tape = []
        src = pyrandom.Random(seed)

        def rec_random():
            v = src.random()
            if len(tape) in inject:
                v = inject[len(tape)]
            tape.append(v)
            return v

        g = ops.RandomGenerator(params_of(bounds, precisions))
        g.init(N)
        autils.random = rec_random
        try:
            try:
                res = g.generate()
                rows = to_rows(res)
                exc = None
            except (IndexError, ValueError, ZeroDivisionError, TypeError, OverflowError) as e:
                rows, exc = None, type(e).__name__
        finally:
            autils.random = REAL_RANDOM
        tape_len["random_draws"] += len(tape)
        precs = [0 if p is None else p for p in precisions]
        m = {"generator": "random", "N": N, "bounds": [list(b) for b in bounds], "precisions": precisions, "seed": seed,
             "inject": {str(k): v for k, v in inject.items()}, "draws": len(tape), "raises": exc}
        if rows is None:
            exp = "None"
            stats["raises"] += 1
        else:
            tols = []
            for r_i, r in enumerate(rows):
                tr = []
                for j in range(len(r)):
                    if j >= n:
                        tr.append(ABS_FLOOR)
                        continue
                    lo, hi = Q(bounds[j][0]), Q(bounds[j][1])
                    t = tol_of(lo, hi)
                    p = Q(precs[j]) if Q(precs[j]) != 0 else Q(1e-12)
                    near["random_entries"] += 1
                    pos = r_i * n + j
                    if p > t / 2 and pos < len(tape):
                        # the rounding round(number / precision) is a discrete outcome: if the exact quotient is
                        # within the float tolerance of a half-integer the two roundings may legitimately differ by
                        # one unit of precision -> the entry is compared with tolerance widened by one unit (counted)
                        u = Q(tape[pos])
                        q = (u * (hi - lo) + lo) / p
                        d = abs((q - math.floor(q)) - Fraction(1, 2))
                        exact_float_path = (d == 0 and simple(u) and simple(lo) and simple(hi) and pow2(p))
                        if exact_float_path:
                            near["random_exact_ties_compared"] += 1
                        elif d <= t / p:
                            near["random_entries_near_rounding_boundary"] += 1
                            t = t + abs(p)
                    tr.append(t)
                tols.append(tr)
            exp = obs_lit(rows, tols)
            m["output_head"] = rows[:3]
        cases.append("CRandom %s %s %s" % (
            nl(N), ll([pl(q_lit(Q(b[0])), q_lit(Q(b[1])), q_lit(Q(pr))) for b, pr in zip(bounds, precs)]),
            ll([q_lit(Q(u)) for u in tape])))
        expected.append(exp)
        meta.append(m)
        stats["random"] += 1
        note_bounds(kinds, N, n)
        ctx.count(("random", N, tuple(map(tuple, bounds)), tuple(precs), seed, tuple(sorted(inject.items()))), nontrivial=(N >= 1 and n >= 1))
        if N >= 2 and n >= 2:
            ctx.sample({k: m[k] for k in ("generator", "N", "bounds", "precisions", "seed", "output_head")})
        inp = {"generator": "RandomGenerator", "N": N, "bounds": [list(b) for b in bounds], "precisions": precisions,
               "random_seed": seed, "forced_draws": m["inject"]}
        if rows is None:
            fail("random generator raised %s for N=%d, %d parameters" % (exc, N, n), inp, {"kind": "random_raises", "exc": exc})
            return
        if not shape_ok("random", rows, N, n, inp):
            return
        for r_i, row in enumerate(rows):
            for j, (lo, hi) in enumerate(bounds):
                lo, hi = Q(lo), Q(hi)
                if lo > hi:
                    continue
                p = abs(Q(precs[j])) if Q(precs[j]) != 0 else Q(1e-12)
                slack = p / 2 + tol_of(lo, hi)
                x = Q(row[j])
                if x < lo - slack or x > hi + slack:
                    fail("random design %d, parameter %d: %r is outside [%r, %r] (precision %r)" % (r_i, j, row[j], bounds[j][0], bounds[j][1], float(p)),
                         dict(inp, design=r_i, column=j, value=row[j]), {"kind": "random_out_of_box", "column": j})
                    return

    # -------------------------------------------------------------------------------------
    # corpus first
    # -------------------------------------------------------------------------------------
    cdir = os.path.join(VERIF, "corpus", "C12")
    corpus_n = 0
    if os.path.isdir(cdir):
        for fn in sorted(os.listdir(cdir)):
            if not fn.endswith(".json"):
                continue
            for c in json.load(open(os.path.join(cdir, fn)))["cases"]:
                corpus_n += 1
                b = [tuple(x) for x in c["bounds"]]
                if c["generator"] == "lhs":
                    inj = {tuple(int(t) for t in k.split(",")): v for k, v in c.get("inject", {}).items()}
                    lhs_case(c["N"], b, c.get("seed", 0), inj, ["corpus"] * len(b))
                elif c["generator"] == "halton":
                    halton_case(c["N"], b, ["corpus"] * len(b))
                elif c["generator"] == "grid":
                    grid_case(c["k"], b, ["corpus"] * len(b))
                elif c["generator"] == "random":
                    inj = {int(k): v for k, v in c.get("inject", {}).items()}
                    random_case(c["N"], b, c.get("precisions", [None] * len(b)), c.get("seed", 0), inj, ["corpus"] * len(b))

    # -------------------------------------------------------------------------------------
    # generated cases
    # -------------------------------------------------------------------------------------
    n_lhs = ctx.pick(260, 4000)
    n_halton = ctx.pick(110, 1200)
    n_grid = ctx.pick(110, 1200)
    n_random = ctx.pick(260, 4000)
    NMAX = ctx.pick(40, 40)

    def pick_N():
        r = rng.random()
        if r < 0.25:
            return rng.choice([1, 2, 3, 4, 5])
        if r < 0.35:
            return rng.choice([NMAX, NMAX - 1, 32, 16, 27])
        return rng.randint(1, NMAX)

    def pick_n():
        return rng.choice([1, 1, 2, 2, 3, 3, 4, 5, 6, 7, 8])

    for _ in range(n_lhs):
        N, n = pick_N(), pick_n()
        r = rng.random()
        if r < 0.03:
            n = 0
        elif r < 0.05:
            N = 0
        bounds, kinds = gen_bounds(rng, n, degenerate=0.08)
        inject = {}
        if N > 0 and n > 0 and rng.random() < 0.25:
            for _ in range(rng.choice([1, 1, 2, 4, N])):
                inject[(rng.randrange(N), rng.randrange(n))] = rng.choice(SPECIAL_U)
        lhs_case(N, bounds, rng.randrange(2 ** 31), inject, kinds)

    for _ in range(n_halton):
        N, n = pick_N(), pick_n()
        r = rng.random()
        if r < 0.03:
            n = 0
        elif r < 0.06:
            N = 0
        elif r < 0.10 and ctx.thorough:
            n = rng.choice([9, 12, 16])
        bounds, kinds = gen_bounds(rng, n, degenerate=0.08)
        halton_case(N, bounds, kinds)

    for _ in range(n_grid):
        n = pick_n()
        cap = ctx.pick(2100, 5000)
        ks = [k for k in [2, 2, 3, 3, 4, 5, 6, 7, 9, 12, 25, 40] if k ** n * max(n, 1) <= cap]
        k = rng.choice(ks)
        r = rng.random()
        if r < 0.04:
            k = rng.choice([0, 1])
        elif r < 0.06:
            n = 0
        bounds, kinds = gen_bounds(rng, n, degenerate=0.08)
        grid_case(k, bounds, kinds)

    PRECS = [None, None, None, 0, 0.5, 0.25, 0.1, 1e-3, 1e-6, 1.0, 2.0, 0.3]
    for _ in range(n_random):
        N, n = pick_N(), pick_n()
        r = rng.random()
        if r < 0.03:
            n = 0
        elif r < 0.05:
            N = 0
        bounds, kinds = [], []
        precs = []
        for _j in range(n):
            while True:
                b, kd = gen_bound(rng, 0.06)
                p = rng.choice(PRECS)
                # number / precision must stay a finite double (the code calls round() on it)
                pe = 1e-12 if not p else p
                if max(abs(float(b[0])), abs(float(b[1]))) / pe < 1e300:
                    break
            bounds.append(b)
            kinds.append(kd)
            precs.append(p)
        inject = {}
        if N > 0 and n > 0 and rng.random() < 0.3:
            for _ in range(rng.choice([1, 2, 4])):
                inject[rng.randrange(N * n)] = rng.choice(SPECIAL_U)
        random_case(N, bounds, precs, rng.randrange(2 ** 31), inject, kinds)

    bad = ctx.coq_compare("c12", HEADER, "c12_case", "c12_obs", "c12_run", "c12_eqb", cases, expected, meta,
                          shard=ctx.pick(24, 60))

    # measured rounding error of the implementation against an exact evaluation (harness side, informational):
    # the deterministic generators only, where the exact value is known without the model
    ctx.rule = ("one case = one generate() call of LHSGenerator / HaltonGenerator / UniformGenerator / RandomGenerator; "
                "parameter counts 0..8 (Halton up to 16 in the thorough tier), N 0..%d, grid k 0..40 with k^n * n <= cap; bounds from value "
                "grids, ints, negative, tiny (1e-300..1e-30), huge (1e18..1e300), random and a degenerate stream (lb = ub, lb > ub); "
                "forced extreme draws (0, 1-2^-53, exact rounding ties) in a quarter of the randomised cases; a case is non-trivial "
                "when N >= 1 (LHS: N >= 2; grid: k >= 2) and there is at least one parameter; distinct = distinct (generator, N, bounds, seed, forced draws)") % NMAX
    ctx.extra.update({
        "cases_by_generator": stats, "corpus_cases": corpus_n, "bounds_kinds": bound_kinds,
        "N_histogram": {str(k): v for k, v in sorted(hist_N.items())},
        "parameter_count_histogram": {str(k): v for k, v in sorted(hist_n.items())},
        "near_boundary": near, "tape_lengths": tape_len, "measured_rounding_error": err_stats,
        "tolerance": "%d ulp of max(|lb|,|ub|,|ub-lb|) per entry (+ one unit of precision for random-generator entries "
                     "whose exact quotient is within that tolerance of a rounding boundary)" % TOL_ULPS,
    })


LEVEL_TEXT = ("Machine-checked Coq theorems over an exact-rational model of the four samplers, for every sample count N >= 1, every "
              "parameter count, all bounds lb < ub, every tape of draws in [0,1) and every family of permutations: each column of a "
              "Latin-hypercube design has exactly one sample in each of the N equal-width strata; the van der Corput loop computes the "
              "radical inverse (digit-reversal sum) so Halton point i, coordinate j is lb_j + phi_{p_j}(i) (ub_j - lb_j), with the 2/3-wheel "
              "sieve proved to deliver the first n primes for every n <= 300 (kernel computation, bound in the statement); the uniform grid "
              "has k^n rows, contains exactly the combinations of the k levels lb + i (ub - lb)/(k-1), each once, first level lb, last ub; the "
              "random generator returns N designs within precision/2 of the box; all return one coordinate per parameter. The model is tied "
              "to doe.py / operators.py / utils.py on every run by evaluating it in Coq on the recorded draw tapes and comparing every "
              "coordinate with the implementation's float under a 16-ulp tolerance.")
LEVEL_NOTE = ("Trusted: Coq kernel + vm_compute; the hand-written model and the Python harness; binary64 rounding is outside the model "
              "(R3: results compared under a stated tolerance, rounding ties near a boundary skipped and counted). primes_correct is proved "
              "for n <= 300 parameters (bound in the statement), everything else is unbounded. Correspondence is sampled.")
