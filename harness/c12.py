"""C12 - space-filling samplers: correspondence with Model/Samplers.v (exact rationals, regime R3)
and a direct oracle on the implementation's output.

The four Generator classes of artap.operators are driven through their public generate(), in
HISTORIES: one shared parameter list (the list of dicts a Problem holds), one long-lived generator
object per class re-initialised with changing numbers, the four classes interleaved and repeated,
with generators of other designs (Box-Behnken, Plackett-Burman, full factorial) called in between.
Every run is compared with the model evaluated on the CURRENT declared bounds, and the parameter
dicts are compared with their snapshot after every generate().  "Current": histories contain `rebound`
steps in which the harness (the user) changes the declared box between two generate() calls of one
long-lived generator object - item assignment on the bounds list, rebinding the 'bounds' entry, replacing
the dicts inside the shared list, giving every live generator a new same-length parameter list - followed
by the same call again (init() with the same number, or no init() at all); corpus/C12/rebound.json has
every sampler x every way of changing x both repetitions, the random histories insert them at random.

  LHSGenerator      numpy.random.RandomState is replaced (harness side, for the duration of the call)
                    by a recording wrapper around a seeded RandomState; the kind-tagged tape of calls
                    (rand matrix, permutation arrays, in call order) is an input of the model, which
                    accepts only the call pattern of doe._lhsclassic and fails closed otherwise.
  HaltonGenerator   deterministic.
  UniformGenerator  deterministic.
  RandomGenerator   artap.utils.random is replaced by a recording wrapper around a seeded
                    random.Random; the tape of draws is an input of the model.

The model computes exact rationals from the exact rational values of the floats the implementation
was given (bounds, draws); each output float is compared with the model's rational under the R3
tolerance TOL_ULPS * ulp(M), M = max(|lb|, |ub|, |ub - lb|) of that parameter (see `tol_of`).
The direct oracle evaluates the clauses of the property on the implementation's output alone.

Besides the random histories there are DIRECTED streams at the exact boundaries of every size / loop-bound /
digit-count computation of the anchored code (see `directed_histories`): Halton designs with N = p^k - 1, p^k,
p^k + 1 for every base p in use, parameter counts around the sieve enlargements (4/5, 169/170, 304/305), a
one-parameter grid sweep over the level count, large LHS and random-generator designs.  For Halton designs
with more than FULL_MAX points the model is evaluated on SELECTED point numbers only (first, last, around the
powers of every base in use, a few random ones) through the closed form of one row (Run.C12Run.CHaltonAt;
theorem C12_halton_selected_rows: these are the rows of build_halton N bs); the direct oracle checks the same
points exactly and every point of the design against an independent vectorised float radical inverse
(candidates confirmed exactly).

What Coq evaluates is `c12_check (case, observation)` (a compact report, `ROk` iff `c12_eqb (c12_run case)
observation`, lemma c12_check_ok in Run/C12Run.v): printing the model's full output of a mismatching case with
bounds of the order 1e-300 took minutes.  The case list is submitted in chunks and submission stops once
MISMATCH_CAP mismatches are recorded; the direct oracle stops after ORACLE_CAP failures (both caps are
recorded in the evidence; on a clean run nothing is skipped).
"""
import copy
import json
import math
import os
import random as pyrandom
from fractions import Fraction

from harness.core import ll, pl, VERIF, translated_specs
TRANSLATED = translated_specs("VdcGen", "PrimesGen")      # doe._van_der_corput, doe._primes_from_2_to (numpy front-end), regenerated from the source on every run (notes/TRANSLATOR.md)

PROP = "C12"
THEOREMS = {"Artap.Props.C12": [
    "C12_lhs_stratified", "C12_lhs_sample_in_stratum", "C12_halton_radical_inverse", "C12_halton_selected_rows",
    "C12_primes_correct",
    "C12_grid_complete", "C12_grid_first_last", "C12_random_count_in_box", "C12_random_total", "C12_dimension_ok"]}
AXIOMS_OK = []
TRUSTED = [
    "Coq 8.16.1 kernel, vm_compute (model evaluation in the correspondence; the prime sieve of halton() is checked "
    "against the definition of primality by kernel computation for every parameter count <= 300)",
    "hand-written model Model/Samplers.v tied to doe.py / operators.py / utils.py by this correspondence run",
    "regime R3: the model is exact rational arithmetic; the implementation's binary64 results are compared with it under "
    "a tolerance of 16 ulp of the largest magnitude of the parameter (a rigorous first-order bound of the accumulated "
    "rounding of np.linspace, the affine maps and the van der Corput sums is 11 ulp; the measured maximum is in the evidence)",
    "numpy.random.RandomState.rand / permutation and random.random are oracle tapes recorded from the run "
    "(the theorems hold for every tape of draws in [0,1) and every family of permutations)",
    "int(n ** 0.5) in the prime sieve is modelled by the integer square root (equal for the sieve limits 10 + 1000 t the code uses)",
    "the generated case files write binary64 values as primitive float literals and sizes as primitive integers; Run.C12Run.ff / ni "
    "convert them exactly inside Coq (Prim2SF, Uint63.to_Z: kernel primitives; checked on fixed values by Example ff_exact); "
    "Coq evaluates the compact report c12_check, proved equivalent to c12_eqb (c12_run case) observation (lemma c12_check_ok)",
    "Halton designs with more than 64 points are compared with the model at selected point numbers only (first, last, around the powers "
    "of every base in use, random ones) through build_halton_at, proved equal to those rows of build_halton (C12_halton_selected_rows)",
]
ASSUMPTIONS = [
    "parameter names are distinct (LHSGenerator / HaltonGenerator key a dict by name)",
    "bounds are finite floats or ints with lb < ub (lb <= ub for Halton and the random generator) and ub - lb, number / precision do not overflow binary64",
    "the random generator's parameters are real-valued (no 'parameter_type': 'integer'); its designs are in the box up to precision / 2 "
    "(rounding to the declared precision, default 1e-12), as in C08",
]

HEADER = ("From Artap Require Import Run.C12Run.\nFrom Coq Require Import List ZArith QArith Floats Uint63.\n"
          "Import ListNotations.\nOpen Scope list_scope.\n")

TOL_ULPS = 16
FULL_MAX = 64          # Halton designs with more points are compared on selected point numbers only
MISMATCH_CAP = 25      # no further chunk of cases is submitted to Coq once this many mismatches are recorded
ORACLE_CAP = 25        # the direct oracle stops working after this many failures


def Q(x):
    return Fraction(x) if isinstance(x, int) else Fraction(float(x))


def q_lit(f):
    """exact rational -> Coq term.  A value that is exactly a binary64 number (nearly all are) is written as the
    primitive float literal `(ff 0x1.8p+1)`, which Coq reads natively and Run.C12Run.ff converts exactly; number
    notations of Z cost about 1.4 ms per literal.  Other dyadic rationals as fq m e = m * 2^e, the rest as n # d."""
    f = Fraction(f)
    try:
        x = float(f)
        if math.isfinite(x) and Fraction(x) == f:
            h = x.hex()
            return "(ff (%s))" % h if h.startswith("-") else "(ff %s)" % h
    except OverflowError:
        pass
    d = f.denominator
    if d & (d - 1) == 0:
        m, e = f.numerator, -(d.bit_length() - 1)
        if m != 0:
            tz = (m & -m).bit_length() - 1
            if e == 0 and tz > 0:
                m >>= tz
                e = tz
        else:
            e = 0
        return "(fq %s %s)" % (("(%d)" % m) if m < 0 else str(m), ("(%d)" % e) if e < 0 else str(e))
    return "(%d # %d)%%Q" % (f.numerator, d)


def nat_lit(v):
    """nat through a primitive integer literal (read natively; `5%nat` goes through a Gallina conversion)"""
    v = int(v)
    assert 0 <= v < 2 ** 62
    return "(ni %d)" % v


def f_lit(x):
    """binary64 number -> the same literal as q_lit(Fraction(x)), without going through Fraction"""
    h = float(x).hex()
    return "(ff (%s))" % h if h.startswith("-") else "(ff %s)" % h


def mag_of(lo, hi):
    lo, hi = Q(lo), Q(hi)
    return max(abs(lo), abs(hi), abs(hi - lo))


_ULP = {}


def ulp_of(lo, hi):
    k = (float(lo), float(hi))           # bounds are binary64 numbers or small ints: float() is exact
    if k not in _ULP:
        if len(_ULP) > 20000:
            _ULP.clear()
        _ULP[k] = Fraction(math.ulp(float(mag_of(lo, hi))))
    return _ULP[k]


def tol_of(lo, hi):
    return TOL_ULPS * ulp_of(lo, hi)


# ---------------------------------------------------------------------------------------------
# generators of inputs
# ---------------------------------------------------------------------------------------------
LOS = [0.0, 0.0, 1.0, -1.0, -5.0, -10.0, 0.5, 2.5, 3.0, 100.0, -2.5, 0.1, -0.30000000000000004, 7.25]
WIDTHS = [1.0, 1.0, 2.0, 0.5, 2.4, 7.5, 10.0, 1e-3, 1e3, 0.1, 3.0, 20.0]
INTS = [(-5, 5), (0, 1), (-3, -1), (0, 10), (1, 4), (-100, 100)]


def gen_bound(rng, degenerate=0.0, extreme=False):
    """One (lb, ub) pair and its kind (for the distribution record)."""
    r = rng.random()
    if r < degenerate / 2:
        a = rng.choice(LOS)
        return (a, a), "lb=ub"
    if r < degenerate:
        a = rng.choice(LOS)
        return (a, a - rng.choice([0.5, 1.0, 3.0])), "lb>ub"
    r = rng.random()
    if r < 0.45:
        a = rng.choice(LOS)
        return (a, a + rng.choice(WIDTHS)), "grid"
    if r < 0.55:
        a = rng.choice(INTS)
        return (a[0], a[1]), "int"
    if r < 0.70:
        hi = -rng.choice([0.25, 1.0, 3.5, 1e3, 1e-3])
        return (hi - rng.choice(WIDTHS), hi), "negative"
    if r < 0.80:
        s = rng.choice([1e-300, 1e-200, 3e-150] if extreme else [1e-30, 1e-9, 3e-15])
        a = rng.choice([0.0, 1.0, -1.0, -2.5, 0.5]) * s
        return (a, a + rng.choice([1.0, 2.0, 0.5, 7.5]) * s), "tiny"
    if r < 0.90:
        s = rng.choice([1e300, 1e200, 3e150] if extreme else [1e30, 1e18, 3e9])
        a = rng.choice([0.0, 1.0, -1.0, -2.5, 0.5]) * s
        return (a, a + rng.choice([1.0, 2.0, 0.5, 0.75]) * s), "huge"
    a = rng.uniform(-10, 10)
    return (a, a + rng.uniform(0.01, 10)), "random"


PRECS = [None, None, None, None, 0, 0.5, 0.25, 0.1, 1e-3, 1e-6, 1.0, 2.0, 0.3]
SPECIAL_U = [0.0, 1.0 - 2.0 ** -53, 0.5, 2.0 ** -53, 0.25, 0.75, 0.125, 1.0 - 2.0 ** -20]


# ---------------------------------------------------------------------------------------------
# independent reference implementations for the direct oracle
# ---------------------------------------------------------------------------------------------
def first_primes(n):
    out, c = [], 2
    while len(out) < n:
        if all(c % d for d in range(2, math.isqrt(c) + 1)):
            out.append(c)
        c += 1
    return out


def radical_inverse(i, b):
    """sum_k d_k b^(-k-1) over the base-b digits d_k of i, as an exact Fraction: the digit-reversed integer over b^digits."""
    num, den = 0, 1
    while i:
        i, d = divmod(i, b)
        num = num * b + d
        den *= b
    return Fraction(num, den)


# ---------------------------------------------------------------------------------------------
def run(ctx):
    import numpy as np
    import artap.operators as ops
    import artap.utils as autils

    rng = ctx.rng
    REAL_RS = np.random.RandomState
    REAL_RANDOM = autils.random
    CAUGHT = (IndexError, ValueError, ZeroDivisionError, TypeError, OverflowError, KeyError, AttributeError)

    cases, expected, meta, weights = [], [], [], []
    stats = {"lhs": 0, "halton": 0, "halton_selected_points": 0, "grid": 0, "random": 0, "raises": 0}
    hist_stats = {"histories": 0, "steps": 0, "interleaved_other_generators": 0, "repeated_generator_objects": 0,
                  "parameter_mutations": 0, "followup_steps_after_mutation": 0}
    bound_kinds, hist_N, hist_n, reprs = {}, {}, {}, {}
    near = {"lhs_columns_with_near_boundary_samples": 0, "lhs_columns_checked": 0,
            "random_entries": 0, "random_entries_near_rounding_boundary": 0,
            "random_entries_precision_below_float_resolution": 0, "random_exact_ties_compared": 0}
    err_stats = {"max_err_ulps": 0.0, "entries_compared": 0, "entries_over_4ulp": 0}
    tape_len = {"rand_entries": 0, "permutations": 0, "random_draws": 0}
    stats_all = {"halton_points_float_checked": 0, "halton_float_candidates": 0}

    caps = {"oracle_calls_skipped_after_cap": 0, "cases_not_submitted_after_mismatch_cap": 0,
            "mismatch_cap": MISMATCH_CAP, "oracle_cap": ORACLE_CAP}

    def fail(what, inp, match):
        ctx.oracle_failures.append({"what": what, "input": inp, "match": match})

    def oracle_capped():
        """True once ORACLE_CAP failures are recorded: the direct oracle does no further work (counted)"""
        if len(ctx.oracle_failures) >= ORACLE_CAP:
            caps["oracle_calls_skipped_after_cap"] += 1
            return True
        return False

    class NonFinite(ValueError):
        pass

    def to_rows(res):
        rows = [[float(x) for x in row] for row in res]
        if any(not math.isfinite(x) for r in rows for x in r):
            raise NonFinite("non-finite coordinate")      # reported like an exception of the call
        return rows

    def obs_lit(rows, tols):
        return "(Some %s)" % ll([ll([pl(f_lit(x), q_lit(t)) for x, t in zip(r, tr)]) for r, tr in zip(rows, tols)])

    def obs_cols_lit(rows, bounds):
        """one tolerance per column (coordinates beyond the declared parameters get tolerance 0)"""
        return "(obs_cols %s %s)" % (ll([q_lit(tol_of(*b)) for b in bounds]), ll([ll([f_lit(x) for x in r]) for r in rows]))

    def bs_lit(bounds):
        return ll([pl(q_lit(Q(a)), q_lit(Q(b))) for a, b in bounds])

    def observe_err(x, exact_value, lo, hi):
        """informational: rounding error of one output float against its exact value, in ulp(M)"""
        e = float(abs(Q(x) - exact_value) / ulp_of(lo, hi))
        err_stats["entries_compared"] += 1
        if e > err_stats["max_err_ulps"]:
            err_stats["max_err_ulps"] = e
        if e > 4:
            err_stats["entries_over_4ulp"] += 1

    def shape_ok(kind, rows, N_expected, n, inp):
        ok = True
        if len(rows) != N_expected:
            fail("%s generator returned %d designs, %d required" % (kind, len(rows), N_expected), inp,
                 {"kind": kind + "_count", "got": len(rows), "want": N_expected})
            ok = False
        bad = [len(r) for r in rows if len(r) != n]
        if bad:
            fail("%s generator returned a design with %d coordinates for %d declared parameters" % (kind, bad[0], n), inp,
                 {"kind": kind + "_dimension", "got": bad[0], "want": n})
            ok = False
        return ok

    def emit(kind, case, exp, m, N, n, key, nontrivial, weight=1):
        cases.append("(%s, %s)" % (case, exp))
        expected.append("ROk")
        weights.append(weight)
        meta.append(m)
        stats[kind] += 1
        hist_N[N] = hist_N.get(N, 0) + 1
        hist_n[n] = hist_n.get(n, 0) + 1
        ctx.count(key, nontrivial=nontrivial)

    # -------------------------------------------------------------------------------------
    # Latin hypercube.  `gen` is the (possibly long-lived) LHSGenerator, `bounds` the declared bounds CURRENT at the time of the call
    # -------------------------------------------------------------------------------------
    def lhs_step(gen, N, bounds, seed, inject, hinfo, do_init=True):
        tape = []

        class Recorder:
            def __init__(self, *a, **k):
                self._rs = REAL_RS(seed)

            def rand(self, *shape):
                m = self._rs.rand(*shape)
                if m.ndim == 2:
                    for (i, j), v in inject.items():
                        if i < m.shape[0] and j < m.shape[1]:
                            m[i, j] = v
                    tape.append(("rand", [[float(x) for x in row] for row in m]))
                else:
                    tape.append(("other", "rand%r" % (shape,)))
                return m

            def permutation(self, x):
                p = self._rs.permutation(x)
                try:
                    tape.append(("perm", [int(v) for v in p]))
                except Exception:
                    tape.append(("other", "permutation"))
                return p

            def __getattr__(self, name):
                tape.append(("other", name))
                return getattr(self._rs, name)

        n = len(bounds)
        if do_init:
            gen.init(N)
        np.random.RandomState = Recorder
        try:
            try:
                rows, exc = to_rows(gen.generate()), None
            except CAUGHT as e:
                rows, exc = None, type(e).__name__
        finally:
            np.random.RandomState = REAL_RS

        ev = []
        for kind, val in tape:
            if kind == "rand":
                ev.append("ERand %s" % ll([ll([f_lit(x) for x in row]) for row in val]))
                tape_len["rand_entries"] += sum(len(r) for r in val)
            elif kind == "perm":
                ev.append("EPerm (nis %s%%uint63)" % ll([str(int(v)) for v in val]))
                tape_len["permutations"] += 1
            else:
                ev.append("ERand []")        # a call the model does not know: breaks the pattern, the model fails closed
        m = dict(hinfo, generator="lhs", N=N, bounds=[list(b) for b in bounds], seed=seed,
                 inject={"%d,%d" % k: v for k, v in inject.items()}, tape_kinds=[k for k, _ in tape], raises=exc)
        if rows is None:
            exp = "None"
            stats["raises"] += 1
        else:
            exp = obs_cols_lit(rows, bounds)
            m["output_head"] = rows[:3]
        emit("lhs", "CLhs %s %s %s" % (nat_lit(N), bs_lit(bounds), ll(ev)), exp, m, N, n,
             ("lhs", N, tuple(map(tuple, bounds)), seed, tuple(sorted(inject.items()))), N >= 2 and n >= 1,
             weight=1 + (N * N * max(n, 1)) // 4000)
        if N >= 3 and n >= 2 and rows is not None:
            ctx.sample({k: m[k] for k in ("generator", "N", "bounds", "seed", "output_head")})
        if rows is not None and [k for k, _ in tape] == ["rand"] + ["perm"] * n and N >= 1 and len(rows) == N \
                and all(len(r) == n for r in rows) and len(tape[0][1]) == N:
            um = tape[0][1]
            for j, (lo, hi) in enumerate(bounds):
                perm = tape[1 + j][1]
                if len(perm) != N or sorted(perm) != list(range(N)):
                    continue
                for i in range(N):
                    r_ = perm[i]
                    observe_err(rows[i][j], Q(lo) + (Q(um[r_][j]) / N + Fraction(r_, N)) * abs(Q(hi) - Q(lo)), lo, hi)
        # ---- direct oracle: exactly one sample in each of the N equal-width strata of every parameter
        if oracle_capped():
            return
        inp = dict(hinfo, generator="LHSGenerator", N=N, bounds=[list(b) for b in bounds], random_state_seed=seed,
                   forced_draws=m["inject"])
        if rows is None:
            if N >= 1 and n >= 1:
                fail("LHS generator raised %s for N=%d, %d parameters" % (exc, N, n), inp, {"kind": "lhs_raises", "exc": exc})
            return
        if not shape_ok("lhs", rows, N, n, inp) or N < 1:
            return
        for j, (lo, hi) in enumerate(bounds):
            lo, hi = Q(lo), Q(hi)
            if not lo < hi:
                continue
            w = hi - lo
            slack = tol_of(lo, hi) * N / w           # the float tolerance in units of one stratum
            cand, ambiguous, broken = [], False, False
            for i in range(N):
                y = (Q(rows[i][j]) - lo) * N / w      # position in stratum units, exact
                s = math.floor(y)
                c = [s]
                if y - s <= slack:                    # within the float tolerance of a stratum boundary: either side
                    c = [s - 1, s]
                elif (s + 1) - y <= slack:
                    c = [s, s + 1]
                if len(c) == 2:
                    ambiguous = True
                c = [t for t in c if 0 <= t < N]
                if not c:
                    fail("LHS sample %d of parameter %d (%r) lies outside [lb, ub) = [%r, %r)" % (i, j, rows[i][j], bounds[j][0], bounds[j][1]),
                         dict(inp, column=j, sample=i, value=rows[i][j]), {"kind": "lhs_out_of_range", "column": j})
                    broken = True
                    break
                cand.append(c)
            if broken:
                break
            # one sample per stratum <=> the samples can be matched one-to-one with the N strata (samples away from
            # a boundary have a single candidate stratum); augmenting-path matching
            owner = {}

            def place(i, seen):
                for t in cand[i]:
                    if t in seen:
                        continue
                    seen.add(t)
                    if t not in owner or place(owner[t], seen):
                        owner[t] = i
                        return True
                return False

            for i in sorted(range(N), key=lambda i: len(cand[i])):
                if not place(i, set()):
                    clash = [k for k in range(N) if k != i and set(cand[k]) & set(cand[i])]
                    fail("LHS design: parameter %d has no one-sample-per-stratum arrangement: sample %d (%r, stratum %r of %d) "
                         "shares its stratum with sample(s) %r" % (j, i, rows[i][j], cand[i], N, clash[:3]),
                         dict(inp, column=j, stratum=cand[i], samples=[i] + clash[:3],
                              values=[rows[i][j]] + [rows[k][j] for k in clash[:3]]),
                         {"kind": "lhs_stratum_twice", "column": j})
                    broken = True
                    break
            if broken:
                break
            near["lhs_columns_with_near_boundary_samples" if ambiguous else "lhs_columns_checked"] += 1

    # -------------------------------------------------------------------------------------
    def select_points(N, primes):
        """point numbers (from 1) of a large Halton design that are compared with the model and checked exactly:
        the first 2, the last 3, q^j - 1, q^j, q^j + 1 for every base q in use, and a few random ones"""
        sel = {1, 2, N - 2, N - 1, N}
        for q in primes:
            w = q
            while w - 1 <= N:
                sel.update((w - 1, w, w + 1))
                w *= q
        for _ in range(6):
            sel.add(rng.randint(1, N))
        return sorted(i for i in sel if 1 <= i <= N)

    def halton_step(gen, N, bounds, hinfo, do_init=True):
        n = len(bounds)
        if do_init:
            gen.init(N)
        try:
            rows, exc = to_rows(gen.generate()), None
        except CAUGHT as e:
            rows, exc = None, type(e).__name__
        primes = first_primes(n)
        selected = None
        if N > FULL_MAX and n >= 1:
            selected = select_points(N, primes)
        m = dict(hinfo, generator="halton", N=N, bounds=[list(b) for b in bounds], raises=exc)
        if selected is not None:
            m["compared_points"] = selected
        if rows is None:
            exp = "None"
            stats["raises"] += 1
        elif selected is not None:
            # rows that do not exist are an empty row: the model returns n coordinates, so that is a mismatch
            exp = obs_cols_lit([rows[i - 1] if i - 1 < len(rows) else [] for i in selected], bounds)
            m["output_head"] = rows[:3]
            m["output_tail"] = rows[-2:]
        else:
            exp = obs_cols_lit(rows, bounds)
            m["output_head"] = rows[:3]
        if selected is not None:
            stats["halton_selected_points"] += len(selected)
            emit("halton", "CHaltonAt %s %s (nis %s%%uint63)" % (nat_lit(N), bs_lit(bounds), ll([str(i) for i in selected])), exp, m, N, n,
                 ("halton", N, tuple(map(tuple, bounds))), True, weight=1 + (sum(selected) * n) // 20000)
        else:
            emit("halton", "CHalton %s %s" % (nat_lit(N), bs_lit(bounds)), exp, m, N, n,
                 ("halton", N, tuple(map(tuple, bounds))), N >= 1 and n >= 1, weight=1 + (N * n) // 100 + n // 50 * 20)
        if N >= 3 and n >= 3 and rows is not None:
            ctx.sample({k: m[k] for k in ("generator", "N", "bounds", "output_head")})
        if oracle_capped():
            return
        inp = dict(hinfo, generator="HaltonGenerator", N=N, bounds=[list(b) for b in bounds])
        if rows is None:
            if n >= 1:
                fail("Halton generator raised %s for N=%d, %d parameters" % (exc, N, n), inp, {"kind": "halton_raises", "exc": exc})
            return
        if not shape_ok("halton", rows, N, n, inp):
            return

        def exact_check(i, j, lo, hi, t):
            want = lo + radical_inverse(i, primes[j]) * (hi - lo)
            observe_err(rows[i - 1][j], want, lo, hi)
            if abs(Q(rows[i - 1][j]) - want) > t:
                fail("Halton point %d of %d, parameter %d (base %d): %r, required lb + phi_%d(%d) (ub - lb) = %r"
                     % (i, N, j, primes[j], rows[i - 1][j], primes[j], i, float(want)),
                     dict(inp, point=i, column=j, base=primes[j], value=rows[i - 1][j], required=float(want)),
                     {"kind": "halton_value", "column": j})
                return False
            return True

        arr = np.array(rows, dtype=float) if selected is not None else None
        for j, (lo, hi) in enumerate(bounds):
            lo, hi = Q(lo), Q(hi)
            if lo > hi:
                continue
            t = tol_of(lo, hi)
            for i in (selected if selected is not None else range(1, N + 1)):
                if not exact_check(i, j, lo, hi, t):
                    return
            if selected is not None:
                # every point of the large design against an independent vectorised float radical inverse;
                # a candidate is reported only when the exact check confirms it
                idx = np.arange(1, N + 1, dtype=np.int64)
                ref, denom = np.zeros(N), 1.0
                while idx.any():
                    idx, rem = np.divmod(idx, primes[j])
                    denom *= primes[j]
                    ref += rem / denom
                with np.errstate(all="ignore"):
                    dev = np.abs(arr[:, j] - (float(lo) + ref * float(hi - lo)))
                    cand = np.nonzero(~(dev <= float(t) / 2))[0]
                stats_all["halton_points_float_checked"] += N
                for c in cand[:8]:
                    stats_all["halton_float_candidates"] += 1
                    if not exact_check(int(c) + 1, j, lo, hi, t):
                        return

    # -------------------------------------------------------------------------------------
    def grid_step(gen, k, bounds, hinfo, do_init=True):
        n = len(bounds)
        if do_init:
            gen.init(k)
        try:
            rows, exc = to_rows(gen.generate()), None
        except CAUGHT as e:
            rows, exc = None, type(e).__name__
        m = dict(hinfo, generator="grid", k=k, bounds=[list(b) for b in bounds], raises=exc)
        if rows is None:
            exp = "None"
            stats["raises"] += 1
        else:
            exp = obs_cols_lit(rows, bounds)
            m["output_head"] = rows[:3]
        emit("grid", "CGrid %s %s" % (nat_lit(k), bs_lit(bounds)), exp, m, k, n,
             ("grid", k, tuple(map(tuple, bounds))), k >= 2 and n >= 1, weight=1 + (k ** n * max(n, 1)) // 300)
        if k >= 3 and n == 2 and rows is not None:
            ctx.sample({kk: m[kk] for kk in ("generator", "k", "bounds", "output_head")})
        if k < 2 or oracle_capped():
            return
        inp = dict(hinfo, generator="UniformGenerator", k=k, bounds=[list(b) for b in bounds])
        if rows is None:
            fail("uniform generator raised %s for k=%d, %d parameters" % (exc, k, n), inp, {"kind": "grid_raises", "exc": exc})
            return
        if not shape_ok("grid", rows, k ** n, n, inp):
            return
        if not all(Q(lo) < Q(hi) for lo, hi in bounds):
            return
        seen = {}
        for r_i, row in enumerate(rows):
            idx = []
            for j, (lo, hi) in enumerate(bounds):
                lo, hi = Q(lo), Q(hi)
                x = Q(row[j])
                lvl = min(max(round((x - lo) * (k - 1) / (hi - lo)), 0), k - 1)
                want = lo + lvl * (hi - lo) / (k - 1)
                observe_err(row[j], want, lo, hi)
                if abs(x - want) > tol_of(lo, hi):
                    fail("grid row %d, parameter %d: %r is none of the %d equally spaced levels from %r to %r (nearest level %d = %r)"
                         % (r_i, j, row[j], k, bounds[j][0], bounds[j][1], lvl, float(want)),
                         dict(inp, row=r_i, column=j, value=row[j], nearest_level=float(want)),
                         {"kind": "grid_level", "column": j})
                    return
                idx.append(lvl)
            idx = tuple(idx)
            if idx in seen:
                fail("grid rows %d and %d are the same combination of levels %r" % (seen[idx], r_i, idx),
                     dict(inp, rows=[seen[idx], r_i], levels=list(idx)), {"kind": "grid_duplicate"})
                return
            seen[idx] = r_i
        # k^n rows with pairwise different combinations of level indices in 0..k-1 = every combination exactly once

    # -------------------------------------------------------------------------------------
    def simple(x):
        f = Q(x)
        return abs(f.numerator) < 2 ** 20 and f.denominator <= 2 ** 20

    def pow2(x):
        f = Q(x)
        return f > 0 and f.numerator & (f.numerator - 1) == 0 and f.denominator & (f.denominator - 1) == 0

    def random_step(gen, N, bounds, precisions, seed, inject, hinfo, do_init=True):
        n = len(bounds)
        tape = []
        src = pyrandom.Random(seed)

        def rec_random():
            v = src.random()
            if len(tape) in inject:
                v = inject[len(tape)]
            tape.append(v)
            return v

        if do_init:
            gen.init(N)
        autils.random = rec_random
        try:
            try:
                rows, exc = to_rows(gen.generate()), None
            except CAUGHT as e:
                rows, exc = None, type(e).__name__
        finally:
            autils.random = REAL_RANDOM
        tape_len["random_draws"] += len(tape)
        precs = [0 if p is None else p for p in precisions]
        m = dict(hinfo, generator="random", N=N, bounds=[list(b) for b in bounds], precisions=precisions, seed=seed,
                 inject={str(k): v for k, v in inject.items()}, draws=len(tape), raises=exc)
        if rows is None:
            exp = "None"
            stats["raises"] += 1
        else:
            tols = []
            for r_i, r in enumerate(rows):
                tr = []
                for j in range(len(r)):
                    if j >= n:
                        tr.append(Fraction(0))
                        continue
                    lo, hi = Q(bounds[j][0]), Q(bounds[j][1])
                    t = tol_of(lo, hi)
                    p = Q(precs[j]) if Q(precs[j]) != 0 else Q(1e-12)
                    near["random_entries"] += 1
                    pos = r_i * n + j
                    if pos < len(tape) and p > 0:
                        # round(number / precision) is a discrete outcome.  The float quotient is within
                        # 4.5 ulp(M) / precision of the exact one (number: 3 roundings, the division: 1), so when the
                        # exact quotient is that close to a half-integer both roundings are legitimate and the entry is
                        # compared with the tolerance widened by one unit of precision
                        u = Q(tape[pos])
                        q = (u * (hi - lo) + lo) / p
                        d = abs((q - math.floor(q)) - Fraction(1, 2))
                        if d == 0 and simple(u) and simple(lo) and simple(hi) and pow2(p):
                            near["random_exact_ties_compared"] += 1      # every float operation is exact: compared strictly
                        elif d <= 5 * ulp_of(lo, hi) / p:
                            if p <= t:
                                near["random_entries_precision_below_float_resolution"] += 1
                            else:
                                near["random_entries_near_rounding_boundary"] += 1
                            t = t + p
                    tr.append(t)
                tols.append(tr)
            exp = obs_lit(rows, tols)
            m["output_head"] = rows[:3]
        emit("random", "CRandom %s %s %s" % (
            nat_lit(N), ll([pl(q_lit(Q(b[0])), q_lit(Q(b[1])), q_lit(Q(pr))) for b, pr in zip(bounds, precs)]),
            ll([f_lit(u) for u in tape])), exp, m, N, n,
            ("random", N, tuple(map(tuple, bounds)), tuple(precs), seed, tuple(sorted(inject.items()))), N >= 1 and n >= 1,
            weight=1 + (N * max(n, 1)) // 100)
        if N >= 2 and n >= 2 and rows is not None:
            ctx.sample({k: m[k] for k in ("generator", "N", "bounds", "precisions", "seed", "output_head")})
        if oracle_capped():
            return
        inp = dict(hinfo, generator="RandomGenerator", N=N, bounds=[list(b) for b in bounds], precisions=precisions,
                   random_seed=seed, forced_draws=m["inject"])
        if rows is None:
            fail("random generator raised %s for N=%d, %d parameters" % (exc, N, n), inp, {"kind": "random_raises", "exc": exc})
            return
        if not shape_ok("random", rows, N, n, inp):
            return
        for r_i, row in enumerate(rows):
            for j, (lo, hi) in enumerate(bounds):
                lo, hi = Q(lo), Q(hi)
                if lo > hi:
                    continue
                p = abs(Q(precs[j])) if Q(precs[j]) != 0 else Q(1e-12)
                slack = p / 2 + tol_of(lo, hi)
                x = Q(row[j])
                if x < lo - slack or x > hi + slack:
                    fail("random design %d, parameter %d: %r is outside [%r, %r] (precision %r)" % (r_i, j, row[j], bounds[j][0], bounds[j][1], float(p)),
                         dict(inp, design=r_i, column=j, value=row[j]), {"kind": "random_out_of_box", "column": j})
                    return

    # -------------------------------------------------------------------------------------
    # histories
    # -------------------------------------------------------------------------------------
    def semantic(params):
        """what a declared parameter list means to the samplers: name, bounds (numeric values), precision"""
        out = []
        for p in params:
            try:
                b = [Q(x) for x in p["bounds"]]
            except Exception:
                b = repr(p.get("bounds"))
            out.append((p.get("name"), b, p.get("precision")))
        return out

    def run_history(h, hid):
        """h: {"bounds": [[lb, ub], ...], "precisions": [...], "repr": "float"|"numpy"|"tuple", "steps": [...]}.
        A step {"generator": "rebound", "how": ..., "bounds": [...], "precisions": [...]} is the USER changing the declared
        box between two calls (rule 9): in place on the shared dicts (item assignment), by rebinding the 'bounds' list, by
        replacing the dicts inside the shared list, or by giving every live generator object a new parameter list of the same
        length.  The model always gets the bounds that are current at the time of the call."""
        bounds0 = [(b[0], b[1]) for b in h["bounds"]]          # the CURRENT declared bounds: what the model gets
        precisions = list(h.get("precisions") or [None] * len(bounds0))
        rp = h.get("repr", "float")
        reprs[rp] = reprs.get(rp, 0) + 1

        def as_repr(b):
            if rp == "numpy":
                return [np.float64(b[0]), np.float64(b[1])]
            if rp == "tuple":
                return (b[0], b[1])
            return [b[0], b[1]]

        def make_param(i, b, prec):
            p = {"name": "x_%d" % i, "bounds": as_repr(b), "initial_value": b[0]}
            if prec is not None:
                p["precision"] = prec
            return p

        params = [make_param(i, b, precisions[i]) for i, b in enumerate(bounds0)]
        snapshot = semantic(copy.deepcopy(params))
        n = len(bounds0)
        gens = {}                                               # long-lived generator objects sharing `params`
        last_N = {}
        hist_stats["histories"] += 1
        mutated_reported = False
        steps = list(h["steps"])
        si = 0
        while si < len(steps):
            st = steps[si]
            si += 1
            g = st["generator"]
            hinfo = {"history": hid, "step": si - 1, "history_so_far": [
                s["generator"] + (":" + s["how"] if s["generator"] == "rebound" else "(no init)" if s.get("noinit") else "") for s in steps[:si - 1]]}
            hist_stats["steps"] += 1
            if g == "rebound":
                how = st["how"]
                newb = [(b[0], b[1]) for b in st["bounds"]]
                newp = list(st.get("precisions") or precisions)
                assert len(newb) == n
                if how == "gen_parameters":                   # every live generator gets a NEW list of NEW dicts, same length
                    params = [make_param(i, b, newp[i]) for i, b in enumerate(newb)]
                    for go in gens.values():
                        go.parameters = params
                else:
                    for i, b in enumerate(newb):
                        if how == "dict":                     # the dict inside the shared list is replaced
                            params[i] = make_param(i, b, newp[i])
                            continue
                        if how == "item" and isinstance(params[i]["bounds"], list):
                            params[i]["bounds"][0], params[i]["bounds"][1] = as_repr(b)[0], as_repr(b)[1]
                        else:                                 # "list": the 'bounds' entry is rebound (also for tuples)
                            params[i]["bounds"] = as_repr(b)
                        if newp[i] is None:
                            params[i].pop("precision", None)
                        else:
                            params[i]["precision"] = newp[i]
                bounds0, precisions = newb, newp
                snapshot = semantic(copy.deepcopy(params))
                hist_stats["bounds_changed_between_calls"] = hist_stats.get("bounds_changed_between_calls", 0) + 1
                hist_stats["rebound:" + how] = hist_stats.get("rebound:" + how, 0) + 1
                continue
            do_init = True
            if g in ("lhs", "halton", "grid", "random"):
                if st.get("fresh") or g not in gens:
                    gens[g] = {"lhs": ops.LHSGenerator, "halton": ops.HaltonGenerator, "grid": ops.UniformGenerator,
                               "random": ops.RandomGenerator}[g](params)
                else:
                    hist_stats["repeated_generator_objects"] += 1
                    if st.get("noinit") and g in last_N:       # generate() again on the same object without init()
                        do_init = False
                        st = dict(st, **{"k" if g == "grid" else "N": last_N[g]})
                        hist_stats["generate_without_init"] = hist_stats.get("generate_without_init", 0) + 1
                    if st.get("k" if g == "grid" else "N") == last_N.get(g):
                        hist_stats["same_number_again"] = hist_stats.get("same_number_again", 0) + 1
                last_N[g] = st["k" if g == "grid" else "N"]
            if g == "lhs":
                inj = {tuple(int(t) for t in k.split(",")): v for k, v in st.get("inject", {}).items()}
                lhs_step(gens[g], st["N"], bounds0, st.get("seed", 0), inj, hinfo, do_init)
            elif g == "halton":
                halton_step(gens[g], st["N"], bounds0, hinfo, do_init)
            elif g == "grid":
                grid_step(gens[g], st["k"], bounds0, hinfo, do_init)
            elif g == "random":
                inj = {int(k): v for k, v in st.get("inject", {}).items()}
                random_step(gens[g], st["N"], bounds0, precisions, st.get("seed", 0), inj, hinfo, do_init)
            else:
                hist_stats["interleaved_other_generators"] += 1
                try:
                    if g == "boxbehnken":
                        ops.BoxBehnkenGenerator(params).generate()
                    elif g == "plackettburman":
                        ops.PlackettBurmanGenerator(params).generate()
                    elif g == "fullfact":
                        og = ops.FullFactorGenerator(params)
                        og.init(center=st.get("center", False))
                        og.generate()
                except Exception:
                    pass
            now = semantic(params)
            if now != snapshot and not mutated_reported:
                mutated_reported = True
                hist_stats["parameter_mutations"] += 1
                ctx.mismatches.append({
                    "what": "generate() of the %s generator changed the shared parameter list (the model's generators are functions of the declared parameters)" % g,
                    "correspondence": "c12_parameters", "case": dict(hinfo, generator=g, bounds=[list(b) for b in bounds0]),
                    "declared": repr(snapshot)[:600], "after_call": repr(now)[:600]})
                # make the consequences visible to the direct oracle: every sampler once more on the shared list,
                # judged against the declared bounds
                follow = [{"generator": "lhs", "N": 5, "seed": 1}, {"generator": "halton", "N": 5},
                          {"generator": "random", "N": 3, "seed": 1}]
                if 3 ** n * max(n, 1) <= 2100:
                    follow.append({"generator": "grid", "k": 3})
                hist_stats["followup_steps_after_mutation"] += len(follow)
                steps.extend(follow)

    def gen_history(hid):
        n = rng.choice([1, 1, 2, 2, 3, 3, 4, 5, 6, 7, 8])
        r = rng.random()
        if r < 0.03:
            n = 0
        extreme = n <= 3 and rng.random() < 0.25
        nmax = 8 if extreme else NMAX
        bounds, precs = [], []
        for _ in range(n):
            while True:
                b, kd = gen_bound(rng, 0.07, extreme)
                p = rng.choice(PRECS)
                pe = 1e-12 if not p else p
                # number / precision must stay a finite double (the code calls round() on it)
                if max(abs(float(b[0])), abs(float(b[1]))) / pe < 1e300:
                    break
            bounds.append(list(b))
            precs.append(p)
            bound_kinds[kd] = bound_kinds.get(kd, 0) + 1
        rp = rng.choice(["float", "float", "float", "numpy", "tuple"])
        bounds0_decl, precs0_decl = [list(b) for b in bounds], list(precs)

        def pick_N():
            r = rng.random()
            if r < 0.25:
                return rng.choice([1, 2, 3, 4, 5])
            if r < 0.35:
                return min(nmax, rng.choice([NMAX, NMAX - 1, 32, 16, 27]))
            if r < 0.38:
                return 0
            return rng.randint(1, nmax)

        steps = []
        for _ in range(rng.choice([3, 4, 5, 6, 7, 8, 10])):
            r = rng.random()
            fresh = rng.random() < 0.2
            if r < 0.30:
                N = pick_N()
                inject = {}
                if N > 0 and n > 0 and rng.random() < 0.25:
                    for _i in range(rng.choice([1, 1, 2, 4, N])):
                        inject["%d,%d" % (rng.randrange(N), rng.randrange(n))] = rng.choice(SPECIAL_U)
                steps.append({"generator": "lhs", "N": N, "seed": rng.randrange(2 ** 31), "inject": inject, "fresh": fresh})
            elif r < 0.45:
                steps.append({"generator": "halton", "N": pick_N(), "fresh": fresh})
            elif r < 0.60:
                cap = 300 if extreme else GRID_CAP
                ks = [k for k in [2, 2, 3, 3, 4, 5, 6, 7, 9, 12, 25, 40] if k ** n * max(n, 1) <= cap]
                k = rng.choice(ks) if ks else 2
                if rng.random() < 0.05:
                    k = rng.choice([0, 1])
                if k ** n * max(n, 1) <= max(cap, 2100):
                    steps.append({"generator": "grid", "k": k, "fresh": fresh})
            elif r < 0.88:
                N = pick_N()
                inject = {}
                if N > 0 and n > 0 and rng.random() < 0.3:
                    for _i in range(rng.choice([1, 2, 4])):
                        inject[str(rng.randrange(N * n))] = rng.choice(SPECIAL_U)
                steps.append({"generator": "random", "N": N, "seed": rng.randrange(2 ** 31), "inject": inject, "fresh": fresh})
            else:
                steps.append({"generator": rng.choice(["boxbehnken", "plackettburman", "fullfact"] if n <= 6 else ["boxbehnken", "plackettburman"]),
                              "center": rng.random() < 0.5})
        # rule 9: the declared box changes between two generate() calls of ONE long-lived generator object; the second
        # call repeats the first (same number: init() with the same argument, or no init() at all)
        sampler_idx = [i for i, s_ in enumerate(steps) if s_["generator"] in ("lhs", "halton", "grid", "random")]
        for _ in range(rng.choice([0, 1, 1, 2])):
            if not sampler_idx or n == 0:
                break
            i = rng.choice(sampler_idx)
            again = dict(steps[i], fresh=False)
            if "seed" in again and rng.random() < 0.5:
                again["seed"] = rng.randrange(2 ** 31)
            if rng.random() < 0.35:
                again["noinit"] = True
            newb, newp = [], []
            for j in range(n):
                if rng.random() < 0.25 and j > 0:
                    newb.append(list(bounds[j]))
                    newp.append(precs[j])
                    continue
                while True:
                    b, kd = gen_bound(rng, 0.0, extreme)
                    pr = precs[j] if rng.random() < 0.7 else rng.choice(PRECS)
                    if max(abs(float(b[0])), abs(float(b[1]))) / (1e-12 if not pr else pr) < 1e300:
                        break
                newb.append(list(b))
                newp.append(pr)
                bound_kinds["rebound:" + kd] = bound_kinds.get("rebound:" + kd, 0) + 1
            reb = {"generator": "rebound", "how": rng.choice(["item", "list", "dict", "gen_parameters"]), "bounds": newb, "precisions": newp}
            steps[i + 1:i + 1] = [reb, again]
            bounds, precs = newb, newp           # later insertions start from the box current at the end (approximation: only for variety)
            sampler_idx = [k_ for k_, s_ in enumerate(steps) if s_["generator"] in ("lhs", "halton", "grid", "random")]
        return {"bounds": bounds0_decl, "precisions": precs0_decl, "repr": rp, "steps": steps}

    NMAX = 40
    GRID_CAP = ctx.pick(1100, 2100)
    NBIG = ctx.pick(7000, 70000)
    directed = {"halton_bases": [], "halton_N_largest": 0, "halton_boundary_designs": 0, "grid_sweep_bounds": [],
                "grid_sweep_k": [], "lhs_large_N": [], "random_large_N": []}

    def plain_bounds(n):
        out = []
        while len(out) < n:
            b, kd = gen_bound(rng, 0.0, False)
            if kd in ("tiny", "huge") and rng.random() < 0.7:
                continue
            out.append(list(b))
            bound_kinds["directed:" + kd] = bound_kinds.get("directed:" + kd, 0) + 1
        return out

    def directed_histories():
        """boundaries of every size / loop-bound / digit-count computation of the anchored code"""
        hs = []
        # (1) _van_der_corput: the digit count changes at the powers of the base.  For every base p among the first 12
        # primes: designs with N = p^k - 1, p^k, p^k + 1 points for all p^k <= NBIG, with enough parameters for p to be in use
        P12 = first_primes(12)
        for j, p in enumerate(P12):
            Ns, w = set(), p
            while w <= NBIG:
                Ns.update(x for x in (w - 1, w, w + 1) if x >= 1)
                w *= p
            n = j + 1 if j >= 7 else rng.choice([j + 1, j + 1, j + 2, min(8, j + 3)])
            Ns = sorted(Ns)
            rng.shuffle(Ns)
            directed["halton_bases"].append({"base": p, "parameters": n, "designs": len(Ns), "largest_N": max(Ns)})
            directed["halton_N_largest"] = max(directed["halton_N_largest"], max(Ns))
            directed["halton_boundary_designs"] += len(Ns)
            hs.append({"bounds": plain_bounds(n), "repr": rng.choice(["float", "float", "numpy", "tuple"]),
                       "steps": [{"generator": "halton", "N": N, "fresh": rng.random() < 0.1} for N in Ns]})
        # (2) UniformGenerator: delta = (ub - lb) / (number - 1), `number` levels: one parameter, sweep over the level count
        ks = list(range(2, 71)) + [99, 100, 101, 127, 128, 129, 255, 256, 257, 1000, 1023, 1024, 1025]
        kinds = [[0.0, 1.0], [0.1, 0.7], [-0.30000000000000004, 2.1], [-5, 5], [2.5, 10.0], [-1000.0, -999.0], [1e-9, 7e-9],
                 [0.0, 0.3], [-1.0, 2.0], [3.0, 3.7], [0, 10], [-2.5e18, 1e18]]
        chosen = [kinds[0]] + rng.sample(kinds[1:], ctx.pick(2, 7))
        directed["grid_sweep_k"] = "2..70, " + ", ".join(map(str, ks[69:]))
        for b in chosen:
            directed["grid_sweep_bounds"].append(b)
            order = list(ks)
            rng.shuffle(order)
            hs.append({"bounds": [b], "repr": rng.choice(["float", "numpy", "tuple"]),
                       "steps": [{"generator": "grid", "k": k, "fresh": rng.random() < 0.05} for k in order]})
        # (3) _lhsclassic: linspace(0, 1, samples + 1), slices [:samples], [1:samples + 1]: a few large designs
        lhsN = [63, 64, 65, 127, 128, 129, 255, 256, 257] + ctx.pick([], [100, 511, 512, 513, 1000, 1023, 1024, 1025])
        for t, N in enumerate(lhsN):
            n = 1 if N > 300 else 1 + t % 2
            directed["lhs_large_N"].append([N, n])
            inject = {"%d,%d" % (rng.randrange(N), rng.randrange(n)): rng.choice(SPECIAL_U) for _ in range(3)}
            hs.append({"bounds": plain_bounds(n), "repr": "float",
                       "steps": [{"generator": "lhs", "N": N, "seed": rng.randrange(2 ** 31), "inject": inject}]})
        # (4) RandomGenerator: `number` designs, one draw per coordinate
        for N, n in ctx.pick([(1000, 1), (1025, 1), (257, 2)], [(1000, 1), (1023, 1), (1024, 2), (1025, 1), (4097, 1), (257, 3)]):
            directed["random_large_N"].append([N, n])
            bs = plain_bounds(n)
            hs.append({"bounds": bs, "precisions": [rng.choice([None, 0.25, 1e-3]) for _ in bs], "repr": "float",
                       "steps": [{"generator": "random", "N": N, "seed": rng.randrange(2 ** 31),
                                  "inject": {str(rng.randrange(N * n)): rng.choice(SPECIAL_U) for _ in range(3)}}]})
        return hs

    # corpus first
    cdir = os.path.join(VERIF, "corpus", "C12")
    corpus_n = 0
    if os.path.isdir(cdir):
        for fn in sorted(os.listdir(cdir)):
            if fn.endswith(".json"):
                for h in json.load(open(os.path.join(cdir, fn)))["histories"]:
                    corpus_n += 1
                    for b in h["bounds"]:
                        bound_kinds["corpus"] = bound_kinds.get("corpus", 0) + 1
                    run_history(h, "corpus/%s#%d" % (fn, corpus_n))
    for t, h in enumerate(directed_histories()):
        run_history(h, "directed#%d" % t)
    n_hist = ctx.pick(110, 1200)
    for hid in range(n_hist):
        run_history(gen_history(hid), hid)

    # ---- model evaluation.  The cases are dealt by decreasing weight over the chunks and, inside a chunk, over the
    # shards (balanced coqc processes); chunks are submitted one after the other and submission stops once MISMATCH_CAP
    # mismatches are recorded (the work on a broken implementation stays bounded; on a clean run nothing is skipped)
    shard = ctx.pick(24, 50)
    n_chunks = ctx.pick(3, 4)
    ranked = sorted(range(len(cases)), key=lambda i: (-weights[i], i))
    submitted = 0
    for c in range(n_chunks):
        mine = ranked[c::n_chunks]
        if not mine:
            continue
        if len(ctx.mismatches) >= MISMATCH_CAP:
            caps["cases_not_submitted_after_mismatch_cap"] += len(mine)
            continue
        n_sh = -(-len(mine) // shard)
        caps_sh = [shard] * (n_sh - 1) + [len(mine) - shard * (n_sh - 1)]
        bins = [[] for _ in range(n_sh)]
        k = 0
        for i in mine:
            while len(bins[k % n_sh]) >= caps_sh[k % n_sh]:
                k += 1
            bins[k % n_sh].append(i)
            k += 1
        order = [i for b_ in bins for i in b_]
        submitted += len(order)
        ctx.coq_compare("c12_%s" % "abcdefgh"[c], HEADER, "c12_case * c12_obs", "c12_report", "c12_check", "c12_report_eqb",
                        [cases[i] for i in order], [expected[i] for i in order], [meta[i] for i in order], shard=shard)
    caps["cases_submitted_to_coq"] = submitted

    def bucket(hist):
        out = {}
        for k, v in sorted(hist.items()):
            if k <= FULL_MAX:
                key = str(k)
            else:
                lo = FULL_MAX + 1
                while lo * 4 <= k:
                    lo *= 4
                key = "%d..%d" % (lo, lo * 4 - 1)
            out[key] = out.get(key, 0) + v
        return out

    ctx.rule = ("one case = one generate() call of LHSGenerator / HaltonGenerator / UniformGenerator / RandomGenerator inside a history "
                "on one shared parameter list (long-lived generator objects re-initialised with changing numbers, parameter dicts compared "
                "with their snapshot after every call; the declared bounds / precisions are changed between two calls of one object - item "
                "assignment, list rebinding, dict replacement, new gen.parameters of the same length - and the call repeated with the same "
                "number, with or without init(); the model gets the box current at each call). Random histories: 3..10 calls, Box-Behnken / Plackett-Burman / full-factorial "
                "generators in between, parameter counts 0..8, N 0..%d, grid k 0..40 with k^n * n <= %d; bounds from value grids, ints, negative, "
                "tiny (1e-300..1e-9), huge (1e9..1e300), random and a degenerate stream (lb = ub, lb > ub), given as floats, numpy.float64 "
                "or tuples; forced extreme draws (0, 1-2^-53, exact rounding ties) in a quarter of the randomised calls. Directed histories at "
                "the exact boundaries of the size / digit-count computations: Halton designs with N = p^k - 1, p^k, p^k + 1 for every p^k <= %d "
                "of each of the first 12 primes p (1..12 parameters so that p is a base in use; designs with more than %d points are compared "
                "with the model and checked exactly at the point numbers 1, 2, N-2, N-1, N, q^j - 1, q^j, q^j + 1 for every base q in use and 6 "
                "random ones, and at every point against an independent float radical inverse); Halton / LHS / grid / random with 4, 5, 169, 170, "
                "304, 305 parameters (sieve enlargements of halton()); one-parameter grids for every k in 2..70 and 99..101, 127..129, 255..257, "
                "1000, 1023..1025 over %d kinds of bounds; LHS with N in %s; random generator with (N, n) in %s. A case is non-trivial when N >= 1 "
                "(LHS: N >= 2; grid: k >= 2) and there is at least one parameter; distinct = distinct (generator, N, bounds, seed, forced draws)"
                ) % (NMAX, GRID_CAP, NBIG, FULL_MAX, len(directed["grid_sweep_bounds"]), [x[0] for x in directed["lhs_large_N"]],
                     directed["random_large_N"])
    ctx.extra.update({
        "cases_by_generator": stats, "corpus_histories": corpus_n, "histories": hist_stats, "bounds_kinds": bound_kinds,
        "bounds_representation": reprs,
        "N_histogram": bucket(hist_N),
        "parameter_count_histogram": {str(k): v for k, v in sorted(hist_n.items())},
        "directed_boundary_streams": directed, "halton_large_designs": stats_all, "work_caps": caps,
        "near_boundary": near, "tape_lengths": tape_len, "measured_rounding_error": err_stats,
        "tolerance": "%d ulp of max(|lb|,|ub|,|ub-lb|) per entry (+ one unit of precision for random-generator entries "
                     "whose exact quotient is within 5 ulp / precision of a rounding boundary)" % TOL_ULPS,
    })


LEVEL_TEXT = ("Machine-checked Coq theorems over an exact-rational model of the four samplers, for every sample count N >= 1, every "
              "parameter count, all bounds lb < ub, every tape of draws in [0,1) and every family of permutations: each column of a "
              "Latin-hypercube design has exactly one sample in each of the N equal-width strata; the van der Corput loop computes the "
              "radical inverse (digit-reversal sum) so Halton point i, coordinate j is lb_j + phi_{p_j}(i) (ub_j - lb_j), with the 2/3-wheel "
              "sieve proved to deliver the first n primes for every n <= 300 (kernel computation; the Halton theorem as a whole carries this bound in its statement); the uniform grid "
              "has k^n rows, contains exactly the combinations of the k levels lb + i (ub - lb)/(k-1), each once, first level lb, last ub; the "
              "random generator returns N designs within precision/2 of the box; all return one coordinate per parameter. The model is tied "
              "to doe.py / operators.py / utils.py on every run by evaluating it in Coq on the recorded draw tapes and comparing every "
              "coordinate with the implementation's float under a 16-ulp tolerance (random histories with N <= 40, up to 8 parameters), plus "
              "directed designs at the exact boundaries of every size / digit-count computation: Halton with N = p^k - 1, p^k, p^k + 1 for all "
              "powers up to 7000 (thorough: 70000) of each of the first 12 primes, compared at selected points through the proved closed form "
              "of single rows; 4/5, 169/170, 304/305 parameters; one-parameter grids for k = 2..70 and around 100, 128, 256, 1000, 1024; LHS "
              "with N up to 257 (thorough: 1025); random generator with N up to 1025 (thorough: 4097).")
LEVEL_NOTE = ("Trusted: Coq kernel + vm_compute; the hand-written model and the Python harness; binary64 rounding is outside the model "
              "(R3: results compared under a stated tolerance of 16 ulp; nothing is skipped: random-generator entries whose exact quotient is "
              "near a rounding tie are compared with the tolerance widened by one unit of precision and counted, exact ties are compared "
              "strictly, Latin-hypercube samples near a stratum boundary go into the one-to-one matching of samples to strata). "
              "C12_primes_correct and the whole statement of C12_halton_radical_inverse are stated for n <= 300 parameters (bound in the "
              "statement), everything else is unbounded. Correspondence is sampled: Halton designs "
              "with more than 64 points are compared with the model at selected point numbers (every point is checked by the direct oracle "
              "against an independent float radical inverse); sample counts above 7000 (thorough: 70000) are not exercised.")
