"""C12 - space-filling samplers: correspondence with Model/Samplers.v (exact rationals, regime R3)
and a direct oracle on the implementation's output.

The four Generator classes of artap.operators are driven through their public generate(), in
HISTORIES: one shared parameter list (the list of dicts a Problem holds), one long-lived generator
object per class re-initialised with changing numbers, the four classes interleaved and repeated,
with generators of other designs (Box-Behnken, Plackett-Burman, full factorial) called in between.
Every run is compared with the model evaluated on the ORIGINAL declared bounds, and the parameter
dicts are compared with their snapshot after every generate().

  LHSGenerator      numpy.random.RandomState is replaced (harness side, for the duration of the call)
                    by a recording wrapper around a seeded RandomState; the kind-tagged tape of calls
                    (rand matrix, permutation arrays, in call order) is an input of the model, which
                    accepts only the call pattern of doe._lhsclassic and fails closed otherwise.
  HaltonGenerator   deterministic.
  UniformGenerator  deterministic.
  RandomGenerator   artap.utils.random is replaced by a recording wrapper around a seeded
                    random.Random; the tape of draws is an input of the model.

The model computes exact rationals from the exact rational values of the floats the implementation
was given (bounds, draws); each output float is compared with the model's rational under the R3
tolerance TOL_ULPS * ulp(M), M = max(|lb|, |ub|, |ub - lb|) of that parameter (see `tol_of`).
The direct oracle evaluates the clauses of the property on the implementation's output alone.
"""
import copy
import json
import math
import os
import random as pyrandom
from fractions import Fraction

from harness.core import nl, ll, pl, VERIF

PROP = "C12"
THEOREMS = {"Artap.Props.C12": [
    "C12_lhs_stratified", "C12_lhs_sample_in_stratum", "C12_halton_radical_inverse", "C12_primes_correct",
    "C12_grid_complete", "C12_grid_first_last", "C12_random_count_in_box", "C12_random_total", "C12_dimension_ok"]}
AXIOMS_OK = []
TRUSTED = [
    "Coq 8.16.1 kernel, vm_compute (model evaluation in the correspondence; the prime sieve of halton() is checked "
    "against the definition of primality by kernel computation for every parameter count <= 300)",
    "hand-written model Model/Samplers.v tied to doe.py / operators.py / utils.py by this correspondence run",
    "regime R3: the model is exact rational arithmetic; the implementation's binary64 results are compared with it under "
    "a tolerance of 16 ulp of the largest magnitude of the parameter (a rigorous first-order bound of the accumulated "
    "rounding of np.linspace, the affine maps and the van der Corput sums is 11 ulp; the measured maximum is in the evidence)",
    "numpy.random.RandomState.rand / permutation and random.random are oracle tapes recorded from the run "
    "(the theorems hold for every tape of draws in [0,1) and every family of permutations)",
    "int(n ** 0.5) in the prime sieve is modelled by the integer square root (equal for the sieve limits 10 + 1000 t the code uses)",
]
ASSUMPTIONS = [
    "parameter names are distinct (LHSGenerator / HaltonGenerator key a dict by name)",
    "bounds are finite floats or ints with lb < ub (lb <= ub for Halton and the random generator) and ub - lb, number / precision do not overflow binary64",
    "the random generator's parameters are real-valued (no 'parameter_type': 'integer'); its designs are in the box up to precision / 2 "
    "(rounding to the declared precision, default 1e-12), as in C08",
]

HEADER = ("From Artap Require Import Run.C12Run.\nFrom Coq Require Import List ZArith QArith.\n"
          "Import ListNotations.\nOpen Scope list_scope.\n")

TOL_ULPS = 16


def Q(x):
    return Fraction(x) if isinstance(x, int) else Fraction(float(x))


def q_lit(f):
    """exact rational -> Coq term; dyadic rationals (every float) as fq m e = m * 2^e (decimal literals with
    hundreds of digits are very slow to parse)."""
    f = Fraction(f)
    d = f.denominator
    if d & (d - 1) == 0:
        m, e = f.numerator, -(d.bit_length() - 1)
        if m != 0:
            tz = (m & -m).bit_length() - 1
            if e == 0 and tz > 0:
                m >>= tz
                e = tz
        else:
            e = 0
        return "(fq %s %s)" % (("(%d)" % m) if m < 0 else str(m), ("(%d)" % e) if e < 0 else str(e))
    return "(%d # %d)%%Q" % (f.numerator, d)


def mag_of(lo, hi):
    lo, hi = Q(lo), Q(hi)
    return max(abs(lo), abs(hi), abs(hi - lo))


def ulp_of(lo, hi):
    return Fraction(math.ulp(float(mag_of(lo, hi))))


def tol_of(lo, hi):
    return TOL_ULPS * ulp_of(lo, hi)


# ---------------------------------------------------------------------------------------------
# generators of inputs
# ---------------------------------------------------------------------------------------------
LOS = [0.0, 0.0, 1.0, -1.0, -5.0, -10.0, 0.5, 2.5, 3.0, 100.0, -2.5, 0.1, -0.30000000000000004, 7.25]
WIDTHS = [1.0, 1.0, 2.0, 0.5, 2.4, 7.5, 10.0, 1e-3, 1e3, 0.1, 3.0, 20.0]
INTS = [(-5, 5), (0, 1), (-3, -1), (0, 10), (1, 4), (-100, 100)]


def gen_bound(rng, degenerate=0.0, extreme=False):
    """One (lb, ub) pair and its kind (for the distribution record)."""
    r = rng.random()
    if r < degenerate / 2:
        a = rng.choice(LOS)
        return (a, a), "lb=ub"
    if r < degenerate:
        a = rng.choice(LOS)
        return (a, a - rng.choice([0.5, 1.0, 3.0])), "lb>ub"
    r = rng.random()
    if r < 0.45:
        a = rng.choice(LOS)
        return (a, a + rng.choice(WIDTHS)), "grid"
    if r < 0.55:
        a = rng.choice(INTS)
        return (a[0], a[1]), "int"
    if r < 0.70:
        hi = -rng.choice([0.25, 1.0, 3.5, 1e3, 1e-3])
        return (hi - rng.choice(WIDTHS), hi), "negative"
    if r < 0.80:
        s = rng.choice([1e-300, 1e-200, 3e-150] if extreme else [1e-30, 1e-9, 3e-15])
        a = rng.choice([0.0, 1.0, -1.0, -2.5, 0.5]) * s
        return (a, a + rng.choice([1.0, 2.0, 0.5, 7.5]) * s), "tiny"
    if r < 0.90:
        s = rng.choice([1e300, 1e200, 3e150] if extreme else [1e30, 1e18, 3e9])
        a = rng.choice([0.0, 1.0, -1.0, -2.5, 0.5]) * s
        return (a, a + rng.choice([1.0, 2.0, 0.5, 0.75]) * s), "huge"
    a = rng.uniform(-10, 10)
    return (a, a + rng.uniform(0.01, 10)), "random"


PRECS = [None, None, None, None, 0, 0.5, 0.25, 0.1, 1e-3, 1e-6, 1.0, 2.0, 0.3]
SPECIAL_U = [0.0, 1.0 - 2.0 ** -53, 0.5, 2.0 ** -53, 0.25, 0.75, 0.125, 1.0 - 2.0 ** -20]


# ---------------------------------------------------------------------------------------------
# independent reference implementations for the direct oracle
# ---------------------------------------------------------------------------------------------
def first_primes(n):
    out, c = [], 2
    while len(out) < n:
        if all(c % d for d in range(2, math.isqrt(c) + 1)):
            out.append(c)
        c += 1
    return out


def radical_inverse(i, b):
    """sum_k d_k b^(-k-1) over the base-b digits d_k of i, as an exact Fraction."""
    digits = []
    while i:
        digits.append(i % b)
        i //= b
    return sum(Fraction(d, b ** (k + 1)) for k, d in enumerate(digits))


# ---------------------------------------------------------------------------------------------
def run(ctx):
    import numpy as np
    import artap.operators as ops
    import artap.utils as autils

    rng = ctx.rng
    REAL_RS = np.random.RandomState
    REAL_RANDOM = autils.random
    CAUGHT = (IndexError, ValueError, ZeroDivisionError, TypeError, OverflowError, KeyError, AttributeError)

    cases, expected, meta = [], [], []
    stats = {"lhs": 0, "halton": 0, "grid": 0, "random": 0, "raises": 0}
    hist_stats = {"histories": 0, "steps": 0, "interleaved_other_generators": 0, "repeated_generator_objects": 0,
                  "parameter_mutations": 0, "followup_steps_after_mutation": 0}
    bound_kinds, hist_N, hist_n, reprs = {}, {}, {}, {}
    near = {"lhs_columns_with_near_boundary_samples": 0, "lhs_columns_checked": 0,
            "random_entries": 0, "random_entries_near_rounding_boundary": 0,
            "random_entries_precision_below_float_resolution": 0, "random_exact_ties_compared": 0}
    err_stats = {"max_err_ulps": 0.0, "entries_compared": 0, "entries_over_4ulp": 0}
    tape_len = {"rand_entries": 0, "permutations": 0, "random_draws": 0}

    def fail(what, inp, match):
        ctx.oracle_failures.append({"what": what, "input": inp, "match": match})

    class NonFinite(ValueError):
        pass

    def to_rows(res):
        rows = [[float(x) for x in row] for row in res]
        if any(not math.isfinite(x) for r in rows for x in r):
            raise NonFinite("non-finite coordinate")      # reported like an exception of the call
        return rows

    def obs_lit(rows, tols):
        return "(Some %s)" % ll([ll([pl(q_lit(Q(x)), q_lit(t)) for x, t in zip(r, tr)]) for r, tr in zip(rows, tols)])

    def obs_cols_lit(rows, bounds):
        """one tolerance per column (coordinates beyond the declared parameters get tolerance 0)"""
        return "(obs_cols %s %s)" % (ll([q_lit(tol_of(*b)) for b in bounds]), ll([ll([q_lit(Q(x)) for x in r]) for r in rows]))

    def bs_lit(bounds):
        return ll([pl(q_lit(Q(a)), q_lit(Q(b))) for a, b in bounds])

    def observe_err(x, exact_value, lo, hi):
        """informational: rounding error of one output float against its exact value, in ulp(M)"""
        e = float(abs(Q(x) - exact_value) / ulp_of(lo, hi))
        err_stats["entries_compared"] += 1
        if e > err_stats["max_err_ulps"]:
            err_stats["max_err_ulps"] = e
        if e > 4:
            err_stats["entries_over_4ulp"] += 1

    def shape_ok(kind, rows, N_expected, n, inp):
        ok = True
        if len(rows) != N_expected:
            fail("%s generator returned %d designs, %d required" % (kind, len(rows), N_expected), inp,
                 {"kind": kind + "_count", "got": len(rows), "want": N_expected})
            ok = False
        bad = [len(r) for r in rows if len(r) != n]
        if bad:
            fail("%s generator returned a design with %d coordinates for %d declared parameters" % (kind, bad[0], n), inp,
                 {"kind": kind + "_dimension", "got": bad[0], "want": n})
            ok = False
        return ok

    def emit(kind, case, exp, m, N, n, key, nontrivial):
        cases.append(case)
        expected.append(exp)
        meta.append(m)
        stats[kind] += 1
        hist_N[N] = hist_N.get(N, 0) + 1
        hist_n[n] = hist_n.get(n, 0) + 1
        ctx.count(key, nontrivial=nontrivial)

    # -------------------------------------------------------------------------------------
    # Latin hypercube.  `gen` is the (possibly long-lived) LHSGenerator, `bounds` the ORIGINAL declared bounds
    # -------------------------------------------------------------------------------------
    def lhs_step(gen, N, bounds, seed, inject, hinfo):
        tape = []

        class Recorder:
            def __init__(self, *a, **k):
                self._rs = REAL_RS(seed)

            def rand(self, *shape):
                m = self._rs.rand(*shape)
                if m.ndim == 2:
                    for (i, j), v in inject.items():
                        if i < m.shape[0] and j < m.shape[1]:
                            m[i, j] = v
                    tape.append(("rand", [[float(x) for x in row] for row in m]))
                else:
                    tape.append(("other", "rand%r" % (shape,)))
                return m

            def permutation(self, x):
                p = self._rs.permutation(x)
                try:
                    tape.append(("perm", [int(v) for v in p]))
                except Exception:
                    tape.append(("other", "permutation"))
                return p

            def __getattr__(self, name):
                tape.append(("other", name))
                return getattr(self._rs, name)

        n = len(bounds)
        gen.init(N)
        np.random.RandomState = Recorder
        try:
            try:
                rows, exc = to_rows(gen.generate()), None
            except CAUGHT as e:
                rows, exc = None, type(e).__name__
        finally:
            np.random.RandomState = REAL_RS

        ev = []
        for kind, val in tape:
            if kind == "rand":
                ev.append("ERand %s" % ll([ll([q_lit(Q(x)) for x in row]) for row in val]))
                tape_len["rand_entries"] += sum(len(r) for r in val)
            elif kind == "perm":
                ev.append("EPerm %s" % ll([nl(v) for v in val]))
                tape_len["permutations"] += 1
            else:
                ev.append("ERand []")        # a call the model does not know: breaks the pattern, the model fails closed
        m = dict(hinfo, generator="lhs", N=N, bounds=[list(b) for b in bounds], seed=seed,
                 inject={"%d,%d" % k: v for k, v in inject.items()}, tape_kinds=[k for k, _ in tape], raises=exc)
        if rows is None:
            exp = "None"
            stats["raises"] += 1
        else:
            exp = obs_cols_lit(rows, bounds)
            m["output_head"] = rows[:3]
        emit("lhs", "CLhs %s %s %s" % (nl(N), bs_lit(bounds), ll(ev)), exp, m, N, n,
             ("lhs", N, tuple(map(tuple, bounds)), seed, tuple(sorted(inject.items()))), N >= 2 and n >= 1)
        if N >= 3 and n >= 2 and rows is not None:
            ctx.sample({k: m[k] for k in ("generator", "N", "bounds", "seed", "output_head")})
        if rows is not None and [k for k, _ in tape] == ["rand"] + ["perm"] * n and N >= 1 and len(rows) == N \
                and all(len(r) == n for r in rows) and len(tape[0][1]) == N:
            um = tape[0][1]
            for j, (lo, hi) in enumerate(bounds):
                perm = tape[1 + j][1]
                if len(perm) != N or sorted(perm) != list(range(N)):
                    continue
                for i in range(N):
                    r_ = perm[i]
                    observe_err(rows[i][j], Q(lo) + (Q(um[r_][j]) / N + Fraction(r_, N)) * abs(Q(hi) - Q(lo)), lo, hi)
        # ---- direct oracle: exactly one sample in each of the N equal-width strata of every parameter
        inp = dict(hinfo, generator="LHSGenerator", N=N, bounds=[list(b) for b in bounds], random_state_seed=seed,
                   forced_draws=m["inject"])
        if rows is None:
            if N >= 1 and n >= 1:
                fail("LHS generator raised %s for N=%d, %d parameters" % (exc, N, n), inp, {"kind": "lhs_raises", "exc": exc})
            return
        if not shape_ok("lhs", rows, N, n, inp) or N < 1:
            return
        for j, (lo, hi) in enumerate(bounds):
            lo, hi = Q(lo), Q(hi)
            if not lo < hi:
                continue
            w = hi - lo
            slack = tol_of(lo, hi) * N / w           # the float tolerance in units of one stratum
            cand, ambiguous, broken = [], False, False
            for i in range(N):
                y = (Q(rows[i][j]) - lo) * N / w      # position in stratum units, exact
                s = math.floor(y)
                c = [s]
                if y - s <= slack:                    # within the float tolerance of a stratum boundary: either side
                    c = [s - 1, s]
                elif (s + 1) - y <= slack:
                    c = [s, s + 1]
                if len(c) == 2:
                    ambiguous = True
                c = [t for t in c if 0 <= t < N]
                if not c:
                    fail("LHS sample %d of parameter %d (%r) lies outside [lb, ub) = [%r, %r)" % (i, j, rows[i][j], bounds[j][0], bounds[j][1]),
                         dict(inp, column=j, sample=i, value=rows[i][j]), {"kind": "lhs_out_of_range", "column": j})
                    broken = True
                    break
                cand.append(c)
            if broken:
                break
            # one sample per stratum <=> the samples can be matched one-to-one with the N strata (samples away from
            # a boundary have a single candidate stratum); augmenting-path matching
            owner = {}

            def place(i, seen):
                for t in cand[i]:
                    if t in seen:
                        continue
                    seen.add(t)
                    if t not in owner or place(owner[t], seen):
                        owner[t] = i
                        return True
                return False

            for i in sorted(range(N), key=lambda i: len(cand[i])):
                if not place(i, set()):
                    clash = [k for k in range(N) if k != i and set(cand[k]) & set(cand[i])]
                    fail("LHS design: parameter %d has no one-sample-per-stratum arrangement: sample %d (%r, stratum %r of %d) "
                         "shares its stratum with sample(s) %r" % (j, i, rows[i][j], cand[i], N, clash[:3]),
                         dict(inp, column=j, stratum=cand[i], samples=[i] + clash[:3],
                              values=[rows[i][j]] + [rows[k][j] for k in clash[:3]]),
                         {"kind": "lhs_stratum_twice", "column": j})
                    broken = True
                    break
            if broken:
                break
            near["lhs_columns_with_near_boundary_samples" if ambiguous else "lhs_columns_checked"] += 1

    # -------------------------------------------------------------------------------------
    def halton_step(gen, N, bounds, hinfo):
        n = len(bounds)
        gen.init(N)
        try:
            rows, exc = to_rows(gen.generate()), None
        except CAUGHT as e:
            rows, exc = None, type(e).__name__
        m = dict(hinfo, generator="halton", N=N, bounds=[list(b) for b in bounds], raises=exc)
        if rows is None:
            exp = "None"
            stats["raises"] += 1
        else:
            exp = obs_cols_lit(rows, bounds)
            m["output_head"] = rows[:3]
        emit("halton", "CHalton %s %s" % (nl(N), bs_lit(bounds)), exp, m, N, n,
             ("halton", N, tuple(map(tuple, bounds))), N >= 1 and n >= 1)
        if N >= 3 and n >= 3 and rows is not None:
            ctx.sample({k: m[k] for k in ("generator", "N", "bounds", "output_head")})
        inp = dict(hinfo, generator="HaltonGenerator", N=N, bounds=[list(b) for b in bounds])
        if rows is None:
            if n >= 1:
                fail("Halton generator raised %s for N=%d, %d parameters" % (exc, N, n), inp, {"kind": "halton_raises", "exc": exc})
            return
        if not shape_ok("halton", rows, N, n, inp):
            return
        primes = first_primes(n)
        for j, (lo, hi) in enumerate(bounds):
            lo, hi = Q(lo), Q(hi)
            if lo > hi:
                continue
            t = tol_of(lo, hi)
            for i in range(1, N + 1):
                want = lo + radical_inverse(i, primes[j]) * (hi - lo)
                observe_err(rows[i - 1][j], want, lo, hi)
                if abs(Q(rows[i - 1][j]) - want) > t:
                    fail("Halton point %d, parameter %d: %r, required lb + phi_%d(%d) (ub - lb) = %r"
                         % (i, j, rows[i - 1][j], primes[j], i, float(want)),
                         dict(inp, point=i, column=j, base=primes[j], value=rows[i - 1][j], required=float(want)),
                         {"kind": "halton_value", "column": j})
                    return

    # -------------------------------------------------------------------------------------
    def grid_step(gen, k, bounds, hinfo):
        n = len(bounds)
        gen.init(k)
        try:
            rows, exc = to_rows(gen.generate()), None
        except CAUGHT as e:
            rows, exc = None, type(e).__name__
        m = dict(hinfo, generator="grid", k=k, bounds=[list(b) for b in bounds], raises=exc)
        if rows is None:
            exp = "None"
            stats["raises"] += 1
        else:
            exp = obs_cols_lit(rows, bounds)
            m["output_head"] = rows[:3]
        emit("grid", "CGrid %s %s" % (nl(k), bs_lit(bounds)), exp, m, k, n,
             ("grid", k, tuple(map(tuple, bounds))), k >= 2 and n >= 1)
        if k >= 3 and n == 2 and rows is not None:
            ctx.sample({kk: m[kk] for kk in ("generator", "k", "bounds", "output_head")})
        if k < 2:
            return
        inp = dict(hinfo, generator="UniformGenerator", k=k, bounds=[list(b) for b in bounds])
        if rows is None:
            fail("uniform generator raised %s for k=%d, %d parameters" % (exc, k, n), inp, {"kind": "grid_raises", "exc": exc})
            return
        if not shape_ok("grid", rows, k ** n, n, inp):
            return
        if not all(Q(lo) < Q(hi) for lo, hi in bounds):
            return
        seen = {}
        for r_i, row in enumerate(rows):
            idx = []
            for j, (lo, hi) in enumerate(bounds):
                lo, hi = Q(lo), Q(hi)
                x = Q(row[j])
                lvl = min(max(round((x - lo) * (k - 1) / (hi - lo)), 0), k - 1)
                want = lo + lvl * (hi - lo) / (k - 1)
                observe_err(row[j], want, lo, hi)
                if abs(x - want) > tol_of(lo, hi):
                    fail("grid row %d, parameter %d: %r is none of the %d equally spaced levels from %r to %r (nearest level %d = %r)"
                         % (r_i, j, row[j], k, bounds[j][0], bounds[j][1], lvl, float(want)),
                         dict(inp, row=r_i, column=j, value=row[j], nearest_level=float(want)),
                         {"kind": "grid_level", "column": j})
                    return
                idx.append(lvl)
            idx = tuple(idx)
            if idx in seen:
                fail("grid rows %d and %d are the same combination of levels %r" % (seen[idx], r_i, idx),
                     dict(inp, rows=[seen[idx], r_i], levels=list(idx)), {"kind": "grid_duplicate"})
                return
            seen[idx] = r_i
        # k^n rows with pairwise different combinations of level indices in 0..k-1 = every combination exactly once

    # -------------------------------------------------------------------------------------
    def simple(x):
        f = Q(x)
        return abs(f.numerator) < 2 ** 20 and f.denominator <= 2 ** 20

    def pow2(x):
        f = Q(x)
        return f > 0 and f.numerator & (f.numerator - 1) == 0 and f.denominator & (f.denominator - 1) == 0

    def random_step(gen, N, bounds, precisions, seed, inject, hinfo):
        n = len(bounds)
        tape = []
        src = pyrandom.Random(seed)

        def rec_random():
            v = src.random()
            if len(tape) in inject:
                v = inject[len(tape)]
            tape.append(v)
            return v

        gen.init(N)
        autils.random = rec_random
        try:
            try:
                rows, exc = to_rows(gen.generate()), None
            except CAUGHT as e:
                rows, exc = None, type(e).__name__
        finally:
            autils.random = REAL_RANDOM
        tape_len["random_draws"] += len(tape)
        precs = [0 if p is None else p for p in precisions]
        m = dict(hinfo, generator="random", N=N, bounds=[list(b) for b in bounds], precisions=precisions, seed=seed,
                 inject={str(k): v for k, v in inject.items()}, draws=len(tape), raises=exc)
        if rows is None:
            exp = "None"
            stats["raises"] += 1
        else:
            tols = []
            for r_i, r in enumerate(rows):
                tr = []
                for j in range(len(r)):
                    if j >= n:
                        tr.append(Fraction(0))
                        continue
                    lo, hi = Q(bounds[j][0]), Q(bounds[j][1])
                    t = tol_of(lo, hi)
                    p = Q(precs[j]) if Q(precs[j]) != 0 else Q(1e-12)
                    near["random_entries"] += 1
                    pos = r_i * n + j
                    if pos < len(tape) and p > 0:
                        # round(number / precision) is a discrete outcome.  The float quotient is within
                        # 4.5 ulp(M) / precision of the exact one (number: 3 roundings, the division: 1), so when the
                        # exact quotient is that close to a half-integer both roundings are legitimate and the entry is
                        # compared with the tolerance widened by one unit of precision
                        u = Q(tape[pos])
                        q = (u * (hi - lo) + lo) / p
                        d = abs((q - math.floor(q)) - Fraction(1, 2))
                        if d == 0 and simple(u) and simple(lo) and simple(hi) and pow2(p):
                            near["random_exact_ties_compared"] += 1      # every float operation is exact: compared strictly
                        elif d <= 5 * ulp_of(lo, hi) / p:
                            if p <= t:
                                near["random_entries_precision_below_float_resolution"] += 1
                            else:
                                near["random_entries_near_rounding_boundary"] += 1
                            t = t + p
                    tr.append(t)
                tols.append(tr)
            exp = obs_lit(rows, tols)
            m["output_head"] = rows[:3]
        emit("random", "CRandom %s %s %s" % (
            nl(N), ll([pl(q_lit(Q(b[0])), q_lit(Q(b[1])), q_lit(Q(pr))) for b, pr in zip(bounds, precs)]),
            ll([q_lit(Q(u)) for u in tape])), exp, m, N, n,
            ("random", N, tuple(map(tuple, bounds)), tuple(precs), seed, tuple(sorted(inject.items()))), N >= 1 and n >= 1)
        if N >= 2 and n >= 2 and rows is not None:
            ctx.sample({k: m[k] for k in ("generator", "N", "bounds", "precisions", "seed", "output_head")})
        inp = dict(hinfo, generator="RandomGenerator", N=N, bounds=[list(b) for b in bounds], precisions=precisions,
                   random_seed=seed, forced_draws=m["inject"])
        if rows is None:
            fail("random generator raised %s for N=%d, %d parameters" % (exc, N, n), inp, {"kind": "random_raises", "exc": exc})
            return
        if not shape_ok("random", rows, N, n, inp):
            return
        for r_i, row in enumerate(rows):
            for j, (lo, hi) in enumerate(bounds):
                lo, hi = Q(lo), Q(hi)
                if lo > hi:
                    continue
                p = abs(Q(precs[j])) if Q(precs[j]) != 0 else Q(1e-12)
                slack = p / 2 + tol_of(lo, hi)
                x = Q(row[j])
                if x < lo - slack or x > hi + slack:
                    fail("random design %d, parameter %d: %r is outside [%r, %r] (precision %r)" % (r_i, j, row[j], bounds[j][0], bounds[j][1], float(p)),
                         dict(inp, design=r_i, column=j, value=row[j]), {"kind": "random_out_of_box", "column": j})
                    return

    # -------------------------------------------------------------------------------------
    # histories
    # -------------------------------------------------------------------------------------
    def semantic(params):
        """what a declared parameter list means to the samplers: name, bounds (numeric values), precision"""
        out = []
        for p in params:
            try:
                b = [Q(x) for x in p["bounds"]]
            except Exception:
                b = repr(p.get("bounds"))
            out.append((p.get("name"), b, p.get("precision")))
        return out

    def run_history(h, hid):
        """h: {"bounds": [[lb, ub], ...], "precisions": [...], "repr": "float"|"numpy"|"tuple", "steps": [...]}"""
        bounds0 = [(b[0], b[1]) for b in h["bounds"]]          # ORIGINAL declared bounds: what the model gets
        precisions = h.get("precisions") or [None] * len(bounds0)
        rp = h.get("repr", "float")
        reprs[rp] = reprs.get(rp, 0) + 1
        params = []
        for i, b in enumerate(bounds0):
            if rp == "numpy":
                bb = [np.float64(b[0]), np.float64(b[1])]
            elif rp == "tuple":
                bb = (b[0], b[1])
            else:
                bb = [b[0], b[1]]
            p = {"name": "x_%d" % i, "bounds": bb, "initial_value": b[0]}
            if precisions[i] is not None:
                p["precision"] = precisions[i]
            params.append(p)
        snapshot = semantic(copy.deepcopy(params))
        n = len(bounds0)
        gens = {}                                               # long-lived generator objects sharing `params`
        hist_stats["histories"] += 1
        mutated_reported = False
        steps = list(h["steps"])
        si = 0
        while si < len(steps):
            st = steps[si]
            si += 1
            g = st["generator"]
            hinfo = {"history": hid, "step": si - 1, "history_so_far": [s["generator"] for s in steps[:si - 1]]}
            hist_stats["steps"] += 1
            if g in ("lhs", "halton", "grid", "random"):
                if st.get("fresh") or g not in gens:
                    gens[g] = {"lhs": ops.LHSGenerator, "halton": ops.HaltonGenerator, "grid": ops.UniformGenerator,
                               "random": ops.RandomGenerator}[g](params)
                else:
                    hist_stats["repeated_generator_objects"] += 1
            if g == "lhs":
                inj = {tuple(int(t) for t in k.split(",")): v for k, v in st.get("inject", {}).items()}
                lhs_step(gens[g], st["N"], bounds0, st.get("seed", 0), inj, hinfo)
            elif g == "halton":
                halton_step(gens[g], st["N"], bounds0, hinfo)
            elif g == "grid":
                grid_step(gens[g], st["k"], bounds0, hinfo)
            elif g == "random":
                inj = {int(k): v for k, v in st.get("inject", {}).items()}
                random_step(gens[g], st["N"], bounds0, precisions, st.get("seed", 0), inj, hinfo)
            else:
                hist_stats["interleaved_other_generators"] += 1
                try:
                    if g == "boxbehnken":
                        ops.BoxBehnkenGenerator(params).generate()
                    elif g == "plackettburman":
                        ops.PlackettBurmanGenerator(params).generate()
                    elif g == "fullfact":
                        og = ops.FullFactorGenerator(params)
                        og.init(center=st.get("center", False))
                        og.generate()
                except Exception:
                    pass
            now = semantic(params)
            if now != snapshot and not mutated_reported:
                mutated_reported = True
                hist_stats["parameter_mutations"] += 1
                ctx.mismatches.append({
                    "what": "generate() of the %s generator changed the shared parameter list (the model's generators are functions of the declared parameters)" % g,
                    "correspondence": "c12_parameters", "case": dict(hinfo, generator=g, bounds=[list(b) for b in bounds0]),
                    "declared": repr(snapshot)[:600], "after_call": repr(now)[:600]})
                # make the consequences visible to the direct oracle: every sampler once more on the shared list,
                # judged against the ORIGINAL declared bounds
                follow = [{"generator": "lhs", "N": 5, "seed": 1}, {"generator": "halton", "N": 5},
                          {"generator": "random", "N": 3, "seed": 1}]
                if 3 ** n * max(n, 1) <= 2100:
                    follow.append({"generator": "grid", "k": 3})
                hist_stats["followup_steps_after_mutation"] += len(follow)
                steps.extend(follow)

    def gen_history(hid):
        n = rng.choice([1, 1, 2, 2, 3, 3, 4, 5, 6, 7, 8])
        r = rng.random()
        if r < 0.03:
            n = 0
        extreme = n <= 3 and rng.random() < 0.25
        nmax = 8 if extreme else NMAX
        bounds, precs = [], []
        for _ in range(n):
            while True:
                b, kd = gen_bound(rng, 0.07, extreme)
                p = rng.choice(PRECS)
                pe = 1e-12 if not p else p
                # number / precision must stay a finite double (the code calls round() on it)
                if max(abs(float(b[0])), abs(float(b[1]))) / pe < 1e300:
                    break
            bounds.append(list(b))
            precs.append(p)
            bound_kinds[kd] = bound_kinds.get(kd, 0) + 1
        rp = rng.choice(["float", "float", "float", "numpy", "tuple"])

        def pick_N():
            r = rng.random()
            if r < 0.25:
                return rng.choice([1, 2, 3, 4, 5])
            if r < 0.35:
                return min(nmax, rng.choice([NMAX, NMAX - 1, 32, 16, 27]))
            if r < 0.38:
                return 0
            return rng.randint(1, nmax)

        steps = []
        for _ in range(rng.choice([3, 4, 5, 6, 7, 8, 10])):
            r = rng.random()
            fresh = rng.random() < 0.2
            if r < 0.30:
                N = pick_N()
                inject = {}
                if N > 0 and n > 0 and rng.random() < 0.25:
                    for _i in range(rng.choice([1, 1, 2, 4, N])):
                        inject["%d,%d" % (rng.randrange(N), rng.randrange(n))] = rng.choice(SPECIAL_U)
                steps.append({"generator": "lhs", "N": N, "seed": rng.randrange(2 ** 31), "inject": inject, "fresh": fresh})
            elif r < 0.45:
                steps.append({"generator": "halton", "N": pick_N(), "fresh": fresh})
            elif r < 0.60:
                cap = 300 if extreme else GRID_CAP
                ks = [k for k in [2, 2, 3, 3, 4, 5, 6, 7, 9, 12, 25, 40] if k ** n * max(n, 1) <= cap]
                k = rng.choice(ks) if ks else 2
                if rng.random() < 0.05:
                    k = rng.choice([0, 1])
                if k ** n * max(n, 1) <= max(cap, 2100):
                    steps.append({"generator": "grid", "k": k, "fresh": fresh})
            elif r < 0.88:
                N = pick_N()
                inject = {}
                if N > 0 and n > 0 and rng.random() < 0.3:
                    for _i in range(rng.choice([1, 2, 4])):
                        inject[str(rng.randrange(N * n))] = rng.choice(SPECIAL_U)
                steps.append({"generator": "random", "N": N, "seed": rng.randrange(2 ** 31), "inject": inject, "fresh": fresh})
            else:
                steps.append({"generator": rng.choice(["boxbehnken", "plackettburman", "fullfact"] if n <= 6 else ["boxbehnken", "plackettburman"]),
                              "center": rng.random() < 0.5})
        return {"bounds": bounds, "precisions": precs, "repr": rp, "steps": steps}

    NMAX = 40
    GRID_CAP = ctx.pick(1100, 2100)
    # corpus first
    cdir = os.path.join(VERIF, "corpus", "C12")
    corpus_n = 0
    if os.path.isdir(cdir):
        for fn in sorted(os.listdir(cdir)):
            if fn.endswith(".json"):
                for h in json.load(open(os.path.join(cdir, fn)))["histories"]:
                    corpus_n += 1
                    for b in h["bounds"]:
                        bound_kinds["corpus"] = bound_kinds.get("corpus", 0) + 1
                    run_history(h, "corpus/%s#%d" % (fn, corpus_n))
    n_hist = ctx.pick(110, 1200)
    for hid in range(n_hist):
        run_history(gen_history(hid), hid)

    ctx.coq_compare("c12", HEADER, "c12_case", "c12_obs", "c12_run", "c12_eqb", cases, expected, meta,
                    shard=ctx.pick(16, 50))

    ctx.rule = ("one case = one generate() call of LHSGenerator / HaltonGenerator / UniformGenerator / RandomGenerator inside a history "
                "of 3..10 calls on one shared parameter list (long-lived generator objects re-initialised with changing numbers, "
                "Box-Behnken / Plackett-Burman / full-factorial generators in between, parameter dicts compared with their snapshot after "
                "every call); parameter counts 0..8, N 0..%d, grid k 0..40 with k^n * n <= %d; bounds from value grids, ints, negative, "
                "tiny (1e-300..1e-9), huge (1e9..1e300), random and a degenerate stream (lb = ub, lb > ub), given as floats, numpy.float64 "
                "or tuples; forced extreme draws (0, 1-2^-53, exact rounding ties) in a quarter of the randomised calls; a case is "
                "non-trivial when N >= 1 (LHS: N >= 2; grid: k >= 2) and there is at least one parameter; distinct = distinct "
                "(generator, N, bounds, seed, forced draws)") % (NMAX, GRID_CAP)
    ctx.extra.update({
        "cases_by_generator": stats, "corpus_histories": corpus_n, "histories": hist_stats, "bounds_kinds": bound_kinds,
        "bounds_representation": reprs,
        "N_histogram": {str(k): v for k, v in sorted(hist_N.items())},
        "parameter_count_histogram": {str(k): v for k, v in sorted(hist_n.items())},
        "near_boundary": near, "tape_lengths": tape_len, "measured_rounding_error": err_stats,
        "tolerance": "%d ulp of max(|lb|,|ub|,|ub-lb|) per entry (+ one unit of precision for random-generator entries "
                     "whose exact quotient is within 5 ulp / precision of a rounding boundary)" % TOL_ULPS,
    })


LEVEL_TEXT = ("Machine-checked Coq theorems over an exact-rational model of the four samplers, for every sample count N >= 1, every "
              "parameter count, all bounds lb < ub, every tape of draws in [0,1) and every family of permutations: each column of a "
              "Latin-hypercube design has exactly one sample in each of the N equal-width strata; the van der Corput loop computes the "
              "radical inverse (digit-reversal sum) so Halton point i, coordinate j is lb_j + phi_{p_j}(i) (ub_j - lb_j), with the 2/3-wheel "
              "sieve proved to deliver the first n primes for every n <= 300 (kernel computation, bound in the statement); the uniform grid "
              "has k^n rows, contains exactly the combinations of the k levels lb + i (ub - lb)/(k-1), each once, first level lb, last ub; the "
              "random generator returns N designs within precision/2 of the box; all return one coordinate per parameter. The model is tied "
              "to doe.py / operators.py / utils.py on every run by evaluating it in Coq on the recorded draw tapes and comparing every "
              "coordinate with the implementation's float under a 16-ulp tolerance.")
LEVEL_NOTE = ("Trusted: Coq kernel + vm_compute; the hand-written model and the Python harness; binary64 rounding is outside the model "
              "(R3: results compared under a stated tolerance, rounding ties near a boundary skipped and counted). primes_correct is proved "
              "for n <= 300 parameters (bound in the statement), everything else is unbounded. Correspondence is sampled.")
